// unit `socone_ops` : draft
use vstd::prelude::*;
verus! {
//@include prelude/float_opaque.rs
//@include prelude/float_real_axioms.rs
//@include prelude/vecmath_assumed.rs
//@include prelude/std_assumed.rs
// ASSUMED scalar helpers of num_traits the prelude does not carry
pub uninterp spec fn f_ln(a: F) -> F;
pub uninterp spec fn f_sqrt2() -> F;
impl F {
    #[verifier::external_body] pub fn ln(self) -> (r: F) ensures r == f_ln(self) { unimplemented!() }
    // num_traits::Zero for the float types: `*self == 0.0`
    #[verifier::external_body] pub fn is_zero(&self) -> (r: bool) ensures r == f_eq(*self, f_zero()) { unimplemented!() }
    // num_traits::FloatConst
    #[verifier::external_body] pub fn SQRT_2() -> (r: F) ensures r == f_sqrt2() { unimplemented!() }
}

//@enum file=src/solver/core/solver.rs name=ScalingStrategy derive="PartialEq, Eq, Clone, Copy, Structural"
//@enum file=src/solver/core/cones/mod.rs name=PrimalOrDualCone rules=R12 derive="PartialEq, Eq, Clone, Copy, Structural"
//@enum file=src/algebra/matrix_types.rs name=MatrixShape rules=R12 derive="PartialEq, Eq, Clone, Copy, Structural"
//@struct file=src/solver/core/cones/socone.rs name=SecondOrderConeSparseData
//@struct file=src/solver/core/cones/socone.rs name=SecondOrderCone rules=R2

pub open spec fn tail(z: Seq<F>) -> Seq<F> { z.subrange(1, z.len() as int) }
pub open spec fn all_eq(a: Seq<F>, c: F) -> bool { forall|i: int| 0 <= i < a.len() ==> #[trigger] a[i] == c }
pub open spec fn unit_vec(w: Seq<F>, first: F) -> bool {
    w.len() >= 1 && w[0] == first && forall|i: int| 1 <= i < w.len() ==> #[trigger] w[i] == f_zero()
}

// ------------------------------------------------------------------ scalar helper of compute_barrier
pub open spec fn logsafe_spec(x: F) -> F { if f_le(x, f_zero()) { f_neg(f_inf()) } else { f_ln(x) } }
pub trait ScalarMath: Sized { fn logsafe(&self) -> Self; }
impl ScalarMath for F {
//@fn file=src/algebra/scalarmath.rs in="ScalarMath for T" name=logsafe rules=R1 ret=r
//@contract
    ensures r == logsafe_spec(*self)
//@end
}
// sum over i of (s_i + a ds_i) * (z_i + a dz_i), as the left fold the code performs
pub open spec fn fold_dot_shifted(z: Seq<F>, s: Seq<F>, dz: Seq<F>, ds: Seq<F>, a: F, k: int) -> F decreases k {
    if k <= 0 { f_zero() } else {
        f_add(fold_dot_shifted(z, s, dz, ds, a, k - 1),
              f_mul(f_add(s[k - 1], f_mul(a, ds[k - 1])), f_add(z[k - 1], f_mul(a, dz[k - 1]))))
    }
}
//@fn file=src/algebra/vecmath.rs in="VectorMath<T> for [T]" name=dot_shifted rules=R1,R2,R6,zipidx:1=iiii ret=r
//@contract
    requires z@.len() == s@.len(), z@.len() == dz@.len(), s@.len() == ds@.len(),
    ensures r == fold_dot_shifted(z@, s@, dz@, ds@, alpha, z@.len() as int),
//@loop 1
            invariant
                z@.len() == s@.len(), z@.len() == dz@.len(), s@.len() == ds@.len(), r14_n1 == z@.len(),
                out == fold_dot_shifted(z@, s@, dz@, ds@, alpha, $var1 as int),
//@end

// ------------------------------------------------------------------ residuals
pub open spec fn soc_resid(z: Seq<F>) -> F { f_mul(f_sub(z[0], vm_norm(tail(z))), f_add(z[0], vm_norm(tail(z)))) }
pub open spec fn sqrt_resid(z: Seq<F>) -> F { if f_lt(f_zero(), soc_resid(z)) { f_sqrt(soc_resid(z)) } else { f_zero() } }
pub open spec fn soc_resid_shifted(z: Seq<F>, dz: Seq<F>, a: F) -> F {
    let x0 = f_add(z[0], f_mul(a, dz[0]));
    let nrm = f_sqrt(fold_dot_shifted(tail(z), tail(z), tail(dz), tail(dz), a, z.len() - 1));
    f_mul(f_sub(x0, nrm), f_add(x0, nrm))
}
//@fn file=src/solver/core/cones/socone.rs name=_soc_residual rules=R1 ret=r
//@contract
    requires z@.len() >= 1,
    ensures r == soc_resid(z@),
//@end
//@fn file=src/solver/core/cones/socone.rs name=_sqrt_soc_residual rules=R1 ret=r
//@contract
    requires z@.len() >= 1,
    ensures r == sqrt_resid(z@),
//@end
//@fn file=src/solver/core/cones/socone.rs name=_soc_residual_shifted rules=R1,R2,R32 ret=r
//@contract
    requires z@.len() >= 1, dz@.len() == z@.len(),
    ensures r == soc_resid_shifted(z@, dz@, alpha),
//@end

// ------------------------------------------------------------------ Jordan product and its inverse
// x = y o z :  x0 = <y, z>,  x1 = y0 z1 + z0 y1
pub open spec fn circ_seq(y: Seq<F>, z: Seq<F>) -> Seq<F> {
    Seq::new(y.len(), |i: int| if i == 0 { vm_dot(y, z) } else { f_add(f_mul(y[0], z[i]), f_mul(z[0], y[i])) })
}
// x = y \ z  (y o x = z):  with p = y0^2 - |y1|^2, v = <y1, z1>:  x0 = (y0 z0 - v) / p,  x1 = ((v / y0 - z0) / p) y1 + z1 / y0
pub open spec fn inv_circ_seq(y: Seq<F>, z: Seq<F>) -> Seq<F> {
    let pinv = f_recip(soc_resid(y));
    let v = vm_dot(tail(y), tail(z));
    Seq::new(y.len(), |i: int| if i == 0 { f_mul(f_sub(f_mul(y[0], z[0]), v), pinv) }
        else { f_add(f_mul(f_mul(pinv, f_sub(f_div(v, y[0]), z[0])), y[i]), f_mul(f_recip(y[0]), z[i])) })
}
//@fn file=src/solver/core/cones/socone.rs name=_circ_op rules=R1
//@contract
    requires old(x)@.len() >= 1, y@.len() == old(x)@.len(), z@.len() == old(x)@.len(),
    ensures final(x)@ == circ_seq(y@, z@),
//@end
//@fn file=src/solver/core/cones/socone.rs name=_inv_circ_op rules=R1
//@contract
    requires old(x)@.len() >= 1, y@.len() == old(x)@.len(), z@.len() == old(x)@.len(),
    ensures final(x)@ == inv_circ_seq(y@, z@),
//@end

// ------------------------------------------------------------------ W and its inverse
// y = alpha W x + beta y,  W = eta [ w0  w1' ; w1  I + w1 w1' / (1 + w0) ]:
//   zeta = <w1, x1>,  y0 = alpha eta (w0 x0 + zeta) + beta y0,  y1 = alpha eta (x1 + (x0 + zeta / (1 + w0)) w1) + beta y1
// (the tail is assembled by two axpby calls: first (alpha eta c) w1 + beta y1, then (alpha eta) x1 + 1 * that)
pub open spec fn mulW_seq(y0: Seq<F>, x: Seq<F>, alpha: F, beta: F, w: Seq<F>, eta: F) -> Seq<F> {
    let zeta = vm_dot(tail(w), tail(x));
    let c = f_add(x[0], f_div(zeta, f_add(f_one(), w[0])));
    let ae = f_mul(alpha, eta);
    Seq::new(y0.len(), |i: int| if i == 0 { f_add(f_mul(ae, f_add(f_mul(w[0], x[0]), zeta)), f_mul(beta, y0[0])) }
        else { f_add(f_mul(ae, x[i]), f_mul(f_one(), f_add(f_mul(f_mul(ae, c), w[i]), f_mul(beta, y0[i])))) })
}
// y = alpha W^{-1} x + beta y,  W^{-1} = (1 / eta) [ w0  -w1' ; -w1  I + w1 w1' / (1 + w0) ]
pub open spec fn mulWinv_seq(y0: Seq<F>, x: Seq<F>, alpha: F, beta: F, w: Seq<F>, eta: F) -> Seq<F> {
    let zeta = vm_dot(tail(w), tail(x));
    let c = f_add(f_neg(x[0]), f_div(zeta, f_add(f_one(), w[0])));
    let ae = f_div(alpha, eta);
    Seq::new(y0.len(), |i: int| if i == 0 { f_add(f_mul(ae, f_sub(f_mul(w[0], x[0]), zeta)), f_mul(beta, y0[0])) }
        else { f_add(f_mul(ae, x[i]), f_mul(f_one(), f_add(f_mul(f_mul(ae, c), w[i]), f_mul(beta, y0[i])))) })
}
//@fn file=src/solver/core/cones/socone.rs name=_soc_mul_W_inner rules=R1,R2
//@contract
    requires old(y)@.len() >= 1, x@.len() == old(y)@.len(), w@.len() == old(y)@.len(),
    ensures final(y)@ == mulW_seq(old(y)@, x@, alpha, beta, w@, eta),
//@end
//@fn file=src/solver/core/cones/socone.rs name=_soc_mul_Winv_inner rules=R1,R2
//@contract
    requires old(y)@.len() >= 1, x@.len() == old(y)@.len(), w@.len() == old(y)@.len(),
    ensures final(y)@ == mulWinv_seq(old(y)@, x@, alpha, beta, w@, eta),
//@end

// ------------------------------------------------------------------ the cone object
impl SecondOrderConeSparseData<F> {
//@fn file=src/solver/core/cones/socone.rs in="impl<T> SecondOrderConeSparseData<T>" name=new rules=R1 ret=r
//@contract
    ensures r.u@.len() == dim, r.v@.len() == dim, all_eq(r.u@, f_zero()), all_eq(r.v@, f_zero()), r.d == f_one(),
//@end
}

// the packed upper triangle, column by column: entry (row, col), row <= col, sits at col (col + 1) / 2 + row
pub open spec fn tri(k: int) -> int decreases k { if k <= 0 { 0 } else { tri(k - 1) + k } }
pub open spec fn pk(row: int, col: int) -> int { tri(col) + row }
pub proof fn lemma_tri_closed(k: int) requires k >= 0 ensures 2 * tri(k) == k * (k + 1) decreases k
{
    if k > 0 { lemma_tri_closed(k - 1); assert((k - 1) * k + 2 * k == k * (k + 1)) by(nonlinear_arith); }
    else { assert(0 * (0 + 1) == 0) by(nonlinear_arith); }
}
pub proof fn lemma_tri_mono(a: int, b: int) requires 0 <= a <= b ensures tri(a) <= tri(b) decreases b
{
    if a < b { lemma_tri_mono(a, b - 1); }
}
// Hs = eta^2 (2 w w' - J), J = diag(1, -I):  entry (row, col) before the final scaling by eta^2
pub open spec fn hs_raw(w: Seq<F>, row: int, col: int) -> F {
    if col == 0 { f_mul(f_sub(f_mul(f_sqrt2(), w[0]), f_one()), f_add(f_mul(f_sqrt2(), w[0]), f_one())) }   // 2 w0^2 - 1
    else if row == col { f_add(f_mul(f_mul(f_lit(2.0), w[row]), w[col]), f_one()) }                          // 2 wi wi + 1
    else { f_mul(f_mul(f_lit(2.0), w[row]), w[col]) }                                                        // 2 wi wj
}
pub open spec fn hs_dense(w: Seq<F>, eta: F, row: int, col: int) -> F { f_mul(hs_raw(w, row, col), f_mul(eta, eta)) }
// the slack-step operator y = Hs x = eta^2 (2 w <w, x> - J x)
pub open spec fn mulHs_seq(x: Seq<F>, w: Seq<F>, eta: F) -> Seq<F> {
    let c = f_mul(vm_dot(w, x), f_lit(2.0));
    Seq::new(x.len(), |i: int| f_mul(f_add(f_mul(c, w[i]), f_mul(f_one(), if i == 0 { f_neg(x[0]) } else { x[i] })), f_mul(eta, eta)))
}
// out = W'(lambda \ ds) in the form the code evaluates
pub open spec fn ds_offset_seq(z: Seq<F>, ds: Seq<F>, lambda: Seq<F>, w: Seq<F>, eta: F) -> Seq<F> {
    let l1 = vm_dot(tail(lambda), tail(ds));
    let w1 = vm_dot(tail(w), tail(ds));
    let q = f_div(f_sub(f_mul(lambda[0], ds[0]), l1), soc_resid(z));
    let linv = f_recip(lambda[0]);
    Seq::new(z.len(), |i: int| if i == 0 { f_mul(f_add(f_mul(z[0], q), f_mul(eta, w1)), linv) }
        else { f_mul(f_add(f_mul(f_neg(z[i]), q), off_inc(ds, w, eta, w1, i)), linv) })
}
pub open spec fn off_inc(ds: Seq<F>, w: Seq<F>, eta: F, w1: F, i: int) -> F { f_mul(eta, f_add(ds[i], f_mul(f_div(w1, f_add(f_one(), w[0])), w[i]))) }
pub open spec fn soc_wf(c: SecondOrderCone<F>) -> bool {
    c.w@.len() >= 1 && c.lambda@.len() == c.w@.len() && (c.sparse_data matches Some(sd) ==> sd.u@.len() == c.w@.len() && sd.v@.len() == c.w@.len())
}

impl SecondOrderCone<F> {
//@fn file=src/solver/core/cones/socone.rs in="impl<T> SecondOrderCone<T>" name=new rules=R1,R2,R27 ret=r
//@contract
    requires dim >= 2,      // assert!
    ensures r.dim == dim, r.w@.len() == dim, r.lambda@.len() == dim, all_eq(r.w@, f_zero()), all_eq(r.lambda@, f_zero()), r.eta == f_zero(),
        // cones of dimension up to 4 are kept dense, larger ones get the sparse expansion
        r.sparse_data is Some <==> dim > 4,
        r.sparse_data matches Some(sd) ==> sd.u@.len() == dim && sd.v@.len() == dim && all_eq(sd.u@, f_zero()) && all_eq(sd.v@, f_zero()) && sd.d == f_one(),
//@end
//@fn file=src/solver/core/cones/socone.rs in="Cone<T> for SecondOrderCone<T>" name=degree rules=R1,R2 ret=r
//@contract
    ensures r == 1,
//@end
//@fn file=src/solver/core/cones/socone.rs in="Cone<T> for SecondOrderCone<T>" name=numel rules=R1,R2 ret=r
//@contract
    ensures r == self.dim,
//@end
//@fn file=src/solver/core/cones/socone.rs in="Cone<T> for SecondOrderCone<T>" name=is_symmetric rules=R1,R2 ret=r
//@contract
    ensures r,
//@end
//@fn file=src/solver/core/cones/socone.rs in="Cone<T> for SecondOrderCone<T>" name=is_sparse_expandable rules=R1,R2 ret=r
//@contract
    ensures r == (self.sparse_data is Some),
//@end
//@fn file=src/solver/core/cones/socone.rs in="Cone<T> for SecondOrderCone<T>" name=allows_primal_dual_scaling rules=R1,R2 ret=r
//@contract
    ensures r,
//@end
//@fn file=src/solver/core/cones/socone.rs in="Cone<T> for SecondOrderCone<T>" name=Hs_is_diagonal rules=R1,R2 ret=r
//@contract
    ensures r == (self.sparse_data is Some),
//@end
// second copy of scaled_unit_shift (proved in unit `soc_step` with the same contract; needed here as a callee)
//@fn file=src/solver/core/cones/socone.rs in="Cone<T> for SecondOrderCone<T>" name=scaled_unit_shift rules=R1,R2 params=z,alpha,pd
//@contract
    requires old(z)@.len() >= 1,
    ensures final(z)@ == old(z)@.update(0, f_add(old(z)@[0], alpha)),
//@end
//@fn file=src/solver/core/cones/socone.rs in="Cone<T> for SecondOrderCone<T>" name=unit_initialization rules=R1,R2
//@contract
    requires old(z)@.len() >= 1, old(s)@.len() >= 1,
    ensures final(z)@.len() == old(z)@.len(), final(s)@.len() == old(s)@.len(),
        // z = s = e = (1, 0, .., 0), the 1 obtained as 0 + 1
        unit_vec(final(z)@, f_add(f_zero(), f_one())), unit_vec(final(s)@, f_add(f_zero(), f_one())),
//@end
//@fn file=src/solver/core/cones/socone.rs in="Cone<T> for SecondOrderCone<T>" name=mul_Hs rules=R1,R2
//@contract
    requires old(y)@.len() >= 1, x@.len() == old(y)@.len(), old(self).w@.len() == old(y)@.len(),
    ensures *final(self) == *old(self), final(_work)@ == old(_work)@,
        final(y)@ == mulHs_seq(x@, old(self).w@, old(self).eta),
//@end
//@fn file=src/solver/core/cones/socone.rs in="Cone<T> for SecondOrderCone<T>" name=affine_ds rules=R1,R2
//@contract
    requires old(ds)@.len() >= 1, self.lambda@.len() == old(ds)@.len(),
    ensures final(ds)@ == circ_seq(self.lambda@, self.lambda@),
//@end
//@fn file=src/solver/core/cones/socone.rs in="Cone<T> for SecondOrderCone<T>" name=compute_barrier rules=R1,R2 ret=r
//@contract
    requires z@.len() >= 1, dz@.len() == z@.len(), s@.len() >= 1, ds@.len() == s@.len(),
    ensures *final(self) == *old(self),
        // -(1/2) log(resid(s + a ds) * resid(z + a dz)), +inf outside the interior
        r == (if f_lt(f_zero(), soc_resid_shifted(s@, ds@, alpha)) && f_lt(f_zero(), soc_resid_shifted(z@, dz@, alpha)) {
                f_mul(f_neg(logsafe_spec(f_mul(soc_resid_shifted(s@, ds@, alpha), soc_resid_shifted(z@, dz@, alpha)))), f_lit(0.5))
              } else { f_inf() }),
//@end
//@fn file=src/solver/core/cones/socone.rs in="SymmetricCone<T> for SecondOrderCone<T>" name=λ_inv_circ_op rules=R1,R2
//@contract
    requires old(x)@.len() >= 1, old(self).lambda@.len() == old(x)@.len(), z@.len() == old(x)@.len(),
    ensures *final(self) == *old(self), final(x)@ == inv_circ_seq(old(self).lambda@, z@),
//@end
//@fn file=src/solver/core/cones/socone.rs in="SymmetricCone<T> for SecondOrderCone<T>" name=mul_W rules=R1,R2
//@contract
    requires old(y)@.len() >= 1, x@.len() == old(y)@.len(), old(self).w@.len() == old(y)@.len(),
    ensures *final(self) == *old(self), final(y)@ == mulW_seq(old(y)@, x@, alpha, beta, old(self).w@, old(self).eta),
//@end
//@fn file=src/solver/core/cones/socone.rs in="SymmetricCone<T> for SecondOrderCone<T>" name=mul_Winv rules=R1,R2
//@contract
    requires old(y)@.len() >= 1, x@.len() == old(y)@.len(), old(self).w@.len() == old(y)@.len(),
    ensures *final(self) == *old(self), final(y)@ == mulWinv_seq(old(y)@, x@, alpha, beta, old(self).w@, old(self).eta),
//@end
//@fn file=src/solver/core/cones/socone.rs in="JordanAlgebra<T> for SecondOrderCone<T>" name=circ_op rules=R1,R2
//@contract
    requires old(x)@.len() >= 1, y@.len() == old(x)@.len(), z@.len() == old(x)@.len(),
    ensures *final(self) == *old(self), final(x)@ == circ_seq(y@, z@),
//@end
//@fn file=src/solver/core/cones/socone.rs in="JordanAlgebra<T> for SecondOrderCone<T>" name=inv_circ_op rules=R1,R2
//@contract
    requires old(x)@.len() >= 1, y@.len() == old(x)@.len(), z@.len() == old(x)@.len(),
    ensures *final(self) == *old(self), final(x)@ == inv_circ_seq(y@, z@),
//@end
}

// the combined-step shift, as assembled by _combined_ds_shift_symmetric:  dz <- W dz, ds <- W^{-1} ds, shift = ds o dz - sigma mu e
pub open spec fn shift_seq(dz1: Seq<F>, ds1: Seq<F>, sigmamu: F) -> Seq<F> {
    circ_seq(ds1, dz1).update(0, f_add(circ_seq(ds1, dz1)[0], f_neg(sigmamu)))
}
impl SecondOrderCone<F> {
// the blanket implementation `impl<T, C: SymmetricCone<T> + Cone<T>> SymmetricConeUtils<T> for C`, real text, at C = SecondOrderCone<T>
//@fn file=src/solver/core/cones/symmetric_common.rs in="SymmetricConeUtils<T> for C" name=_combined_ds_shift_symmetric rules=R1,R2
//@contract
    requires old(self).w@.len() >= 1, old(shift)@.len() == old(self).w@.len(), old(step_z)@.len() == old(self).w@.len(), old(step_s)@.len() == old(self).w@.len(),
    ensures *final(self) == *old(self),
        final(step_z)@ == mulW_seq(old(step_z)@, old(step_z)@, f_one(), f_zero(), old(self).w@, old(self).eta),
        final(step_s)@ == mulWinv_seq(old(step_s)@, old(step_s)@, f_one(), f_zero(), old(self).w@, old(self).eta),
        final(shift)@ == shift_seq(final(step_z)@, final(step_s)@, sigmamu),
//@end
//@fn file=src/solver/core/cones/socone.rs in="Cone<T> for SecondOrderCone<T>" name=combined_ds_shift rules=R1,R2
//@contract
    // the three work vectors are slices of length numel() of the same cone (call site: CompositeCone::combined_ds_shift)
    requires old(self).w@.len() >= 1, old(shift)@.len() == old(self).w@.len(), old(step_z)@.len() == old(self).w@.len(), old(step_s)@.len() == old(self).w@.len(),
    ensures *final(self) == *old(self),
        final(step_z)@ == mulW_seq(old(step_z)@, old(step_z)@, f_one(), f_zero(), old(self).w@, old(self).eta),
        final(step_s)@ == mulWinv_seq(old(step_s)@, old(step_s)@, f_one(), f_zero(), old(self).w@, old(self).eta),
        final(shift)@ == shift_seq(final(step_z)@, final(step_s)@, sigmamu),
//@end
//@fn file=src/solver/core/cones/socone.rs in="Cone<T> for SecondOrderCone<T>" name=Δs_from_Δz_offset rules=R1,R2,zipidx:1=mii
//@contract
    requires old(out)@.len() >= 1, ds@.len() == old(out)@.len(), z@.len() == old(out)@.len(),
        old(self).w@.len() == old(out)@.len(), old(self).lambda@.len() == old(out)@.len(),
    ensures *final(self) == *old(self), final(_work)@ == old(_work)@,
        final(out)@ == ds_offset_seq(z@, ds@, old(self).lambda@, old(self).w@, old(self).eta),
//@closure 1
F
(q_r: F) ensures q_r == f_neg(zi)
//@before_loop 1
        let ghost o1 = out@;
//@loop 1
            invariant
                r14_n1 == o1.len() - 1, r14_lo1_0 == 1, r14_lo1_1 == 1, r14_lo1_2 == 1,
                out@.len() == o1.len(), ds@.len() == o1.len(), self.w@.len() == o1.len(), *self == *old(self), _work@ == old(_work)@,
                out@[0] == o1[0],
                forall|i: int| 1 <= i < 1 + $var1 ==> #[trigger] out@[i] == f_add(o1[i], off_inc(ds@, self.w@, self.eta, w1ds1, i)),
                forall|i: int| 1 + $var1 <= i < o1.len() ==> #[trigger] out@[i] == o1[i],
//@end
}

pub open spec fn hs_offdiag(w: Seq<F>, row: int, col: int) -> F { f_mul(f_mul(f_lit(2.0), w[row]), w[col]) }
// every packed position of a column c < col lies below tri(col)
pub proof fn lemma_pk_below(col: int)
    requires col >= 0,
    ensures forall|r: int, c: int| 0 <= r <= c < col ==> 0 <= #[trigger] pk(r, c) < tri(col),
{
    assert forall|r: int, c: int| 0 <= r <= c < col implies 0 <= #[trigger] pk(r, c) < tri(col) by {
        lemma_tri_mono(0, c); lemma_tri_mono(c + 1, col);
    }
}
impl SecondOrderCone<F> {
//@fn file=src/solver/core/cones/socone.rs in="Cone<T> for SecondOrderCone<T>" name=get_Hs rules=R1,R2,R20
//@contract
    requires self.dim >= 1, self.w@.len() == self.dim,
        // call site (KKT assembly): numel entries for a cone with diagonal Hs, the packed triangle otherwise
        self.sparse_data is Some ==> old(Hsblock)@.len() >= 1,
        self.sparse_data is None ==> old(Hsblock)@.len() == tri(self.dim as int),
    ensures final(Hsblock)@.len() == old(Hsblock)@.len(),
        // sparse form: the diagonal block eta^2 diag(d, 1, .., 1) of the expansion
        self.sparse_data matches Some(sd) ==> final(Hsblock)@[0] == f_mul(f_mul(self.eta, self.eta), sd.d)
            && forall|i: int| 1 <= i < old(Hsblock)@.len() ==> #[trigger] final(Hsblock)@[i] == f_mul(self.eta, self.eta),
        // dense form: eta^2 (2 w w' - J), upper triangle packed column by column
        self.sparse_data is None ==> forall|row: int, col: int| 0 <= row <= col < self.dim ==> final(Hsblock)@[#[trigger] pk(row, col)] == hs_dense(self.w@, self.eta, row, col),
//@pre
        let ghost dim = self.dim as int;
//@loop 1
                invariant
                    dim == self.dim, dim >= 1, self.w@.len() == dim, Hsblock@.len() == tri(dim), hidx == tri($var1 as int), two == f_lit(2.0),
                    forall|r: int, c: int| 0 <= r <= c < $var1 ==> Hsblock@[#[trigger] pk(r, c)] == hs_raw(self.w@, r, c),
//@loop 2
                    invariant
                        dim == self.dim, self.w@.len() == dim, Hsblock@.len() == tri(dim), 1 <= $var1 < dim, hidx == tri($var1 as int) + $var2, two == f_lit(2.0),
                        wcol == self.w@[$var1 as int],
                        forall|r: int, c: int| 0 <= r <= c < $var1 ==> Hsblock@[#[trigger] pk(r, c)] == hs_raw(self.w@, r, c),
                        forall|r: int| 0 <= r < $var2 ==> Hsblock@[#[trigger] pk(r, $var1 as int)] == hs_offdiag(self.w@, r, $var1 as int),
//@body_start 2
                    proof { lemma_pk_below($var1 as int); lemma_tri_mono($var1 as int + 1, dim); assert(pk($var2 as int, $var1 as int) == hidx); }
//@before "Hsblock[hidx - 1] += "
                proof { lemma_pk_below($var1 as int); lemma_tri_mono($var1 as int + 1, dim); assert(pk($var1 as int, $var1 as int) == hidx - 1); }
//@end
}

} // verus!
fn main() {}
