// unit `vecmath` : the real bodies of algebra/vecmath.rs (impl VectorMath<T> for [T]) verified against the contracts that
// every other unit uses for them (prelude/vecmath_contract.rs).  Float model: F-opaque - the contracts speak about the
// float symbols only (which operations are applied to which elements in which order), no arithmetic law is used.
use vstd::prelude::*;
verus! {
//@include prelude/float_opaque.rs
//@include prelude/vecmath_contract.rs
pub open spec fn range_from(sq: Seq<usize>, lo: int) -> bool { forall|k: int| 0 <= k < sq.len() ==> #[trigger] sq[k] == lo + k }

impl VectorMath for [F] {
    open spec fn vw(&self) -> Seq<F> { self@ }

//@fn file=src/algebra/vecmath.rs in="VectorMath<T> for [T]" name=copy_from rules=R1 ret=r
//@end

//@fn file=src/algebra/vecmath.rs in="VectorMath<T> for [T]" name=axpby rules=R1,R6,R17,zipidx:1=mi ret=r
//@pre
        let ghost y0 = self@;
//@iter 1
it
//@loop 1
        invariant
            it.seq().len() == r14_n1, range_from(it.seq(), 0), r14_n1 == y0.len(), self@.len() == y0.len(), x@.len() == y0.len(),
            forall|i: int| 0 <= i < it.index@ ==> #[trigger] self@[i] == f_add(f_mul(a, x@[i]), f_mul(b, y0[i])),
            forall|i: int| it.index@ <= i < y0.len() ==> #[trigger] self@[i] == y0[i],
//@end

//@fn file=src/algebra/vecmath.rs in="VectorMath<T> for [T]" name=waxpby rules=R1,R6,zipidx:1=mii ret=r
//@pre
        let ghost w0 = self@;
//@iter 1
it
//@loop 1
        invariant
            it.seq().len() == r14_n1, range_from(it.seq(), 0), r14_n1 == w0.len(), self@.len() == w0.len(), x@.len() == w0.len(), y@.len() == w0.len(),
            forall|i: int| 0 <= i < it.index@ ==> #[trigger] self@[i] == f_add(f_mul(a, x@[i]), f_mul(b, y@[i])),
//@end

//@fn file=src/algebra/vecmath.rs in="VectorMath<T> for [T]" name=hadamard rules=R1,R17,zipidx:1=mi ret=r
//@pre
        let ghost x0 = self@;
//@iter 1
it
//@loop 1
        invariant
            it.seq().len() == r14_n1, range_from(it.seq(), 0), r14_n1 == vm_len2(x0, y@), self@.len() == x0.len(),
            forall|i: int| 0 <= i < it.index@ ==> #[trigger] self@[i] == f_mul(x0[i], y@[i]),
            forall|i: int| it.index@ <= i < x0.len() ==> #[trigger] self@[i] == x0[i],
//@end

//@fn file=src/algebra/vecmath.rs in="VectorMath<T> for [T]" name=dot rules=R1,R24,zipidx:1=ii ret=r
//@pre
        proof { reveal(vm_dot); }
//@iter 1
it
//@loop 1
        invariant
            it.seq().len() == r14_n1, range_from(it.seq(), 0), r14_n1 == vm_len2(self@, y@),
            acc == fold_dot(self@, y@, it.index@ as int),
//@end

//@fn file=src/algebra/vecmath.rs in="VectorMath<T> for [T]" name=sum rules=R1,R24,zipidx:1=i ret=r
//@iter 1
it
//@loop 1
        invariant
            it.seq().len() == r14_n1, range_from(it.seq(), 0), r14_n1 == self@.len(),
            acc == fold_sum(self@, it.index@ as int),
//@end

//@fn file=src/algebra/vecmath.rs in="VectorMath<T> for [T]" name=sumsq rules=R1 ret=r
//@pre
        proof { reveal(vm_dot); reveal(vm_sumsq); }
//@end

//@fn file=src/algebra/vecmath.rs in="VectorMath<T> for [T]" name=norm rules=R1 ret=r
//@pre
        proof { reveal(vm_norm); reveal(vm_sumsq); }
//@end

//@fn file=src/algebra/vecmath.rs in="VectorMath<T> for [T]" name=scalarop rules=R25,R1,zipidx:1=m ret=r
//@pre
        let ghost x0 = self@;
//@iter 1
it
//@loop 1
        invariant
            it.seq().len() == r14_n1, range_from(it.seq(), 0), r14_n1 == x0.len(), self@.len() == x0.len(),
            forall|x: F| #![trigger op.requires((x,))] op.requires((x,)),
            forall|i: int| 0 <= i < it.index@ ==> op.ensures((x0[i],), #[trigger] self@[i]),
            forall|i: int| it.index@ <= i < x0.len() ==> #[trigger] self@[i] == x0[i],
//@end

//@fn file=src/algebra/vecmath.rs in="VectorMath<T> for [T]" name=scalarop_from rules=R25,R1,zipidx:1=mi ret=r
//@pre
        let ghost x0 = self@;
//@iter 1
it
//@loop 1
        invariant
            it.seq().len() == r14_n1, range_from(it.seq(), 0), r14_n1 == vm_len2(x0, v@), self@.len() == x0.len(),
            forall|x: F| #![trigger op.requires((x,))] op.requires((x,)),
            forall|i: int| 0 <= i < it.index@ ==> op.ensures((v@[i],), #[trigger] self@[i]),
            forall|i: int| it.index@ <= i < x0.len() ==> #[trigger] self@[i] == x0[i],
//@end

//@fn file=src/algebra/vecmath.rs in="VectorMath<T> for [T]" name=translate rules=R1 ret=r
//@closure 1
F
(q: F) ensures q == f_add(x, c)
//@end

//@fn file=src/algebra/vecmath.rs in="VectorMath<T> for [T]" name=set rules=R1 ret=r
//@closure 1
F
(q: F) ensures q == c
//@end

//@fn file=src/algebra/vecmath.rs in="VectorMath<T> for [T]" name=scale rules=R1 ret=r
//@closure 1
F
(q: F) ensures q == f_mul(x, c)
//@end

//@fn file=src/algebra/vecmath.rs in="VectorMath<T> for [T]" name=rsqrt rules=R1 ret=r
//@closure 1
F
(q: F) ensures q == f_recip(f_sqrt(x))
//@end

//@fn file=src/algebra/vecmath.rs in="VectorMath<T> for [T]" name=negate rules=R1 ret=r
//@closure 1
F
(q: F) ensures q == f_neg(x)
//@end

//@fn file=src/algebra/vecmath.rs in="VectorMath<T> for [T]" name=recip rules=R1 ret=r
//@end

//@fn file=src/algebra/vecmath.rs in="VectorMath<T> for [T]" name=norm_inf rules=R1,zipidx:1=i ret=r
//@pre
        proof { reveal(vm_norm_inf); }
//@iter 1
it
//@loop 1
        invariant
            it.seq().len() == r14_n1, range_from(it.seq(), 0), r14_n1 == self@.len(),
            forall|i: int| 0 <= i < it.index@ ==> !f_is_nan(#[trigger] self@[i]),
            out == fold_maxabs(self@, it.index@ as int),
//@before "return F::nan();"
                proof { reveal(vm_norm_inf); assert(f_is_nan(self@[r14_i1 as int])); }
//@end

//@fn file=src/algebra/vecmath.rs in="VectorMath<T> for [T]" name=norm_scaled rules=R1,R6,R24,zipidx:1=ii ret=r
//@pre
        proof { reveal(vm_norm_scaled); }
//@iter 1
it
//@loop 1
        invariant
            it.seq().len() == r14_n1, range_from(it.seq(), 0), r14_n1 == vm_len2(self@, v@),
            acc == fold_ss(self@, v@, it.index@ as int),
//@end

//@fn file=src/algebra/vecmath.rs in="VectorMath<T> for [T]" name=norm_inf_scaled rules=R1,R6,R24,zipidx:1=ii ret=r
//@pre
        proof { reveal(vm_norm_inf_scaled); }
//@iter 1
it
//@loop 1
        invariant
            it.seq().len() == r14_n1, range_from(it.seq(), 0), r14_n1 == vm_len2(self@, v@),
            acc == fold_maxabs2(self@, v@, it.index@ as int),
//@end

//@fn file=src/algebra/vecmath.rs in="VectorMath<T> for [T]" name=minimum rules=R1,R24,zipidx:1=i ret=res
//@pre
        proof { reveal(vm_minimum); }
//@iter 1
it
//@loop 1
        invariant
            it.seq().len() == r14_n1, range_from(it.seq(), 0), r14_n1 == self@.len(),
            r == fold_min(self@, it.index@ as int),
//@end

//@fn file=src/algebra/vecmath.rs in="VectorMath<T> for [T]" name=maximum rules=R1,R24,zipidx:1=i ret=res
//@pre
        proof { reveal(vm_maximum); }
//@iter 1
it
//@loop 1
        invariant
            it.seq().len() == r14_n1, range_from(it.seq(), 0), r14_n1 == self@.len(),
            r == fold_max(self@, it.index@ as int),
//@end

//@fn file=src/algebra/vecmath.rs in="VectorMath<T> for [T]" name=mean rules=R1,R24,zipidx:1=i ret=res
//@pre
        proof { reveal(vm_mean); }
//@iter 1
it
//@loop 1
        invariant
            it.seq().len() == r14_n1, range_from(it.seq(), 0), r14_n1 == self@.len(),
            r == fold_sum(self@, it.index@ as int),
//@end

//@fn file=src/algebra/vecmath.rs in="VectorMath<T> for [T]" name=is_finite rules=R1,R21,zipidx:1=i ret=r
//@pre
        proof { reveal(vm_is_finite); }
//@iter 1
it
//@loop 1
        invariant
            it.seq().len() == r14_n1, range_from(it.seq(), 0), r14_n1 == self@.len(),
            r21_k1 == (forall|i: int| 0 <= i < it.index@ ==> f_is_finite(#[trigger] self@[i])),
//@end
}
} // verus!
fn main() {}
