// unit `nncone` : everything of cones/nonnegativecone.rs and cones/zerocone.rs that units `steplen` / `rectify` do not cover
// (those have: NonnegativeCone::{step_length, margins, scaled_unit_shift, rectify_equilibration}, ZeroCone::{step_length,
// rectify_equilibration}).
// float model: F-real (prelude/float_real_axioms.rs over prelude/float_opaque.rs).  Every contract states the written entries
// as the exact float expression the code evaluates (which operations, on which elements, in which order) - that is the strongest
// statement and needs no axiom; the F-real reading (exact reals) is derived in the lemmas `lemma_*_real` / the NT block below.
//
// PROVED from the real bodies (extracted, never retyped), element-wise, with frames (lengths kept, entries beyond the shortest
// zip operand untouched, every other argument and the cone state unchanged):
//   NonnegativeCone: new, degree, numel, is_symmetric, is_sparse_expandable, allows_primal_dual_scaling, Hs_is_diagonal,
//     unit_initialization (z = s = 1), set_identity_scaling (w = 1), update_scaling (lambda_i = sqrt(s_i*z_i), w_i = sqrt(s_i/z_i), true),
//     get_Hs (w_i*w_i), mul_Hs (w_i*(w_i*x_i)), affine_ds (lambda_i*lambda_i), combined_ds_shift (through the real text of
//     SymmetricConeUtils::_combined_ds_shift_symmetric, instantiated at C = NonnegativeCone), Delta_s_from_Delta_z_offset (ds_i/z_i),
//     compute_barrier (left fold of logsafe((s_i + a ds_i)*(z_i + a dz_i))), lambda_inv_circ_op, mul_W, mul_Winv, circ_op, inv_circ_op,
//     _circ_op, _inv_circ_op;  ScalarMath::logsafe (real body).
//   ZeroCone: new, degree (0), numel, is_symmetric, is_sparse_expandable, allows_primal_dual_scaling, Hs_is_diagonal, margins
//     ((max_value, 0), z untouched), scaled_unit_shift (primal: z = 0; dual: untouched), unit_initialization (z = s = 0),
//     set_identity_scaling / update_scaling (state untouched, true), get_Hs / mul_Hs / affine_ds / combined_ds_shift /
//     Delta_s_from_Delta_z_offset (output = 0, the other &mut arguments untouched), compute_barrier (0).
//   Lemmas over the contracts (F-real): lemma_combined_shift_real (shift_i = dz_i*ds_i - sigma*mu when w_i != 0),
//     lemma_mul_W_real / lemma_mul_Winv_real, and the Nesterov-Todd block (see ASSUMED).
// ASSUMED:
//   * prelude/float_real_axioms.rs (the F-real axiom group), prelude/std_assumed.rs (`<[T]>::fill`), prelude/vecmath_assumed.rs
//     (copy_from, translate: proved in unit `vecmath`);
//   * "real square root" (local block `sqrt_ax`, ADMITTED): for x >= 0, sqrt(x) >= 0 and sqrt(x)*sqrt(x) == x.  Used ONLY by the
//     Nesterov-Todd lemmas (lemma_nt_*), never by a function contract.  canary_sqrt must FAIL.
//   * `ln` is an uninterpreted symbol (f_ln).
// DROPPED: nothing of the two files.  (NaN / inf / rounding are outside the F-real model; the symbol-level contracts hold for them too.)
use vstd::prelude::*;
use std::marker::PhantomData;
verus! {
//@include prelude/float_opaque.rs
//@include prelude/float_real_axioms.rs
//@include prelude/vecmath_assumed.rs
//@include prelude/std_assumed.rs
pub uninterp spec fn f_ln(a: F) -> F;
impl F { #[verifier::external_body] pub fn ln(self) -> (r: F) ensures r == f_ln(self) { unimplemented!() } }

//@enum file=src/solver/core/solver.rs name=ScalingStrategy derive="PartialEq, Eq, Clone, Copy, Structural"
//@enum file=src/solver/core/cones/mod.rs name=PrimalOrDualCone rules=R12 derive="PartialEq, Eq, Clone, Copy, Structural"
//@enum file=src/algebra/matrix_types.rs name=MatrixShape rules=R12 derive="PartialEq, Eq, Clone, Copy, Structural"
//@struct file=src/solver/core/cones/nonnegativecone.rs name=NonnegativeCone rules=R2
//@struct file=src/solver/core/cones/zerocone.rs name=ZeroCone

pub open spec fn imin(a: int, b: int) -> int { if a <= b { a } else { b } }
pub open spec fn all_eq(a: Seq<F>, c: F) -> bool { forall|i: int| 0 <= i < a.len() ==> #[trigger] a[i] == c }
pub open spec fn range_from(sq: Seq<usize>, lo: int) -> bool { forall|k: int| 0 <= k < sq.len() ==> #[trigger] sq[k] == lo + k }
// `a` agrees with `a0` from position n on (the part a zip never reaches)
pub open spec fn tail_kept(a: Seq<F>, a0: Seq<F>, n: int) -> bool { a.len() == a0.len() && forall|i: int| n <= i < a0.len() ==> #[trigger] a[i] == a0[i] }

// ------------------------------------------------------------------ scalar helper of compute_barrier
pub open spec fn logsafe_spec(x: F) -> F { if f_le(x, f_zero()) { f_neg(f_inf()) } else { f_ln(x) } }
pub trait ScalarMath: Sized { fn logsafe(&self) -> Self; }
impl ScalarMath for F {
//@fn file=src/algebra/scalarmath.rs in="ScalarMath for T" name=logsafe rules=R1 ret=r
//@contract
    ensures r == logsafe_spec(*self)
//@end
}
pub open spec fn fold_barrier(z: Seq<F>, s: Seq<F>, dz: Seq<F>, ds: Seq<F>, a: F, k: int) -> F decreases k {
    if k <= 0 { f_zero() } else {
        f_add(fold_barrier(z, s, dz, ds, a, k - 1),
              logsafe_spec(f_mul(f_add(s[k - 1], f_mul(a, ds[k - 1])), f_add(z[k - 1], f_mul(a, dz[k - 1])))))
    }
}

// ------------------------------------------------------------------ the circle products (free functions of nonnegativecone.rs)
// x_i = y_i * z_i on the common prefix
pub open spec fn circ_spec(x1: Seq<F>, x0: Seq<F>, y: Seq<F>, z: Seq<F>) -> bool {
    let n = imin(x0.len() as int, imin(y.len() as int, z.len() as int));
    tail_kept(x1, x0, n) && forall|i: int| 0 <= i < n ==> #[trigger] x1[i] == f_mul(y[i], z[i])
}
// x_i = z_i / y_i on the common prefix
pub open spec fn inv_circ_spec(x1: Seq<F>, x0: Seq<F>, y: Seq<F>, z: Seq<F>) -> bool {
    let n = imin(x0.len() as int, imin(y.len() as int, z.len() as int));
    tail_kept(x1, x0, n) && forall|i: int| 0 <= i < n ==> #[trigger] x1[i] == f_div(z[i], y[i])
}
//@fn file=src/solver/core/cones/nonnegativecone.rs name=_circ_op rules=R1,R2,zipidx:1=mii
//@contract
    ensures circ_spec(final(x)@, old(x)@, y@, z@),
//@pre
    let ghost x0 = x@;
//@iter 1
it
//@loop 1
        invariant
            it.seq().len() == r14_n1, range_from(it.seq(), 0), r14_n1 == imin(x0.len() as int, imin(y@.len() as int, z@.len() as int)),
            x@.len() == x0.len(),
            forall|i: int| 0 <= i < it.index@ ==> #[trigger] x@[i] == f_mul(y@[i], z@[i]),
            forall|i: int| it.index@ <= i < x0.len() ==> #[trigger] x@[i] == x0[i],
//@end
//@fn file=src/solver/core/cones/nonnegativecone.rs name=_inv_circ_op rules=R1,R2,zipidx:1=mii
//@contract
    ensures inv_circ_spec(final(x)@, old(x)@, y@, z@),
//@pre
    let ghost x0 = x@;
//@iter 1
it
//@loop 1
        invariant
            it.seq().len() == r14_n1, range_from(it.seq(), 0), r14_n1 == imin(x0.len() as int, imin(y@.len() as int, z@.len() as int)),
            x@.len() == x0.len(),
            forall|i: int| 0 <= i < it.index@ ==> #[trigger] x@[i] == f_div(z@[i], y@[i]),
            forall|i: int| it.index@ <= i < x0.len() ==> #[trigger] x@[i] == x0[i],
//@end

// ------------------------------------------------------------------ NonnegativeCone
// y_i = alpha * (x_i * w_i) + beta * y_i      (mul_W)
pub open spec fn mulW_spec(y1: Seq<F>, y0: Seq<F>, x: Seq<F>, w: Seq<F>, alpha: F, beta: F) -> bool {
    y1.len() == y0.len() && forall|i: int| 0 <= i < y0.len() ==> #[trigger] y1[i] == f_add(f_mul(alpha, f_mul(x[i], w[i])), f_mul(beta, y0[i]))
}
// y_i = alpha * (x_i / w_i) + beta * y_i      (mul_Winv)
pub open spec fn mulWinv_spec(y1: Seq<F>, y0: Seq<F>, x: Seq<F>, w: Seq<F>, alpha: F, beta: F) -> bool {
    y1.len() == y0.len() && forall|i: int| 0 <= i < y0.len() ==> #[trigger] y1[i] == f_add(f_mul(alpha, f_div(x[i], w[i])), f_mul(beta, y0[i]))
}
// lambda_i = sqrt(s_i * z_i), w_i = sqrt(s_i / z_i) on the common prefix of the four vectors
pub open spec fn nt_len(c: NonnegativeCone<F>, s: Seq<F>, z: Seq<F>) -> int {
    imin(imin(c.lambda@.len() as int, c.w@.len() as int), imin(s.len() as int, z.len() as int))
}
pub open spec fn nt_scaled(c1: NonnegativeCone<F>, c0: NonnegativeCone<F>, s: Seq<F>, z: Seq<F>) -> bool {
    let n = nt_len(c0, s, z);
    &&& c1.dim == c0.dim
    &&& tail_kept(c1.lambda@, c0.lambda@, n)
    &&& tail_kept(c1.w@, c0.w@, n)
    &&& forall|i: int| 0 <= i < n ==> #[trigger] c1.lambda@[i] == f_sqrt(f_mul(s[i], z[i]))
    &&& forall|i: int| 0 <= i < n ==> #[trigger] c1.w@[i] == f_sqrt(f_div(s[i], z[i]))
}
// the combined-step shift, as assembled by _combined_ds_shift_symmetric:  dz <- W dz, ds <- W^{-1} ds, shift = ds o dz - sigma*mu
pub open spec fn wz_entry(dz: F, w: F) -> F { f_add(f_mul(f_one(), f_mul(dz, w)), f_mul(f_zero(), dz)) }
pub open spec fn winvs_entry(ds: F, w: F) -> F { f_add(f_mul(f_one(), f_div(ds, w)), f_mul(f_zero(), ds)) }
pub open spec fn shift_entry(dz: F, ds: F, w: F, sigmamu: F) -> F { f_add(f_mul(winvs_entry(ds, w), wz_entry(dz, w)), f_neg(sigmamu)) }
pub open spec fn combined_shift_spec(shift1: Seq<F>, z1: Seq<F>, s1: Seq<F>, z0: Seq<F>, s0: Seq<F>, w: Seq<F>, sigmamu: F) -> bool {
    &&& shift1.len() == w.len() && z1.len() == w.len() && s1.len() == w.len()
    &&& forall|i: int| 0 <= i < w.len() ==> #[trigger] z1[i] == wz_entry(z0[i], w[i])
    &&& forall|i: int| 0 <= i < w.len() ==> #[trigger] s1[i] == winvs_entry(s0[i], w[i])
    &&& forall|i: int| 0 <= i < w.len() ==> #[trigger] shift1[i] == shift_entry(z0[i], s0[i], w[i], sigmamu)
}

impl NonnegativeCone<F> {
//@fn file=src/solver/core/cones/nonnegativecone.rs in="impl<T> NonnegativeCone<T>" name=new rules=R1,R2 ret=r
//@contract
    ensures r.dim == dim, r.w@.len() == dim, r.lambda@.len() == dim, all_eq(r.w@, f_zero()), all_eq(r.lambda@, f_zero()),
//@end
//@fn file=src/solver/core/cones/nonnegativecone.rs in="Cone<T> for NonnegativeCone<T>" name=degree rules=R1,R2 ret=r
//@contract
    ensures r == self.dim,
//@end
//@fn file=src/solver/core/cones/nonnegativecone.rs in="Cone<T> for NonnegativeCone<T>" name=numel rules=R1,R2 ret=r
//@contract
    ensures r == self.dim,
//@end
//@fn file=src/solver/core/cones/nonnegativecone.rs in="Cone<T> for NonnegativeCone<T>" name=is_symmetric rules=R1,R2 ret=r
//@contract
    ensures r,
//@end
//@fn file=src/solver/core/cones/nonnegativecone.rs in="Cone<T> for NonnegativeCone<T>" name=is_sparse_expandable rules=R1,R2 ret=r
//@contract
    ensures !r,
//@end
//@fn file=src/solver/core/cones/nonnegativecone.rs in="Cone<T> for NonnegativeCone<T>" name=allows_primal_dual_scaling rules=R1,R2 ret=r
//@contract
    ensures r,
//@end
//@fn file=src/solver/core/cones/nonnegativecone.rs in="Cone<T> for NonnegativeCone<T>" name=Hs_is_diagonal rules=R1,R2 ret=r
//@contract
    ensures r,
//@end
//@fn file=src/solver/core/cones/nonnegativecone.rs in="Cone<T> for NonnegativeCone<T>" name=unit_initialization rules=R1,R2
//@contract
    ensures final(z)@.len() == old(z)@.len(), final(s)@.len() == old(s)@.len(), all_eq(final(z)@, f_one()), all_eq(final(s)@, f_one()),
//@end
//@fn file=src/solver/core/cones/nonnegativecone.rs in="Cone<T> for NonnegativeCone<T>" name=set_identity_scaling rules=R1,R2
//@contract
    ensures final(self).w@.len() == old(self).w@.len(), all_eq(final(self).w@, f_one()),
        final(self).dim == old(self).dim, final(self).lambda@ == old(self).lambda@,
//@end
//@fn file=src/solver/core/cones/nonnegativecone.rs in="Cone<T> for NonnegativeCone<T>" name=update_scaling rules=R1,R2,zipidx:1=mmii ret=r
//@contract
    ensures r, nt_scaled(*final(self), *old(self), s@, z@),
//@pre
        let ghost c0 = *self;
//@iter 1
it
//@loop 1
        invariant
            it.seq().len() == r14_n1, range_from(it.seq(), 0), r14_n1 == nt_len(c0, s@, z@),
            self.dim == c0.dim, self.lambda@.len() == c0.lambda@.len(), self.w@.len() == c0.w@.len(),
            forall|i: int| 0 <= i < it.index@ ==> #[trigger] self.lambda@[i] == f_sqrt(f_mul(s@[i], z@[i])),
            forall|i: int| 0 <= i < it.index@ ==> #[trigger] self.w@[i] == f_sqrt(f_div(s@[i], z@[i])),
            forall|i: int| it.index@ <= i < c0.lambda@.len() ==> #[trigger] self.lambda@[i] == c0.lambda@[i],
            forall|i: int| it.index@ <= i < c0.w@.len() ==> #[trigger] self.w@[i] == c0.w@[i],
//@end
//@fn file=src/solver/core/cones/nonnegativecone.rs in="Cone<T> for NonnegativeCone<T>" name=get_Hs rules=R1,R2,R6,zipidx:1=mi
//@contract
    requires self.w@.len() == old(Hsblock)@.len(),      // assert_eq!
    ensures final(Hsblock)@.len() == old(Hsblock)@.len(),
        forall|i: int| 0 <= i < self.w@.len() ==> #[trigger] final(Hsblock)@[i] == f_mul(self.w@[i], self.w@[i]),
//@iter 1
it
//@loop 1
        invariant
            it.seq().len() == r14_n1, range_from(it.seq(), 0), r14_n1 == self.w@.len(), Hsblock@.len() == self.w@.len(),
            forall|i: int| 0 <= i < it.index@ ==> #[trigger] Hsblock@[i] == f_mul(self.w@[i], self.w@[i]),
//@end
//@fn file=src/solver/core/cones/nonnegativecone.rs in="Cone<T> for NonnegativeCone<T>" name=mul_Hs rules=R1,R2,zipidx:1=mii
//@contract
    ensures *final(self) == *old(self), final(_work)@ == old(_work)@,
        tail_kept(final(y)@, old(y)@, imin(old(y)@.len() as int, imin(old(self).w@.len() as int, x@.len() as int))),
        forall|i: int| 0 <= i < imin(old(y)@.len() as int, imin(old(self).w@.len() as int, x@.len() as int)) ==>
            #[trigger] final(y)@[i] == f_mul(old(self).w@[i], f_mul(old(self).w@[i], x@[i])),
//@pre
        let ghost y0 = y@;
//@iter 1
it
//@loop 1
        invariant
            it.seq().len() == r14_n1, range_from(it.seq(), 0), r14_n1 == imin(y0.len() as int, imin(self.w@.len() as int, x@.len() as int)),
            y@.len() == y0.len(), *self == *old(self),
            forall|i: int| 0 <= i < it.index@ ==> #[trigger] y@[i] == f_mul(self.w@[i], f_mul(self.w@[i], x@[i])),
            forall|i: int| it.index@ <= i < y0.len() ==> #[trigger] y@[i] == y0[i],
//@end
//@fn file=src/solver/core/cones/nonnegativecone.rs in="Cone<T> for NonnegativeCone<T>" name=affine_ds rules=R1,R2,R6,zipidx:1=mi
//@contract
    requires self.lambda@.len() == old(ds)@.len(),      // assert_eq!
    ensures final(ds)@.len() == old(ds)@.len(),
        forall|i: int| 0 <= i < self.lambda@.len() ==> #[trigger] final(ds)@[i] == f_mul(self.lambda@[i], self.lambda@[i]),
//@iter 1
it
//@loop 1
        invariant
            it.seq().len() == r14_n1, range_from(it.seq(), 0), r14_n1 == self.lambda@.len(), ds@.len() == self.lambda@.len(),
            forall|i: int| 0 <= i < it.index@ ==> #[trigger] ds@[i] == f_mul(self.lambda@[i], self.lambda@[i]),
//@end
//@fn file=src/solver/core/cones/nonnegativecone.rs in="Cone<T> for NonnegativeCone<T>" name=Δs_from_Δz_offset rules=R1,R2,zipidx:1=mii
//@contract
    ensures *final(self) == *old(self), final(_work)@ == old(_work)@, inv_circ_spec(final(out)@, old(out)@, z@, ds@),
//@pre
        let ghost o0 = out@;
//@iter 1
it
//@loop 1
        invariant
            it.seq().len() == r14_n1, range_from(it.seq(), 0), r14_n1 == imin(o0.len() as int, imin(ds@.len() as int, z@.len() as int)),
            out@.len() == o0.len(), *self == *old(self),
            forall|i: int| 0 <= i < it.index@ ==> #[trigger] out@[i] == f_div(ds@[i], z@[i]),
            forall|i: int| it.index@ <= i < o0.len() ==> #[trigger] out@[i] == o0[i],
//@end
//@fn file=src/solver/core/cones/nonnegativecone.rs in="Cone<T> for NonnegativeCone<T>" name=compute_barrier rules=R1,R2,R6,zipidx:1=iiii ret=r
//@contract
    requires z@.len() == s@.len(), dz@.len() == z@.len(), ds@.len() == s@.len(),      // assert_eq!
    ensures *final(self) == *old(self), r == fold_barrier(z@, s@, dz@, ds@, alpha, z@.len() as int),
//@iter 1
it
//@loop 1
        invariant
            it.seq().len() == r14_n1, range_from(it.seq(), 0), r14_n1 == z@.len(),
            z@.len() == s@.len(), dz@.len() == z@.len(), ds@.len() == s@.len(), *self == *old(self),
            barrier == fold_barrier(z@, s@, dz@, ds@, alpha, it.index@ as int),
//@end

//@fn file=src/solver/core/cones/nonnegativecone.rs in="SymmetricCone<T> for NonnegativeCone<T>" name=λ_inv_circ_op rules=R1,R2
//@contract
    ensures *final(self) == *old(self), inv_circ_spec(final(x)@, old(x)@, old(self).lambda@, z@),
//@end
//@fn file=src/solver/core/cones/nonnegativecone.rs in="SymmetricCone<T> for NonnegativeCone<T>" name=mul_W rules=R1,R2,R6
//@contract
    requires old(y)@.len() == x@.len(), old(y)@.len() == old(self).w@.len(),      // assert_eq!
    ensures *final(self) == *old(self), mulW_spec(final(y)@, old(y)@, x@, old(self).w@, alpha, beta),
//@pre
        let ghost y0 = y@;
//@iter 1
it
//@loop 1
        invariant
            it.seq().len() == y0.len(), range_from(it.seq(), 0),
            y@.len() == y0.len(), y0.len() == x@.len(), y0.len() == self.w@.len(), *self == *old(self),
            forall|k: int| 0 <= k < i ==> #[trigger] y@[k] == f_add(f_mul(alpha, f_mul(x@[k], self.w@[k])), f_mul(beta, y0[k])),
            forall|k: int| i <= k < y0.len() ==> #[trigger] y@[k] == y0[k],
//@end
//@fn file=src/solver/core/cones/nonnegativecone.rs in="SymmetricCone<T> for NonnegativeCone<T>" name=mul_Winv rules=R1,R2,R6
//@contract
    requires old(y)@.len() == x@.len(), old(y)@.len() == old(self).w@.len(),      // assert_eq!
    ensures *final(self) == *old(self), mulWinv_spec(final(y)@, old(y)@, x@, old(self).w@, alpha, beta),
//@pre
        let ghost y0 = y@;
//@iter 1
it
//@loop 1
        invariant
            it.seq().len() == y0.len(), range_from(it.seq(), 0),
            y@.len() == y0.len(), y0.len() == x@.len(), y0.len() == self.w@.len(), *self == *old(self),
            forall|k: int| 0 <= k < i ==> #[trigger] y@[k] == f_add(f_mul(alpha, f_div(x@[k], self.w@[k])), f_mul(beta, y0[k])),
            forall|k: int| i <= k < y0.len() ==> #[trigger] y@[k] == y0[k],
//@end
//@fn file=src/solver/core/cones/nonnegativecone.rs in="JordanAlgebra<T> for NonnegativeCone<T>" name=circ_op rules=R1,R2
//@contract
    ensures *final(self) == *old(self), circ_spec(final(x)@, old(x)@, y@, z@),
//@end
//@fn file=src/solver/core/cones/nonnegativecone.rs in="JordanAlgebra<T> for NonnegativeCone<T>" name=inv_circ_op rules=R1,R2
//@contract
    ensures *final(self) == *old(self), inv_circ_spec(final(x)@, old(x)@, y@, z@),
//@end
// second copy of scaled_unit_shift (proved in unit `steplen` with the same contract; needed here as a callee)
//@fn file=src/solver/core/cones/nonnegativecone.rs in="Cone<T> for NonnegativeCone<T>" name=scaled_unit_shift rules=R1,R2 params=z,alpha,pd
//@contract
    ensures
        final(z)@.len() == old(z)@.len(), forall|i: int| 0 <= i < old(z)@.len() ==> #[trigger] final(z)@[i] == f_add(old(z)@[i], alpha),
//@end
// the blanket implementation `impl<T, C: SymmetricCone<T> + Cone<T>> SymmetricConeUtils<T> for C`, real text, at C = NonnegativeCone<T>
//@fn file=src/solver/core/cones/symmetric_common.rs in="SymmetricConeUtils<T> for C" name=_combined_ds_shift_symmetric rules=R1,R2
//@contract
    requires old(shift)@.len() == old(self).w@.len(), old(step_z)@.len() == old(self).w@.len(), old(step_s)@.len() == old(self).w@.len(),
    ensures *final(self) == *old(self),
        combined_shift_spec(final(shift)@, final(step_z)@, final(step_s)@, old(step_z)@, old(step_s)@, old(self).w@, sigmamu),
//@end
//@fn file=src/solver/core/cones/nonnegativecone.rs in="Cone<T> for NonnegativeCone<T>" name=combined_ds_shift rules=R1,R2
//@contract
    // the three work vectors are slices of length numel() of the same cone (call site: CompositeCone::combined_ds_shift)
    requires old(dz)@.len() == old(self).w@.len(), old(step_z)@.len() == old(self).w@.len(), old(step_s)@.len() == old(self).w@.len(),
    ensures *final(self) == *old(self),
        combined_shift_spec(final(dz)@, final(step_z)@, final(step_s)@, old(step_z)@, old(step_s)@, old(self).w@, sigmamu),
//@end
}

// ------------------------------------------------------------------ F-real readings of the contracts above (exact reals)
// mul_W / mul_Winv:  y_i = alpha w_i x_i + beta y_i,   y_i = alpha x_i / w_i + beta y_i  (w_i != 0)
pub proof fn lemma_mul_W_real(y1: Seq<F>, y0: Seq<F>, x: Seq<F>, w: Seq<F>, alpha: F, beta: F, i: int)
    requires mulW_spec(y1, y0, x, w, alpha, beta), 0 <= i < y0.len(),
    ensures y1[i].v() == alpha.v() * (x[i].v() * w[i].v()) + beta.v() * y0[i].v(),
{ broadcast use real_arith; }
pub proof fn lemma_mul_Winv_real(y1: Seq<F>, y0: Seq<F>, x: Seq<F>, w: Seq<F>, alpha: F, beta: F, i: int)
    requires mulWinv_spec(y1, y0, x, w, alpha, beta), 0 <= i < y0.len(), w[i].v() != 0real,
    ensures y1[i].v() == alpha.v() * (x[i].v() / w[i].v()) + beta.v() * y0[i].v(),
{ broadcast use real_arith; }
// combined_ds_shift: step_z <- w o dz, step_s <- ds / w, shift = dz o ds - sigma*mu  (the W and W^{-1} factors cancel)
pub proof fn lemma_combined_shift_real(shift1: Seq<F>, z1: Seq<F>, s1: Seq<F>, z0: Seq<F>, s0: Seq<F>, w: Seq<F>, sigmamu: F, i: int)
    requires combined_shift_spec(shift1, z1, s1, z0, s0, w, sigmamu), 0 <= i < w.len(), w[i].v() != 0real,
    ensures z1[i].v() == z0[i].v() * w[i].v(), s1[i].v() == s0[i].v() / w[i].v(),
        shift1[i].v() == z0[i].v() * s0[i].v() - sigmamu.v(),
{
    broadcast use real_arith;
    let a = z0[i].v(); let b = s0[i].v(); let ww = w[i].v();
    assert(z1[i] == wz_entry(z0[i], w[i]) && s1[i] == winvs_entry(s0[i], w[i]) && shift1[i] == shift_entry(z0[i], s0[i], w[i], sigmamu));
    assert(z1[i].v() == a * ww);
    assert(s1[i].v() == b / ww);
    assert((b / ww) * (a * ww) == a * b) by(nonlinear_arith) requires ww != 0real;
}
// mul_Hs is multiplication by the diagonal get_Hs returns:  w_i (w_i x_i) = (w_i w_i) x_i
pub proof fn lemma_Hs_consistent(w: F, x: F)
    ensures f_mul(w, f_mul(w, x)).v() == f_mul(w, w).v() * x.v(),
{
    broadcast use real_arith;
    let a = w.v(); let b = x.v();
    assert(a * (a * b) == (a * a) * b) by(nonlinear_arith);
}

// ------------------------------------------------------------------ Nesterov-Todd identities of the nonnegative cone (STRETCH)
// ASSUMED "real square root" (ADMITTED, used only below): for x >= 0, sqrt(x) is the nonnegative root
pub mod sqrt_ax {
    use super::*;
    pub broadcast proof fn ax_sqrt_nonneg(a: F) requires a.v() >= 0real ensures (#[trigger] f_sqrt(a)).v() >= 0real { admit(); }
    pub broadcast proof fn ax_sqrt_sq(a: F) requires a.v() >= 0real ensures (#[trigger] f_sqrt(a)).v() * f_sqrt(a).v() == a.v() { admit(); }
    pub broadcast group real_sqrt { ax_sqrt_nonneg, ax_sqrt_sq }
}
pub use sqrt_ax::*;
// vacuity guard: MUST FAIL
pub proof fn canary_sqrt() ensures false { broadcast use real_arith, real_sqrt; }

pub proof fn lemma_sq_inj(a: real, b: real) requires a >= 0real, b >= 0real, a * a == b * b ensures a == b
{
    assert((a - b) * (a + b) == a * a - b * b) by(nonlinear_arith);
    if a + b == 0real { } else {
        assert(a - b == 0real) by(nonlinear_arith) requires (a - b) * (a + b) == 0real, a + b != 0real;
    }
}
// scalar core: l = sqrt(s z), w = sqrt(s / z), s, z > 0   ==>   w > 0, l > 0, w z = l = s / w, w w = s / z, l l = s z
pub proof fn lemma_nt_scalar(s: F, z: F)
    requires s.v() > 0real, z.v() > 0real,
    ensures ({
        let l = f_sqrt(f_mul(s, z)).v(); let w = f_sqrt(f_div(s, z)).v();
        &&& w > 0real && l > 0real
        &&& w * w == s.v() / z.v() && l * l == s.v() * z.v()
        &&& z.v() * w == l
        &&& s.v() / w == l
    }),
{
    broadcast use real_arith, real_sqrt;
    let sv = s.v(); let zv = z.v();
    let q = sv / zv; let p = sv * zv;
    assert(q > 0real) by(nonlinear_arith) requires sv > 0real, zv > 0real, q == sv / zv;
    assert(p > 0real) by(nonlinear_arith) requires sv > 0real, zv > 0real, p == sv * zv;
    assert(f_div(s, z).v() == q && f_mul(s, z).v() == p);
    let l = f_sqrt(f_mul(s, z)).v(); let w = f_sqrt(f_div(s, z)).v();
    assert(w >= 0real && l >= 0real && w * w == q && l * l == p);
    assert(w != 0real) by(nonlinear_arith) requires w * w == q, q > 0real;
    assert(l != 0real) by(nonlinear_arith) requires l * l == p, p > 0real;
    // (z w)^2 = z^2 (s / z) = s z = l^2
    let zw = zv * w;
    assert(zw * zw == p) by(nonlinear_arith) requires zw == zv * w, w * w == q, q == sv / zv, p == sv * zv, zv > 0real;
    assert(zw >= 0real) by(nonlinear_arith) requires zw == zv * w, zv > 0real, w >= 0real;
    lemma_sq_inj(zw, l);
    // s = w (w z) = w l
    assert(sv == w * l) by(nonlinear_arith) requires l == zv * w, w * w == q, q == sv / zv, zv > 0real;
    assert(sv / w == l) by(nonlinear_arith) requires sv == w * l, w != 0real;
}
// after update_scaling(s, z) with s_i, z_i > 0:  (W z)_i = (W^{-1} s)_i = lambda_i  where W z and W^{-1} s are what mul_W / mul_Winv
// compute with alpha = 1, beta = 0;  Hs = W^2 = diag(s_i / z_i);  lambda o lambda (circ_op) = affine_ds = s o z
pub proof fn lemma_nt_identities(c1: NonnegativeCone<F>, c0: NonnegativeCone<F>, s: Seq<F>, z: Seq<F>,
                                 wz: Seq<F>, wz0: Seq<F>, winvs: Seq<F>, winvs0: Seq<F>, i: int)
    requires
        nt_scaled(c1, c0, s, z), 0 <= i < nt_len(c0, s, z), s[i].v() > 0real, z[i].v() > 0real,
        mulW_spec(wz, wz0, z, c1.w@, f_one(), f_zero()), mulWinv_spec(winvs, winvs0, s, c1.w@, f_one(), f_zero()),
        wz0.len() == c1.w@.len(), winvs0.len() == c1.w@.len(),
    ensures
        c1.w@[i].v() > 0real, c1.lambda@[i].v() > 0real,
        wz[i].v() == c1.lambda@[i].v(), winvs[i].v() == c1.lambda@[i].v(),
        // what get_Hs writes
        f_mul(c1.w@[i], c1.w@[i]).v() == s[i].v() / z[i].v(),
        // what affine_ds writes = what circ_op(lambda, lambda) writes
        f_mul(c1.lambda@[i], c1.lambda@[i]).v() == s[i].v() * z[i].v(),
{
    broadcast use real_arith;
    lemma_nt_scalar(s[i], z[i]);
    assert(c1.lambda@[i] == f_sqrt(f_mul(s[i], z[i])));
    assert(c1.w@[i] == f_sqrt(f_div(s[i], z[i])));
    assert(c1.w@.len() == c0.w@.len());
    lemma_mul_W_real(wz, wz0, z, c1.w@, f_one(), f_zero(), i);
    lemma_mul_Winv_real(winvs, winvs0, s, c1.w@, f_one(), f_zero(), i);
}

// C13 "(W'W) z = s" and "multiplication by W and by its inverse are mutually inverse" for the nonnegative cone (W is diagonal, so
// transpose consistency is trivial): with w_i w_i = s_i / z_i (lemma_nt_identities), Hs z = s entry-wise; and (x w) / w = x = (x / w) w
pub proof fn lemma_nt_hs_z_is_s(s: F, z: F)
    requires s.v() > 0real, z.v() > 0real,
    ensures ({ let w = f_sqrt(f_div(s, z)); f_mul(f_mul(w, w), z).v() == s.v() && f_mul(w, f_mul(w, z)).v() == s.v() }),
{
    broadcast use real_arith;
    lemma_nt_scalar(s, z);
    let w = f_sqrt(f_div(s, z)).v(); let sv = s.v(); let zv = z.v();
    assert((w * w) * zv == sv) by(nonlinear_arith) requires w * w == sv / zv, zv > 0real;
    assert(w * (w * zv) == (w * w) * zv) by(nonlinear_arith);
}
pub proof fn lemma_w_winv_inverse(x: F, w: F)
    requires w.v() != 0real,
    ensures f_div(f_mul(x, w), w).v() == x.v(), f_mul(f_div(x, w), w).v() == x.v(),
{
    broadcast use real_arith;
    let a = x.v(); let b = w.v();
    assert((a * b) / b == a) by(nonlinear_arith) requires b != 0real;
    assert((a / b) * b == a) by(nonlinear_arith) requires b != 0real;
}

// ------------------------------------------------------------------ ZeroCone
impl ZeroCone<F> {
//@fn file=src/solver/core/cones/zerocone.rs in="impl<T> ZeroCone<T>" name=new rules=R1,R2 ret=r
//@contract
    ensures r.dim == dim,
//@end
//@fn file=src/solver/core/cones/zerocone.rs in="Cone<T> for ZeroCone<T>" name=degree rules=R1,R2 ret=r
//@contract
    ensures r == 0,
//@end
//@fn file=src/solver/core/cones/zerocone.rs in="Cone<T> for ZeroCone<T>" name=numel rules=R1,R2 ret=r
//@contract
    ensures r == self.dim,
//@end
//@fn file=src/solver/core/cones/zerocone.rs in="Cone<T> for ZeroCone<T>" name=is_symmetric rules=R1,R2 ret=r
//@contract
    ensures r,
//@end
//@fn file=src/solver/core/cones/zerocone.rs in="Cone<T> for ZeroCone<T>" name=is_sparse_expandable rules=R1,R2 ret=r
//@contract
    ensures !r,
//@end
//@fn file=src/solver/core/cones/zerocone.rs in="Cone<T> for ZeroCone<T>" name=allows_primal_dual_scaling rules=R1,R2 ret=r
//@contract
    ensures r,
//@end
//@fn file=src/solver/core/cones/zerocone.rs in="Cone<T> for ZeroCone<T>" name=Hs_is_diagonal rules=R1,R2 ret=r
//@contract
    ensures r,
//@end
//@fn file=src/solver/core/cones/zerocone.rs in="Cone<T> for ZeroCone<T>" name=margins rules=R1,R2 ret=r
//@contract
    ensures r.0 == f_maxval(), r.1 == f_zero(), final(_z)@ == old(_z)@, *final(self) == *old(self),
//@end
//@fn file=src/solver/core/cones/zerocone.rs in="Cone<T> for ZeroCone<T>" name=scaled_unit_shift rules=R1,R2
//@contract
    ensures final(z)@.len() == old(z)@.len(),
        pd == PrimalOrDualCone::PrimalCone ==> all_eq(final(z)@, f_zero()),
        pd == PrimalOrDualCone::DualCone ==> final(z)@ == old(z)@,
//@end
//@fn file=src/solver/core/cones/zerocone.rs in="Cone<T> for ZeroCone<T>" name=unit_initialization rules=R1,R2
//@contract
    ensures final(z)@.len() == old(z)@.len(), final(s)@.len() == old(s)@.len(), all_eq(final(z)@, f_zero()), all_eq(final(s)@, f_zero()),
//@end
//@fn file=src/solver/core/cones/zerocone.rs in="Cone<T> for ZeroCone<T>" name=set_identity_scaling rules=R1,R2
//@contract
    ensures *final(self) == *old(self),
//@end
//@fn file=src/solver/core/cones/zerocone.rs in="Cone<T> for ZeroCone<T>" name=update_scaling rules=R1,R2 ret=r
//@contract
    ensures r, *final(self) == *old(self),
//@end
//@fn file=src/solver/core/cones/zerocone.rs in="Cone<T> for ZeroCone<T>" name=get_Hs rules=R1,R2
//@contract
    ensures final(Hsblock)@.len() == old(Hsblock)@.len(), all_eq(final(Hsblock)@, f_zero()),
//@end
//@fn file=src/solver/core/cones/zerocone.rs in="Cone<T> for ZeroCone<T>" name=mul_Hs rules=R1,R2
//@contract
    ensures final(y)@.len() == old(y)@.len(), all_eq(final(y)@, f_zero()), final(_work)@ == old(_work)@, *final(self) == *old(self),
//@end
//@fn file=src/solver/core/cones/zerocone.rs in="Cone<T> for ZeroCone<T>" name=affine_ds rules=R1,R2
//@contract
    ensures final(ds)@.len() == old(ds)@.len(), all_eq(final(ds)@, f_zero()),
//@end
//@fn file=src/solver/core/cones/zerocone.rs in="Cone<T> for ZeroCone<T>" name=combined_ds_shift rules=R1,R2
//@contract
    ensures final(shift)@.len() == old(shift)@.len(), all_eq(final(shift)@, f_zero()),
        final(_step_z)@ == old(_step_z)@, final(_step_s)@ == old(_step_s)@, *final(self) == *old(self),
//@end
//@fn file=src/solver/core/cones/zerocone.rs in="Cone<T> for ZeroCone<T>" name=Δs_from_Δz_offset rules=R1,R2
//@contract
    ensures final(out)@.len() == old(out)@.len(), all_eq(final(out)@, f_zero()), final(_work)@ == old(_work)@, *final(self) == *old(self),
//@end
//@fn file=src/solver/core/cones/zerocone.rs in="Cone<T> for ZeroCone<T>" name=compute_barrier rules=R1,R2 ret=r
//@contract
    ensures r == f_zero(), *final(self) == *old(self),
//@end
}

} // verus!
fn main() {}
