#![allow(non_snake_case)]
// unit `chordal_cgraph` : the clique-graph merge strategy (C17), /repo/src/solver/chordal/merge/clique_graph.rs  (HEADER: see end of work)
use vstd::prelude::*;
verus! {
global size_of usize == 8;
//@features serde,sdp
//@include units/inc/chordal_sets.rs
//@const file=src/solver/chordal/supernode_tree.rs name=NO_PARENT
//@const file=src/solver/chordal/supernode_tree.rs name=INACTIVE_NODE
//@struct file=src/solver/chordal/supernode_tree.rs name=SuperNodeTree
//@struct file=src/algebra/csc/core.rs name=CscMatrix

// ===================== ASSUMED stand-ins =====================
// ---- std::collections::HashMap<K, V> (ghost view: Map<K, V>; contracts = the std documentation) ----
pub struct HashMap<K, V> { pub _k: Vec<K>, pub _v: Vec<V>, pub g: Ghost<Map<K, V>> }
impl<K, V> View for HashMap<K, V> { type V = Map<K, V>; open spec fn view(&self) -> Map<K, V> { self.g@ } }
impl<V> HashMap<usize, V> {
    #[verifier::external_body] pub fn new() -> (r: Self) ensures r@ == Map::<usize, V>::empty() { unimplemented!() }
    #[verifier::external_body] pub fn with_capacity(n: usize) -> (r: Self) ensures r@ == Map::<usize, V>::empty() { unimplemented!() }
    #[verifier::external_body] pub fn insert(&mut self, k: usize, v: V) -> (r: Option<V>)
        ensures final(self)@ == old(self)@.insert(k, v),
    { unimplemented!() }
    #[verifier::external_body] pub fn contains_key(&self, k: &usize) -> (r: bool) ensures r == self@.contains_key(*k) { unimplemented!() }
    #[verifier::external_body] pub fn get(&self, k: &usize) -> (r: Option<&V>)
        ensures match r { Some(v) => self@.contains_key(*k) && *v == self@[*k], None => !self@.contains_key(*k) },
    { unimplemented!() }
    #[verifier::external_body] pub fn get_mut(&mut self, k: &usize) -> (r: Option<&mut V>)
        ensures match r {
            Some(v) => old(self)@.contains_key(*k) && *v == old(self)@[*k] && final(self)@ == old(self)@.insert(*k, *final(v)),
            None => !old(self)@.contains_key(*k) && final(self)@ == old(self)@ },
    { unimplemented!() }
    #[verifier::external_body] pub fn remove(&mut self, k: &usize) -> (r: Option<V>)
        ensures final(self)@ == old(self)@.remove(*k),
    { unimplemented!() }
    // rule mapidx: `m[&k]` ("Panics if the key is not present")
    #[verifier::external_body] pub fn at(&self, k: &usize) -> (r: &V)
        requires self@.contains_key(*k),
        ensures *r == self@[*k],
    { unimplemented!() }
    // rule valuesmut: every key exactly once, in arbitrary order
    #[verifier::external_body] pub fn key_list(&self) -> (r: Vec<usize>)
        ensures r@.no_duplicates(), forall|k: usize| r@.contains(k) <==> self@.contains_key(k),
    { unimplemented!() }
}
// ---- further methods of indexmap::IndexSet<usize> (the basic ones are in units/inc/chordal_sets.rs) ----
// members of a (in a's order) among the first k that are members of b
pub open spec fn inter_k(a: Seq<usize>, b: Seq<usize>, k: int) -> Seq<usize> decreases k {
    if k <= 0 { Seq::empty() } else { let r = inter_k(a, b, k - 1); if b.contains(a[k - 1]) { r.push(a[k - 1]) } else { r } }
}
pub open spec fn inter(a: Seq<usize>, b: Seq<usize>) -> Seq<usize> { inter_k(a, b, a.len() as int) }
// members of a (in a's order) among the first k that are NOT members of b
pub open spec fn diff_k(a: Seq<usize>, b: Seq<usize>, k: int) -> Seq<usize> decreases k {
    if k <= 0 { Seq::empty() } else { let r = diff_k(a, b, k - 1); if b.contains(a[k - 1]) { r } else { r.push(a[k - 1]) } }
}
pub open spec fn subset(a: Seq<usize>, b: Seq<usize>) -> bool { forall|i: int| 0 <= i < a.len() ==> b.contains(#[trigger] a[i]) }
// the iterator `a.intersection(b)`: "values that are in both, in the order in which they appear in a" (indexmap documentation)
pub struct Inter { pub _p: Vec<usize>, pub g: Ghost<Seq<usize>> }
impl View for Inter { type V = Seq<usize>; open spec fn view(&self) -> Seq<usize> { self.g@ } }
impl Inter {
    #[verifier::external_body] pub fn iter(&self) -> (r: &[usize]) ensures r@ == self@ { unimplemented!() }
    // Iterator::eq: same length and element-wise equal, IN ITERATION ORDER
    #[verifier::external_body] pub fn eq(self, o: Inter) -> (r: bool) ensures r == (self@ == o@) { unimplemented!() }
}
impl VertexSet {
    #[verifier::external_body] pub fn intersection(&self, o: &VertexSet) -> (r: Inter) ensures r@ == inter(self@, o@) { unimplemented!() }
    #[verifier::external_body] pub fn is_subset(&self, o: &VertexSet) -> (r: bool) ensures r == subset(self@, o@) { unimplemented!() }
    // Extend<&usize>: inserts the yielded values one after the other
    #[verifier::external_body] pub fn extend(&mut self, it: Inter) ensures final(self)@ == ins_all(old(self)@, it@, it@.len() as int) { unimplemented!() }
}
impl Clone for VertexSet { #[verifier::external_body] fn clone(&self) -> (r: Self) ensures r@ == self@ { unimplemented!() } }
// ---- std ----
pub open spec fn ipow(b: int, e: nat) -> int decreases e { if e == 0 { 1 } else { b * ipow(b, (e - 1) as nat) } }
pub assume_specification [isize::pow] (x: isize, e: u32) -> (r: isize)
    requires isize::MIN <= ipow(x as int, e as nat) <= isize::MAX,
    ensures r == ipow(x as int, e as nat);
#[verifier::external_body]
pub fn usize_max(a: usize, b: usize) -> (r: usize) ensures r == (if a >= b { a } else { b }) { core::cmp::max(a, b) }
#[verifier::external_body]
pub fn usize_min(a: usize, b: usize) -> (r: usize) ensures r == (if a <= b { a } else { b }) { core::cmp::min(a, b) }
// rule R13 (`findmax(..).unwrap()` in max_elem, OPEN obligation O1) / rule slicechk (`p[0..nnz]` in traverse, OPEN obligation O2):
// the documented panic is modelled as divergence
pub trait UnwrapOrPanic<T> { fn unwrap_or_panic(self) -> T; }
impl<T> UnwrapOrPanic<T> for Option<T> {
    #[verifier::external_body] fn unwrap_or_panic(self) -> (r: T) ensures self == Some(r) { self.unwrap() }
}
#[verifier::external_body]
pub fn range_end_or_panic(e: usize, len: usize) -> (r: usize) ensures r == e, e <= len { if e > len { panic!() } e }
// ---- src/algebra/utils.rs (closures: sort_by / max_by_key) ----
pub open spec fn is_perm(p: Seq<usize>) -> bool {
    p.no_duplicates() && (forall|i: int| 0 <= i < p.len() ==> #[trigger] p[i] < p.len()) && (forall|k: usize| k < p.len() ==> #[trigger] p.contains(k))
}
// sortperm_rev: p becomes the permutation that sorts v from the largest to the smallest value (stable sort of 0..n by `b.cmp(&a)`)
#[verifier::external_body]
pub fn sortperm_rev(p: &mut [usize], v: &[isize])
    requires old(p)@.len() == v@.len(),        // assert_eq! in the source
    ensures final(p)@.len() == v@.len(), is_perm(final(p)@), forall|i: int, j: int| 0 <= i <= j < v@.len() ==> v@[final(p)@[i] as int] >= v@[final(p)@[j] as int],
{ unimplemented!() }
pub open spec fn is_last_max(v: Seq<isize>, i: int) -> bool {
    0 <= i < v.len() && (forall|j: int| 0 <= j < v.len() ==> #[trigger] v[j] <= v[i]) && (forall|j: int| i < j < v.len() ==> #[trigger] v[j] < v[i])
}
// findmax: Iterator::max_by_key - "if several elements are equally maximum, the last element is returned"; None for an empty slice
#[verifier::external_body]
pub fn findmax(v: &[isize]) -> (r: Option<usize>)
    ensures match r {
        Some(i) => is_last_max(v@, i as int),
        None => v@.len() == 0 },
{ unimplemented!() }
// permute (qdldl.rs; proved in unit qdldl_perm): x[i] = b[p[i]]
#[verifier::external_body]
pub fn permute(x: &mut [usize], b: &[usize], p: &[usize])
    requires old(x)@.len() == p@.len(), forall|i: int| 0 <= i < p@.len() ==> #[trigger] p@[i] < b@.len(),
    ensures final(x)@.len() == p@.len(), forall|i: int| 0 <= i < p@.len() ==> #[trigger] final(x)@[i] == b@[p@[i] as int],
{ unimplemented!() }

// ===================== the edge matrix: CscMatrix<isize>, strictly lower triangular =====================
pub open spec fn in_col(A: CscMatrix<isize>, k: int, c: int) -> bool { 0 <= c < A.n && A.colptr@[c] <= k < A.colptr@[c + 1] }
// canonical encoding (what check_format accepts): monotone column pointers from 0 to nnz, rows strictly increasing within a column, rows < m
pub open spec fn canon(A: CscMatrix<isize>) -> bool {
    &&& A.colptr@.len() == A.n + 1 && A.colptr@[0] == 0 && A.rowval@.len() == A.nzval@.len() && A.colptr@[A.n as int] == A.nzval@.len()
    &&& forall|a: int, b: int| 0 <= a <= b <= A.n ==> A.colptr@[a] <= A.colptr@[b]
    &&& forall|c: int, k1: int, k2: int| #![trigger in_col(A, k1, c), in_col(A, k2, c)] in_col(A, k1, c) && in_col(A, k2, c) && k1 < k2 ==> A.rowval@[k1] < A.rowval@[k2]
    &&& forall|k: int| 0 <= k < A.rowval@.len() ==> #[trigger] A.rowval@[k] < A.m
}
// (r, c) is a stored position / its slot / its value
pub open spec fn stored(A: CscMatrix<isize>, r: int, c: int) -> bool { exists|k: int| in_col(A, k, c) && A.rowval@[k] == r }
pub open spec fn slot(A: CscMatrix<isize>, r: int, c: int) -> int { choose|k: int| in_col(A, k, c) && A.rowval@[k] == r }
pub open spec fn ent(A: CscMatrix<isize>, r: int, c: int) -> Option<isize> { if stored(A, r, c) { Some(A.nzval@[slot(A, r, c)]) } else { None } }
pub proof fn lemma_slot(A: CscMatrix<isize>, k: int, c: int)
    requires canon(A), in_col(A, k, c),
    ensures stored(A, A.rowval@[k] as int, c), slot(A, A.rowval@[k] as int, c) == k, ent(A, A.rowval@[k] as int, c) == Some(A.nzval@[k]), 0 <= k < A.nzval@.len(),
{
    let r = A.rowval@[k] as int;
    let k2 = slot(A, r, c);
    assert(in_col(A, k2, c) && A.rowval@[k2] == r);
    if k2 < k { assert(A.rowval@[k2] < A.rowval@[k]); }
    if k < k2 { assert(A.rowval@[k] < A.rowval@[k2]); }
    assert(A.colptr@[c + 1] <= A.colptr@[A.n as int]);
}
// every slot lies in exactly one column
pub proof fn lemma_col_of(A: CscMatrix<isize>, k: int) -> (c: int)
    requires canon(A), 0 <= k < A.nzval@.len(),
    ensures in_col(A, k, c),
{
    lemma_col_search(A, k, A.n as int)
}
pub proof fn lemma_col_search(A: CscMatrix<isize>, k: int, hi: int) -> (c: int)
    requires canon(A), 0 <= k < A.colptr@[hi], 0 <= hi <= A.n,
    ensures in_col(A, k, c),
    decreases hi,
{
    if hi == 0 { 0 } else if A.colptr@[hi - 1] <= k { hi - 1 } else { lemma_col_search(A, k, hi - 1) }
}
pub proof fn lemma_col_unique(A: CscMatrix<isize>, k: int, c1: int, c2: int)
    requires canon(A), in_col(A, k, c1), in_col(A, k, c2),
    ensures c1 == c2,
{
    if c1 < c2 { assert(A.colptr@[c1 + 1] <= A.colptr@[c2]); }
    if c2 < c1 { assert(A.colptr@[c2 + 1] <= A.colptr@[c1]); }
}
pub open spec fn nz(v: Option<isize>) -> Option<isize> { if v == Some(0isize) { None } else { v } }
// ASSUMED here (src/algebra/csc/core.rs): the positional forms of get_entry / set_entry / dropzeros / index_to_coord are PROVED in unit
// csc_core (for the opaque float type); here they are restated on the cell view `ent` at the element type isize
impl CscMatrix<isize> {
    #[verifier::external_body] pub fn zeros(size: (usize, usize)) -> (r: Self)
        ensures canon(r), r.m == size.0, r.n == size.1, r.nzval@.len() == 0,
    { unimplemented!() }
    // panics (assert!) unless the index is inside the matrix
    #[verifier::external_body] pub fn get_entry(&self, idx: (usize, usize)) -> (r: Option<isize>)
        requires canon(*self), idx.0 < self.m, idx.1 < self.n,
        ensures r == ent(*self, idx.0 as int, idx.1 as int),
    { unimplemented!() }
    // exactly the addressed cell changes: an existing entry is overwritten (also by a zero), a missing one is inserted unless the value is 0
    #[verifier::external_body] pub fn set_entry(&mut self, idx: (usize, usize), value: isize)
        requires canon(*old(self)), idx.0 < old(self).m, idx.1 < old(self).n,
        ensures
            canon(*final(self)), final(self).m == old(self).m, final(self).n == old(self).n,
            forall|r: int, c: int| #![trigger stored(*final(self), r, c)] stored(*final(self), r, c) == (stored(*old(self), r, c) || (r == idx.0 && c == idx.1 && value != 0)),
            forall|r: int, c: int| #![trigger ent(*final(self), r, c)] ent(*final(self), r, c) ==
                (if r == idx.0 && c == idx.1 { if stored(*old(self), r, c) || value != 0 { Some(value) } else { None } } else { ent(*old(self), r, c) }),
            final(self).nzval@.len() == old(self).nzval@.len() + (if stored(*old(self), idx.0 as int, idx.1 as int) || value == 0 { 0int } else { 1int }),
    { unimplemented!() }
    // the stored entries whose value is not zero survive, each in its cell
    #[verifier::external_body] pub fn dropzeros(&mut self)
        requires canon(*old(self)),
        ensures
            canon(*final(self)), final(self).m == old(self).m, final(self).n == old(self).n,
            forall|r: int, c: int| #![trigger ent(*final(self), r, c)] ent(*final(self), r, c) == nz(ent(*old(self), r, c)),
            forall|r: int, c: int| #![trigger stored(*final(self), r, c)] stored(*final(self), r, c) == (nz(ent(*old(self), r, c)) is Some),
            final(self).nzval@.len() <= old(self).nzval@.len(),
    { unimplemented!() }
    // panics (assert!) unless idx < nnz
    #[verifier::external_body] pub fn index_to_coord(&self, idx: usize) -> (r: (usize, usize))
        requires canon(*self), idx < self.nzval@.len(),
        ensures r.0 == self.rowval@[idx as int], in_col(*self, idx as int, r.1 as int),
    { unimplemented!() }
    // triplet form: I = rowval, V = nzval, J[k] = the column of slot k
    #[verifier::external_body] pub fn findnz(&self) -> (r: (Vec<usize>, Vec<usize>, Vec<isize>))
        requires canon(*self),
        ensures r.0@ == self.rowval@, r.2@ == self.nzval@, r.1@.len() == self.nzval@.len(), forall|k: int| 0 <= k < self.nzval@.len() ==> in_col(*self, k, #[trigger] r.1@[k] as int),
    { unimplemented!() }
    // "Data can be provided unsorted.  Repeated values are added."  Panics unless the three lists have equal length; a column index
    // >= n panics (colptr[c]); (the consolidation pass is PROVED in unit csc_build).  Value of a cell = sum of its triplets (not stated here)
    #[verifier::external_body] pub fn new_from_triplets(m: usize, n: usize, I: Vec<usize>, J: Vec<usize>, V: Vec<isize>) -> (r: Self)
        requires I@.len() == J@.len(), I@.len() == V@.len(), forall|k: int| 0 <= k < J@.len() ==> #[trigger] J@[k] < n, forall|k: int| 0 <= k < I@.len() ==> #[trigger] I@[k] < m,
        ensures
            canon(r), r.m == m, r.n == n, r.nzval@.len() <= I@.len(),
            forall|a: int, c: int| #![trigger stored(r, a, c)] stored(r, a, c) == (exists|k: int| 0 <= k < I@.len() && I@[k] == a && J@[k] == c),
    { unimplemented!() }
//@fn file=src/algebra/csc/core.rs in="ShapedMatrix for CscMatrix<T>" name=ncols ret=r
//@contract
    ensures r == self.n
//@end
//@fn file=src/algebra/csc/core.rs in="ShapedMatrix for CscMatrix<T>" name=size ret=r
//@contract
    ensures r == (self.m, self.n)
//@end
}

// ===================== closure-free helpers of clique_graph.rs =====================
//@enum file=src/solver/chordal/merge/mod.rs name=EdgeWeightMethod derive="Clone, Copy"
// number of members of a among the first k that are also members of b
pub open spec fn cnt_common(a: Seq<usize>, b: Seq<usize>, k: int) -> int decreases k {
    if k <= 0 { 0 } else { cnt_common(a, b, k - 1) + (if b.contains(a[k - 1]) { 1int } else { 0int }) }
}
pub proof fn lemma_cnt_common_bounds(a: Seq<usize>, b: Seq<usize>, k: int)
    requires 0 <= k, ensures 0 <= cnt_common(a, b, k) <= k, decreases k,
{ if k > 0 { lemma_cnt_common_bounds(a, b, k - 1); } }
// |s1 n s2| as the code counts it: members of the smaller set (s2 on a tie) that are members of the other one
pub open spec fn idim(s1: Seq<usize>, s2: Seq<usize>) -> int { if s1.len() < s2.len() { cnt_common(s1, s2, s1.len() as int) } else { cnt_common(s2, s1, s2.len() as int) } }
//@fn file=src/solver/chordal/merge/clique_graph.rs name=intersect_dim rules=setiter:sa ret=r
//@contract
    ensures r == idim(s1@, s2@), r <= s1@.len() && r <= s2@.len(),
//@iter 1
it
//@loop 1
        invariant
            it.seq().len() == sa@.len(), forall|k: int| 0 <= k < sa@.len() ==> *(#[trigger] it.seq()[k]) == sa@[k],
            dim == cnt_common(sa@, sb@, it.index@ as int), dim <= it.index@, sa@.len() <= usize::MAX,
//@body_start 1
        proof { lemma_cnt_common_bounds(sa@, sb@, it.index@ as int); }
//@end
//@fn file=src/solver/chordal/merge/clique_graph.rs name=union_dim ret=r
//@contract
    requires s1@.len() < 0x8000_0000, s2@.len() < 0x8000_0000,
    ensures r == s1@.len() + s2@.len() - idim(s1@, s2@), r >= s1@.len() && r >= s2@.len(), r <= s1@.len() + s2@.len(),
//@end
// the documented weight of an edge: n1^3 + n2^3 - |union|^3 (the computational saving of a merge)
pub open spec fn cube(x: int) -> int { x * x * x }
pub open spec fn metric(a: Seq<usize>, b: Seq<usize>) -> int { cube(a.len() as int) + cube(b.len() as int) - cube(a.len() + b.len() - idim(a, b)) }
pub open spec fn small(a: Seq<usize>) -> bool { a.len() <= 0x8_0000 }
pub proof fn lemma_cube(x: int)
    requires 0 <= x <= 0x10_0000,
    ensures ipow(x, 3) == cube(x), 0 <= cube(x) <= 0x10_0000 * 0x10_0000 * 0x10_0000,
{
    reveal_with_fuel(ipow, 4);
    assert(ipow(x, 3) == x * (x * (x * 1)));
    assert(x * (x * (x * 1)) == x * x * x) by (nonlinear_arith);
    assert(0 <= x * x <= 0x10_0000 * 0x10_0000) by (nonlinear_arith) requires 0 <= x <= 0x10_0000;
    assert(0 <= (x * x) * x <= (0x10_0000 * 0x10_0000) * 0x10_0000) by (nonlinear_arith) requires 0 <= x <= 0x10_0000, 0 <= x * x <= 0x10_0000 * 0x10_0000;
}
//@fn file=src/solver/chordal/merge/clique_graph.rs name=edge_metric ret=r
//@contract
    requires small(c_a@), small(c_b@),     // no overflow of the cubes: cliques of at most 2^19 vertices
    ensures r == metric(c_a@, c_b@),
//@pre
    proof {
        lemma_cube(c_a@.len() as int); lemma_cube(c_b@.len() as int);
        lemma_cnt_common_bounds(c_a@, c_b@, c_a@.len() as int); lemma_cnt_common_bounds(c_b@, c_a@, c_b@.len() as int);
        lemma_cube(c_a@.len() + c_b@.len() - idim(c_a@, c_b@));
    }
//@end
//@fn file=src/solver/chordal/merge/clique_graph.rs name=compute_weights ret=r
//@contract
    requires
        rows@.len() == cols@.len(),
        forall|k: int| 0 <= k < rows@.len() ==> #[trigger] rows@[k] < snode@.len(), forall|k: int| 0 <= k < cols@.len() ==> #[trigger] cols@[k] < snode@.len(),
        forall|c: int| 0 <= c < snode@.len() ==> small(#[trigger] snode@[c]@),
    ensures
        // one weight per edge, the documented metric of its two cliques
        r@.len() == rows@.len(), forall|k: int| 0 <= k < rows@.len() ==> #[trigger] r@[k] == metric(snode@[rows@[k] as int]@, snode@[cols@[k] as int]@),
//@loop 1
        invariant
            weights@.len() == rows@.len(), rows@.len() == cols@.len(),
            forall|k: int| 0 <= k < rows@.len() ==> #[trigger] rows@[k] < snode@.len(), forall|k: int| 0 <= k < cols@.len() ==> #[trigger] cols@[k] < snode@.len(),
            forall|c: int| 0 <= c < snode@.len() ==> small(#[trigger] snode@[c]@),
            forall|j: int| 0 <= j < $var1 ==> #[trigger] weights@[j] == metric(snode@[rows@[j] as int]@, snode@[cols@[j] as int]@),
//@end

// Find the matrix indices (i, j) of a maximum element among the elements stored in A.nzval.  OPEN O1: `findmax(..).unwrap()` panics on an
// empty edge list (rule R13: modelled as divergence)
//@fn file=src/solver/chordal/merge/clique_graph.rs name=max_elem rules=R13 ret=r
//@contract
    requires canon(*A),
    ensures
        // the coordinates of a stored entry with the largest value (of the LAST such slot: Iterator::max_by_key; the source comment says "first")
        exists|ind: int| #[trigger] in_col(*A, ind, r.1 as int) && A.rowval@[ind] == r.0 && is_last_max(A.nzval@, ind),
//@pre
    let ghost mut gind = 0int;
//@before "let mut col = 0;"
    let ghost gc = lemma_col_of(*A, ind as int);
    proof { gind = ind as int; }
//@loop 1
        invariant_except_break col == 0, $var1 <= gc,
        invariant n == A.n, canon(*A), in_col(*A, ind as int, gc),
        ensures in_col(*A, ind as int, col as int),
//@body_start 1
        proof { if $var1 == gc { assert(in_col(*A, ind as int, $var1 as int)); } }
//@post
    proof { assert(in_col(*A, gind, r_v.1 as int)); }
//@end
//@fn file=src/solver/chordal/merge/clique_graph.rs name=edge_from_index ret=r
//@contract
    requires canon(*A), ind < A.nzval@.len(),
    ensures r.0 == A.rowval@[ind as int], in_col(*A, ind as int, r.1 as int),
//@end


// Check whether `edge` is permissible for a merge.  NOTE: the two intersections are compared as SEQUENCES (Iterator::eq), each in the
// insertion order of its own clique (observation OB1 in the header)
pub open spec fn permissible(T: Map<usize, VertexSet>, snode: Seq<VertexSet>, c1: usize, c2: usize) -> bool {
    let cn = inter(T[c1]@, T[c2]@);
    forall|i: int| 0 <= i < cn.len() ==> inter(snode[c1 as int]@, snode[#[trigger] cn[i] as int]@) == inter(snode[c2 as int]@, snode[cn[i] as int]@)
}
pub proof fn lemma_inter_k(a: Seq<usize>, b: Seq<usize>, k: int)
    requires 0 <= k <= a.len(),
    ensures
        inter_k(a, b, k).len() <= k,
        forall|i: int| 0 <= i < inter_k(a, b, k).len() ==> a.contains(#[trigger] inter_k(a, b, k)[i]) && b.contains(inter_k(a, b, k)[i]),
        forall|j: int| 0 <= j < k && b.contains(a[j]) ==> inter_k(a, b, k).contains(#[trigger] a[j]),
    decreases k,
{
    if k > 0 {
        lemma_inter_k(a, b, k - 1);
        let r = inter_k(a, b, k - 1);
        let cur = inter_k(a, b, k);
        assert forall|i: int| 0 <= i < cur.len() implies a.contains(#[trigger] cur[i]) && b.contains(cur[i]) by {
            if i < r.len() { assert(cur[i] == r[i]); } else { assert(cur[i] == a[k - 1]); }
        }
        assert forall|j: int| 0 <= j < k && b.contains(a[j]) implies cur.contains(#[trigger] a[j]) by {
            if j < k - 1 { assert(r.contains(a[j])); let i = choose|i: int| 0 <= i < r.len() && r[i] == a[j]; assert(cur[i] == a[j]); }
            else { assert(cur[r.len() as int] == a[j]); }
        }
    }
}
//@fn file=src/solver/chordal/merge/clique_graph.rs name=ispermissible rules=mapidx,R5,setiter:common_neighbors ret=r
//@contract
    requires
        adjacency_table@.contains_key(edge.0), adjacency_table@.contains_key(edge.1),      // `adjacency_table[&c]` panics otherwise
        edge.0 < snode@.len(), edge.1 < snode@.len(),
        forall|i: int| 0 <= i < adjacency_table@[edge.0]@.len() ==> #[trigger] adjacency_table@[edge.0]@[i] < snode@.len(),
    ensures
        // permissible iff for every common neighbour N the intersections C_1 n N and C_2 n N are equal
        r == permissible(adjacency_table@, snode@, edge.0, edge.1),
//@before "for neighbor_r in common_neighbors"
    let ghost cn = common_neighbors@;
    proof { lemma_inter_k(adjacency_table@[edge.0]@, adjacency_table@[edge.1]@, adjacency_table@[edge.0]@.len() as int); }
//@iter 1
it
//@loop 1
        invariant
            cn == inter(adjacency_table@[edge.0]@, adjacency_table@[edge.1]@), c_1 == edge.0, c_2 == edge.1, c_1 < snode@.len(), c_2 < snode@.len(),
            it.seq().len() == cn.len(), forall|k: int| 0 <= k < cn.len() ==> *(#[trigger] it.seq()[k]) == cn[k],
            forall|k: int| 0 <= k < cn.len() ==> #[trigger] cn[k] < snode@.len(),
            forall|i: int| 0 <= i < it.index@ ==> inter(snode@[c_1 as int]@, snode@[#[trigger] cn[i] as int]@) == inter(snode@[c_2 as int]@, snode@[cn[i] as int]@),
//@body_start 1
        proof { assert(*neighbor_r == cn[it.index@ as int]); }
//@end

// (compute_adjacency_table: see below, after the table vocabulary)
// ===================== the supernodal tree as the strategy sees it (definitions of unit chordal_merge) =====================
pub open spec fn tn(t: SuperNodeTree) -> int { t.snode@.len() as int }
pub open spec fn nv(t: SuperNodeTree) -> int { t.post@.len() as int }
pub open spec fn dims_ok(t: SuperNodeTree) -> bool {
    &&& t.separators@.len() == tn(t) && t.snode_parent@.len() == tn(t) && t.snode_children@.len() == tn(t)
    &&& tn(t) < 0x8000_0000 && nv(t) < 0x8000_0000
}
pub open spec fn out_ok(t: SuperNodeTree) -> bool {
    &&& dims_ok(t) && 1 <= t.n_cliques <= tn(t) && t.snode_post@.len() == t.n_cliques
    &&& forall|i: int| 0 <= i < t.snode_post@.len() ==> #[trigger] t.snode_post@[i] < tn(t)
    &&& forall|c: int| 0 <= c < tn(t) ==> (#[trigger] t.snode@[c])@.len() < 0x8000_0000 && t.separators@[c]@.len() < 0x8000_0000
}
// ---- merge/mod.rs: set_union_into_indexed (as in unit chordal_merge) ----
//@fn file=src/solver/chordal/merge/mod.rs name=set_union_into_indexed rules=R5,setiter:source
//@contract
    requires c1 < old(sets)@.len(), c2 < old(sets)@.len(),
    ensures
        final(sets)@.len() == old(sets)@.len(),
        forall|i: int| 0 <= i < old(sets)@.len() && i != c1 ==> #[trigger] final(sets)@[i] == old(sets)@[i],
        c1 != c2 ==> final(sets)@[c1 as int]@ == ins_all(old(sets)@[c1 as int]@, old(sets)@[c2 as int]@, old(sets)@[c2 as int]@.len() as int),
        c1 == c2 ==> final(sets)@[c1 as int] == old(sets)@[c1 as int],
//@before "for el_r in source.iter()"
    let ghost t0 = target@;
    let ghost src = source@;
//@iter 1
it
//@loop 1
        invariant
            it.seq().len() == src.len(), forall|i: int| 0 <= i < src.len() ==> *(#[trigger] it.seq()[i]) == src[i],
            target@ == ins_all(t0, src, it.index@ as int),
//@end

// ---- the strategy trait with its contracts: TEXT OF UNIT chordal_merge (the contracts are on the trait; copied, not changed) ----
pub trait MergeStrategy {
    spec fn init_pre(&self, t: SuperNodeTree) -> bool;
    spec fn inv(&self, t: SuperNodeTree) -> bool;
    spec fn done(&self) -> bool;
    spec fn fuel(&self, t: SuperNodeTree) -> nat;
    spec fn cand_ok(&self, t: SuperNodeTree, cand: (usize, usize), f: nat) -> bool;
    spec fn ready(&self, t: SuperNodeTree, cand: (usize, usize), f: nat) -> bool;
    spec fn mid(&self, t: SuperNodeTree, cand: (usize, usize), do_merge: bool, f: nat) -> bool;
    spec fn result_ok(&self, t: SuperNodeTree) -> bool;
//@fn file=src/solver/chordal/merge/mod.rs in="trait MergeStrategy" name=merge_cliques
//@contract
        requires old(self).init_pre(*old(t)),
        ensures
            final(self).result_ok(*final(t)),
            final(t).post == old(t).post,
//@loop 1
            invariant_except_break t.n_cliques >= 2,
            invariant self.inv(*t), t.post == old(t).post,
            decreases (if self.done() { 0 } else { 1 + self.fuel(*t) }),
//@end
//@fn file=src/solver/chordal/merge/mod.rs in="trait MergeStrategy" name=initialise
//@contract
        requires old(self).init_pre(*old(t)),
        ensures final(self).inv(*final(t)), final(t).post == old(t).post, final(t).n_cliques >= 2,
//@end
//@fn file=src/solver/chordal/merge/mod.rs in="trait MergeStrategy" name=is_done ret=r
//@contract
        ensures r == self.done()
//@end
//@fn file=src/solver/chordal/merge/mod.rs in="trait MergeStrategy" name=traverse ret=r
//@contract
        requires
            old(self).inv(*t), !old(self).done(),
            t.n_cliques >= 2,
        ensures
            r is None ==> final(self).inv(*t),
            r matches Some(cand) ==> final(self).cand_ok(*t, cand, old(self).fuel(*t)),
//@end
//@fn file=src/solver/chordal/merge/mod.rs in="trait MergeStrategy" name=evaluate ret=r
//@contract
        requires exists|f: nat| old(self).cand_ok(*t, cand, f),
        ensures forall|f: nat| #[trigger] old(self).cand_ok(*t, cand, f) ==> (r ==> final(self).ready(*t, cand, f)) && (!r ==> final(self).mid(*t, cand, false, f)),
//@end
//@fn file=src/solver/chordal/merge/mod.rs in="trait MergeStrategy" name=merge_two_cliques
//@contract
        requires exists|f: nat| self.ready(*old(t), cand, f),
        ensures
            forall|f: nat| #[trigger] self.ready(*old(t), cand, f) ==> self.mid(*final(t), cand, true, f), final(t).post == old(t).post,
            final(t).n_cliques == old(t).n_cliques - 1, final(t).n_cliques >= 1,
//@end
//@fn file=src/solver/chordal/merge/mod.rs in="trait MergeStrategy" name=update_strategy
//@contract
        requires exists|f: nat| old(self).mid(*t, cand, do_merge, f),
        ensures forall|f: nat| #[trigger] old(self).mid(*t, cand, do_merge, f) ==> final(self).inv(*t) && (final(self).done() || final(self).fuel(*t) < f),
//@end
//@fn file=src/solver/chordal/merge/mod.rs in="trait MergeStrategy" name=post_process_merge
//@contract
        requires old(self).inv(*old(t)),
        ensures final(self).result_ok(*final(t)), final(t).post == old(t).post,
//@end
}

// ===================== the clique-graph strategy: state invariant =====================
//@struct file=src/solver/chordal/merge/clique_graph.rs name=CliqueGraphMergeStrategy
pub type Adj = Map<usize, VertexSet>;
// x is listed as a neighbour of a
pub open spec fn adj(T: Adj, a: usize, x: usize) -> bool { T.contains_key(a) && T[a]@.contains(x) }
// the adjacency table: keys are clique numbers; a neighbour is itself a key and never the clique itself; no neighbour listed twice
pub open spec fn tab_ok(T: Adj, n: int) -> bool {
    &&& forall|a: usize| #[trigger] T.contains_key(a) ==> a < n
    &&& forall|a: usize, x: usize| #[trigger] adj(T, a, x) ==> T.contains_key(x) && x != a
    &&& forall|a: usize| T.contains_key(a) ==> (#[trigger] T[a])@.no_duplicates()
}
// the edge matrix: n x n, canonical, strictly lower triangular, every stored edge joins two keys of the table
pub open spec fn low(E: CscMatrix<isize>, T: Adj) -> bool {
    forall|r: int, c: int| #[trigger] stored(E, r, c) ==> 0 <= c < r && T.contains_key(r as usize) && T.contains_key(c as usize)
}
pub open spec fn graph_ok(E: CscMatrix<isize>, T: Adj, n: int) -> bool { canon(E) && E.m == n && E.n == n && tab_ok(T, n) && low(E, T) }
// the cliques: distinct vertices below nv <= 2^19 each (=> the cubes of the sizes do not overflow)
pub open spec fn sn_ok(t: SuperNodeTree) -> bool {
    &&& dims_ok(t) && 1 <= nv(t) <= 0x8_0000
    &&& forall|c: int| 0 <= c < tn(t) ==> (#[trigger] t.snode@[c])@.no_duplicates()
    &&& forall|c: int, k: int| 0 <= c < tn(t) && 0 <= k < t.snode@[c]@.len() ==> (#[trigger] t.snode@[c]@[k]) < nv(t)
    &&& forall|c: int| 0 <= c < tn(t) ==> (#[trigger] t.separators@[c])@.len() < 0x8000_0000
}
pub proof fn lemma_sn_small(t: SuperNodeTree, c: int)
    requires sn_ok(t), 0 <= c < tn(t),
    ensures small(t.snode@[c]@), t.snode@[c]@.len() <= nv(t),
{
    assert(t.snode@[c]@.no_duplicates());
    assert forall|i: int| 0 <= i < t.snode@[c]@.len() implies #[trigger] t.snode@[c]@[i] < nv(t) by { }
    lemma_nodup_bounded(t.snode@[c]@, nv(t));
}
pub proof fn lemma_all_small(t: SuperNodeTree)
    requires sn_ok(t),
    ensures forall|c: int| 0 <= c < tn(t) ==> small(#[trigger] t.snode@[c]@),
{ assert forall|c: int| 0 <= c < tn(t) implies small(#[trigger] t.snode@[c]@) by { lemma_sn_small(t, c); } }
// number of non-empty cliques among the first k
pub open spec fn cnt_ne(sn: Seq<VertexSet>, k: int) -> int decreases k { if k <= 0 { 0 } else { cnt_ne(sn, k - 1) + (if sn[k - 1]@.len() > 0 { 1int } else { 0int }) } }
pub proof fn lemma_cnt_ne_bounds(sn: Seq<VertexSet>, k: int) requires 0 <= k ensures 0 <= cnt_ne(sn, k) <= k decreases k { if k > 0 { lemma_cnt_ne_bounds(sn, k - 1); } }
pub proof fn lemma_cnt_ne_drop(s0: Seq<VertexSet>, s1: Seq<VertexSet>, k: int, ch: int)
    requires
        0 <= k <= s0.len(), s1.len() == s0.len(), 0 <= ch < s0.len(), s0[ch]@.len() > 0, s1[ch]@.len() == 0,
        forall|c: int| 0 <= c < s0.len() && c != ch ==> ((#[trigger] s1[c]@.len() > 0) <==> s0[c]@.len() > 0),
    ensures cnt_ne(s1, k) == cnt_ne(s0, k) - (if ch < k { 1int } else { 0int }),
    decreases k,
{ if k > 0 { lemma_cnt_ne_drop(s0, s1, k - 1, ch); } }
impl CliqueGraphMergeStrategy {
    // state between two rounds: graph_ok, a clique is a key of the table iff it is not empty, n_cliques counts the non-empty cliques
    pub open spec fn core(&self, t: SuperNodeTree) -> bool {
        &&& sn_ok(t) && graph_ok(self.edges, self.adjacency_table@, tn(t))
        &&& forall|c: int| 0 <= c < tn(t) ==> (self.adjacency_table@.contains_key(c as usize) <==> (#[trigger] t.snode@[c])@.len() > 0)
        &&& t.n_cliques == cnt_ne(t.snode@, tn(t)) && t.n_cliques >= 1
    }
    // state after merge_two_cliques(c1, c2): clique c2 is empty but still in the graph
    pub open spec fn merged(&self, t: SuperNodeTree, cand: (usize, usize)) -> bool {
        &&& sn_ok(t) && graph_ok(self.edges, self.adjacency_table@, tn(t))
        &&& forall|c: int| 0 <= c < tn(t) ==> (self.adjacency_table@.contains_key(c as usize) <==> ((#[trigger] t.snode@[c])@.len() > 0 || c == cand.1))
        &&& t.n_cliques == cnt_ne(t.snode@, tn(t)) && t.n_cliques >= 1 && t.snode@[cand.1 as int]@.len() == 0
        &&& stored(self.edges, cand.0 as int, cand.1 as int)
    }
//@fn file=src/solver/chordal/merge/clique_graph.rs in="impl CliqueGraphMergeStrategy" name=new ret=r
//@contract
        ensures !r.stop, r.adjacency_table@ == Map::<usize, VertexSet>::empty(), r.p@.len() == 0, canon(r.edges), r.edges.n == 0,
//@end
}
impl MergeStrategy for CliqueGraphMergeStrategy {
    // what SuperNodeTree::new built (unit chordal_merge: tree_ok + post_ok give all of it except `every supernode is non-empty` and the
    // size bound nv <= 2^19 that keeps the cubic weights inside isize)
    open spec fn init_pre(&self, t: SuperNodeTree) -> bool { cg_init_pre(t) }
    open spec fn inv(&self, t: SuperNodeTree) -> bool { self.core(t) }
    open spec fn done(&self) -> bool { self.stop }
    // termination: a round that does not stop merges two cliques
    open spec fn fuel(&self, t: SuperNodeTree) -> nat { t.n_cliques as nat }
    // the candidate is a stored edge of the graph => two different non-empty cliques, the first with the larger number
    open spec fn cand_ok(&self, t: SuperNodeTree, cand: (usize, usize), f: nat) -> bool {
        self.core(t) && !self.stop && f == t.n_cliques && t.n_cliques >= 2 && stored(self.edges, cand.0 as int, cand.1 as int)
    }
    open spec fn ready(&self, t: SuperNodeTree, cand: (usize, usize), f: nat) -> bool { self.cand_ok(t, cand, f) }
    open spec fn mid(&self, t: SuperNodeTree, cand: (usize, usize), do_merge: bool, f: nat) -> bool {
        if do_merge { self.merged(t, cand) && !self.stop && f == t.n_cliques + 1 } else { self.core(t) && self.stop }
    }
    open spec fn result_ok(&self, t: SuperNodeTree) -> bool { out_ok(t) }
//@fn file=src/solver/chordal/merge/clique_graph.rs in="MergeStrategy for CliqueGraphMergeStrategy" name=initialise rules=zipidx:1=mi,R5,setiter:separator
//@contract
        ensures
            // C17: every clique becomes supernode + separator (the full clique), the tree structure is given up
            tn(*final(t)) == tn(*old(t)),
            forall|c: int| 0 <= c < tn(*old(t)) ==> (#[trigger] final(t).snode@[c])@ == ins_all(old(t).snode@[c]@, old(t).separators@[c]@, old(t).separators@[c]@.len() as int),
            forall|c: int| 0 <= c < tn(*old(t)) ==> #[trigger] final(t).snode_parent@[c] == INACTIVE_NODE && final(t).snode_children@[c]@.len() == 0,
            // the table is the adjacency relation of the edge matrix, one key per clique
            forall|a: usize, x: usize| #[trigger] adj(final(self).adjacency_table@, a, x) <==> stored(final(self).edges, a as int, x as int) || stored(final(self).edges, x as int, a as int),
            final(self).p@.len() == final(self).edges.nzval@.len(), final(self).stop == old(self).stop,
//@pre
        let ghost t0 = *t;
        proof { assert(cg_init_pre(t0)); }
//@loop 1
            invariant
                r14_n1 == tn(t0), cg_init_pre(t0), t.snode@.len() == tn(t0), t.separators == t0.separators, t.snode_parent == t0.snode_parent, t.snode_children == t0.snode_children,
                t.post == t0.post, t.n_cliques == t0.n_cliques, t.snode_post == t0.snode_post, t.nblk == t0.nblk,
                forall|c: int| 0 <= c < $var1 ==> (#[trigger] t.snode@[c])@ == ins_all(t0.snode@[c]@, t0.separators@[c]@, t0.separators@[c]@.len() as int),
                forall|c: int| $var1 <= c < tn(t0) ==> #[trigger] t.snode@[c] == t0.snode@[c],
//@body_start 1
            let ghost gi = $var1 as int;
            let ghost sn_b = t.snode@;
//@iter 2
it2
//@loop 2
                invariant
                    separator@ == t0.separators@[gi]@, it2.seq().len() == separator@.len(), forall|k: int| 0 <= k < separator@.len() ==> *(#[trigger] it2.seq()[k]) == separator@[k],
                    snode@ == ins_all(t0.snode@[gi]@, separator@, it2.index@ as int),
//@body_end 1
            proof {
                assert forall|c: int| 0 <= c < gi + 1 implies (#[trigger] t.snode@[c])@ == ins_all(t0.snode@[c]@, t0.separators@[c]@, t0.separators@[c]@.len() as int) by { if c < gi { assert(t.snode@[c] == sn_b[c]); } }
                assert forall|c: int| gi + 1 <= c < tn(t0) implies #[trigger] t.snode@[c] == t0.snode@[c] by { assert(t.snode@[c] == sn_b[c]); }
            }
//@before_loop 3
        let ghost t1 = *t;
//@iter 3
it3
//@loop 3
            invariant
                it3.seq().len() == tn(t0), t.snode == t1.snode, t.separators == t1.separators, t.post == t1.post, t.n_cliques == t1.n_cliques, t.snode_post == t1.snode_post, t.nblk == t1.nblk,
                t.snode_parent@.len() == tn(t0), t.snode_children@.len() == tn(t0),
                forall|c: int| 0 <= c < $var3 ==> #[trigger] t.snode_parent@[c] == INACTIVE_NODE,
                forall|c: int| 0 <= c < $var3 ==> (#[trigger] t.snode_children@[c])@.len() == 0,
//@before "let (rows, cols) = compute_reduced_clique_graph("
        let ghost t2 = *t;
        proof {
            assert forall|c: int| 0 <= c < tn(t0) implies (#[trigger] t.snode@[c])@.no_duplicates() && t.snode@[c]@.len() > 0
                && (forall|k: int| 0 <= k < t.snode@[c]@.len() ==> #[trigger] t.snode@[c]@[k] < nv(t0)) by {
                let a = t0.snode@[c]@; let b = t0.separators@[c]@; let m = t.snode@[c]@;
                lemma_ins_all_full(a, b);
                assert(a.no_duplicates()); assert(a.len() > 0); assert(a.contains(a[0])); assert(m.contains(a[0]));
                assert forall|k: int| 0 <= k < m.len() implies #[trigger] m[k] < nv(t0) by {
                    assert(m.contains(m[k]));
                    if a.contains(m[k]) { let j = choose|j: int| 0 <= j < a.len() && a[j] == m[k]; assert(t0.snode@[c]@[j] < nv(t0)); }
                    else { let j = choose|j: int| 0 <= j < b.len() && b[j] == m[k]; assert(t0.separators@[c]@[j] < nv(t0)); }
                }
            }
            assert(sets_ok(t.snode@)) by {
                assert forall|c: int| 0 <= c < t.snode@.len() implies (#[trigger] t.snode@[c])@.no_duplicates() && t.snode@[c]@.len() < 0x8000_0000 by { lemma_nodup_bounded(t.snode@[c]@, nv(t0)); }
            }
        }
//@after "let (rows, cols) = compute_reduced_clique_graph("
        proof {
            assert forall|c: int| 0 <= c < tn(t0) implies (#[trigger] t.separators@[c])@.len() < 0x8000_0000 by {
                assert(is_one_of(t.separators@[c]@, t2.separators@));
                let j = choose|j: int| 0 <= j < t2.separators@.len() && (#[trigger] t2.separators@[j])@ == t.separators@[c]@;
                assert(t0.separators@[j]@.no_duplicates());
                assert forall|k: int| 0 <= k < t0.separators@[j]@.len() implies #[trigger] t0.separators@[j]@[k] < nv(t0) by { }
                lemma_nodup_bounded(t0.separators@[j]@, nv(t0));
            }
            assert(sn_ok(*t));
            lemma_all_small(*t);
            assert forall|k: int| 0 <= k < cols@.len() implies #[trigger] cols@[k] < t.snode@.len() by { assert(cols@[k] < rows@[k]); }
        }
//@post
        proof {
            let E = self.edges; let T = self.adjacency_table@;
            assert(strict_low(E));
            assert(low(E, T)) by {
                assert forall|r: int, c: int| #[trigger] stored(E, r, c) implies 0 <= c < r && T.contains_key(r as usize) && T.contains_key(c as usize) by { lemma_has_range(E, r, c); }
            }
            lemma_cnt_ne_all(t.snode@, tn(*t));
        }
//@end
//@fn file=src/solver/chordal/merge/clique_graph.rs in="MergeStrategy for CliqueGraphMergeStrategy" name=is_done
//@end
//@fn file=src/solver/chordal/merge/clique_graph.rs in="MergeStrategy for CliqueGraphMergeStrategy" name=traverse rules=slicechk,R15:p,retbrk ret=r
//@contract
        ensures
            final(self).edges == old(self).edges, final(self).adjacency_table == old(self).adjacency_table, final(self).stop == old(self).stop,
            // a candidate is a stored edge that passed the permissibility test
            r matches Some(cand) ==> stored(old(self).edges, cand.0 as int, cand.1 as int) && permissible(old(self).adjacency_table@, t.snode@, cand.0, cand.1),
            // None: none of the edges in the slots p[1..nnz] of the weight-sorted permutation is permissible.  NOTE p[0] is skipped on the
            // assumption that it is the slot max_elem looked at - with equal maximal weights it is not (potential defect PD1 in the header)
            r is None ==> final(self).p@.len() >= old(self).edges.nzval@.len() && forall|k: int| 1 <= k < old(self).edges.nzval@.len() ==> !slot_perm(old(self).edges, old(self).adjacency_table@, t.snode@, #[trigger] final(self).p@[k] as int),
//@pre
        let ghost E = self.edges;
        let ghost T = self.adjacency_table@;
        proof { assert(self.core(*t)); }
//@after "let edge = max_elem(&self.edges);"
        proof {
            let ind = choose|ind: int| #[trigger] in_col(E, ind, edge.1 as int) && E.rowval@[ind] == edge.0 && is_last_max(E.nzval@, ind);
            lemma_slot(E, ind, edge.1 as int);
            lemma_nbrs_in_range(T, tn(*t), edge.0);
        }
//@loop 1
            invariant
                self.edges == E, self.adjacency_table@ == T, self.stop == old(self).stop, old(self).core(*t), E == old(self).edges, T == old(self).adjacency_table@,
                p@.len() >= E.nzval@.len(), is_perm(p@.subrange(0, E.nzval@.len() as int)),
                rb_ok(rb_ret1, E, T, t.snode@),
                rb_ret1 is None ==> forall|k2: int| 1 <= k2 < $var1 ==> !slot_perm(E, T, t.snode@, #[trigger] p@[k2] as int),
            ensures
                rb_ret1 is None ==> forall|k2: int| 1 <= k2 < E.nzval@.len() ==> !slot_perm(E, T, t.snode@, #[trigger] p@[k2] as int),
//@body_start 1
            proof {
                let q = p@.subrange(0, E.nzval@.len() as int);
                assert(q[$var1 as int] < q.len());
            }
//@after "let edge = edge_from_index(&self.edges, p[k]);"
            proof {
                lemma_slot(E, p@[$var1 as int] as int, edge.1 as int);
                lemma_nbrs_in_range(T, tn(*t), edge.0);
                // the column of a slot is unique: the edge looked at is THE edge of slot p[k]
                assert forall|c: int| in_col(E, p@[$var1 as int] as int, c) implies c == edge.1 by { lemma_col_unique(E, p@[$var1 as int] as int, c, edge.1 as int); }
            }
//@post
        proof {
            if r_v is None {
                assert(self.p@.len() >= E.nzval@.len());
                assert(E.nzval@.len() >= 1);
                assert forall|k: int| 1 <= k < E.nzval@.len() implies !slot_perm(E, T, t.snode@, #[trigger] self.p@[k] as int) by { }
            }
        }
//@end
//@fn file=src/solver/chordal/merge/clique_graph.rs in="MergeStrategy for CliqueGraphMergeStrategy" name=evaluate ret=r
//@contract
        ensures final(self).edges == old(self).edges, final(self).adjacency_table == old(self).adjacency_table, final(self).p == old(self).p,
            // merge iff the weight of the edge is not negative; otherwise merging stops
            r == (ent(old(self).edges, cand.0 as int, cand.1 as int)->0 >= 0), final(self).stop == (old(self).stop || !r),
//@pre
        proof {
            let f = choose|f: nat| old(self).cand_ok(*_t, cand, f);
            assert(stored(self.edges, cand.0 as int, cand.1 as int));
        }
//@end
//@fn file=src/solver/chordal/merge/clique_graph.rs in="MergeStrategy for CliqueGraphMergeStrategy" name=merge_two_cliques
//@contract
        ensures
            // C17: clique c2 is merged into c1 (its vertices are inserted one after the other), c2 becomes empty, one clique less; nothing else changes
            final(t).snode@.len() == old(t).snode@.len(),
            final(t).snode@[cand.0 as int]@ == ins_all(old(t).snode@[cand.0 as int]@, old(t).snode@[cand.1 as int]@, old(t).snode@[cand.1 as int]@.len() as int),
            final(t).snode@[cand.1 as int]@ == Seq::<usize>::empty(),
            forall|c: int| 0 <= c < old(t).snode@.len() && c != cand.0 && c != cand.1 ==> #[trigger] final(t).snode@[c] == old(t).snode@[c],
            final(t).separators == old(t).separators, final(t).snode_parent == old(t).snode_parent, final(t).snode_children == old(t).snode_children,
            final(t).snode_post == old(t).snode_post, final(t).nblk == old(t).nblk,
//@pre
        let ghost t0 = *t;
        proof {
            let f = choose|f: nat| self.ready(*t, cand, f);
            assert(stored(self.edges, cand.0 as int, cand.1 as int));
            assert(t.snode@[cand.0 as int]@.len() > 0 && t.snode@[cand.1 as int]@.len() > 0);
        }
//@post
        proof {
            let a = t0.snode@[cand.0 as int]@;
            let b = t0.snode@[cand.1 as int]@;
            lemma_ins_all_full(a, b);
            let m = t.snode@[cand.0 as int]@;
            assert(m.len() > 0) by { assert(a.contains(a[0])); assert(m.contains(a[0])); }
            assert forall|c: int, k: int| 0 <= c < tn(*t) && 0 <= k < t.snode@[c]@.len() implies (#[trigger] t.snode@[c]@[k]) < nv(*t) by {
                if c == cand.0 {
                    assert(m.contains(m[k]));
                    if a.contains(m[k]) { let j = choose|j: int| 0 <= j < a.len() && a[j] == m[k]; assert(t0.snode@[c]@[j] < nv(t0)); }
                    else { let j = choose|j: int| 0 <= j < b.len() && b[j] == m[k]; assert(t0.snode@[cand.1 as int]@[j] < nv(t0)); }
                } else if c != cand.1 { assert(t.snode@[c] == t0.snode@[c]); assert(t0.snode@[c]@[k] < nv(t0)); }
            }
            assert forall|c: int| 0 <= c < tn(*t) implies (#[trigger] t.snode@[c])@.no_duplicates() by {
                if c != cand.0 && c != cand.1 { assert(t.snode@[c] == t0.snode@[c]); assert(t0.snode@[c]@.no_duplicates()); }
                else if c == cand.0 { assert(t0.snode@[c]@.no_duplicates()); }
            }
            assert forall|c: int| 0 <= c < tn(*t) && c != cand.1 implies ((#[trigger] t.snode@[c]@.len() > 0) <==> t0.snode@[c]@.len() > 0) by {
                if c != cand.0 { assert(t.snode@[c] == t0.snode@[c]); }
            }
            lemma_cnt_ne_drop(t0.snode@, t.snode@, tn(t0), cand.1 as int);
            assert forall|c: int| 0 <= c < tn(*t) implies (self.adjacency_table@.contains_key(c as usize) <==> ((#[trigger] t.snode@[c])@.len() > 0 || c == cand.1)) by {
                assert(self.adjacency_table@.contains_key(c as usize) <==> t0.snode@[c]@.len() > 0);
                if c != cand.0 && c != cand.1 { assert(t.snode@[c] == t0.snode@[c]); }
            }
            assert forall|c: int| 0 <= c < tn(*t) implies (#[trigger] t.separators@[c])@.len() < 0x8000_0000 by { assert(t0.separators@[c]@.len() < 0x8000_0000); }
            assert(self.merged(*t, cand));
        }
//@end
//@fn file=src/solver/chordal/merge/clique_graph.rs in="MergeStrategy for CliqueGraphMergeStrategy" name=update_strategy rules=mapidx,R5,setiter:neighbors,R18,valuesmut
//@contract
        ensures
            !do_merge ==> *final(self) == *old(self),
            final(self).stop == old(self).stop, final(self).p == old(self).p,
            // C17 (clique graph after a merge): the removed clique disappears from the table and from the edge matrix ...
            do_merge ==> forall|a: usize| #[trigger] final(self).adjacency_table@.contains_key(a) <==> old(self).adjacency_table@.contains_key(a) && a != cand.1,
            do_merge ==> forall|r: int, c: int| #[trigger] stored(final(self).edges, r, c) ==> r != cand.1 && c != cand.1,
            // ... and the neighbours it did not share with the surviving clique become neighbours of the surviving clique (both directions);
            // no other neighbour relation changes
            do_merge ==> forall|a: usize, x: usize| #[trigger] adj(final(self).adjacency_table@, a, x) <==> a != cand.1 && x != cand.1 &&
                (adj(old(self).adjacency_table@, a, x) || (a == cand.0 && newn(old(self).adjacency_table@, cand.0, cand.1, x)) || (x == cand.0 && newn(old(self).adjacency_table@, cand.0, cand.1, a))),
            // the weights of all edges at the surviving clique are recomputed (an edge of weight zero is dropped), every other edge keeps
            // its weight (dropzeros drops zero weights that were there before)
            do_merge ==> forall|r: int, c: int| #![trigger ent(final(self).edges, r, c)] r != cand.1 && c != cand.1 ==> ent(final(self).edges, r, c) ==
                nz(if is_pair(cand.0, r, c) && adj(final(self).adjacency_table@, cand.0, other(cand.0, r, c)) { Some(wt(*t, cand.0, other(cand.0, r, c))) } else { ent(old(self).edges, r, c) }),
//@pre
        let ghost T0 = self.adjacency_table@;
        let ghost E0 = self.edges;
        let ghost gn = tn(*t);
        let ghost c1 = cand.0;
        let ghost cr = cand.1;
        let ghost mut nn: Seq<usize> = Seq::empty();
        let ghost mut nbrs: Seq<usize> = Seq::empty();
        let ghost mut E5 = self.edges;
        let ghost mut T6 = self.adjacency_table@;
        let ghost mut T5 = self.adjacency_table@;
        let ghost mut kl: Seq<usize> = Seq::empty();
//@before "let (c_1_ind, c_removed) = cand;"
        proof {
            let f = choose|f: nat| old(self).mid(*t, cand, do_merge, f);
            assert(self.merged(*t, cand));
            assert(stored(E0, c1 as int, cr as int));
            lemma_has_range(E0, c1 as int, cr as int);
            lemma_all_small(*t);
            assert(us_ctx(*t, T0, gn, c1, cr));
        }
//@before "let mut new_neighbors ="
        let ghost rem = T0[cr]@;
        proof { nbrs = T0[c1]@; lemma_nbrs_in_range(T0, gn, c1); lemma_nbrs_in_range(T0, gn, cr); assert(rem.no_duplicates()); }
//@iter 1
it1
//@loop 1
            invariant
                it1.seq().len() == nbrs.len(), forall|k: int| 0 <= k < nbrs.len() ==> *(#[trigger] it1.seq()[k]) == nbrs[k],
                new_neighbors@.no_duplicates(), forall|x: usize| #[trigger] new_neighbors@.contains(x) <==> rem.contains(x) && !in_pre(nbrs, it1.index@ as int, x),
//@body_start 1
            let ghost nn_b = new_neighbors@;
            let ghost gi = it1.index@ as int;
            proof { assert(*e == nbrs[gi]); lemma_rm(nn_b, *e); }
//@body_end 1
            proof {
                assert forall|x: usize| #[trigger] new_neighbors@.contains(x) <==> rem.contains(x) && !in_pre(nbrs, gi + 1, x) by { lemma_in_pre_step(nbrs, gi, x); }
            }
//@before "new_neighbors.shift_remove(&c_1_ind);"
        proof { lemma_rm(new_neighbors@, c_1_ind); }
//@after "new_neighbors.shift_remove(&c_1_ind);"
        proof {
            nn = new_neighbors@;
            assert forall|x: usize| #[trigger] nn.contains(x) <==> newn(T0, c1, cr, x) by { lemma_in_pre_full(nbrs, x); }
            assert forall|k: int| 0 <= k < nn.len() implies #[trigger] nn[k] < gn && nn[k] != c1 && nn[k] != cr && T0.contains_key(nn[k]) && !nbrs.contains(nn[k]) by {
                assert(nn.contains(nn[k])); assert(adj(T0, cr, nn[k]));
            }
        }
//@iter 2
it2
//@loop 2
            invariant
                it2.seq().len() == nbrs.len(), forall|k: int| 0 <= k < nbrs.len() ==> *(#[trigger] it2.seq()[k]) == nbrs[k],
                us_ctx(*t, T0, gn, c1, cr), nbrs == T0[c1]@, c_1_ind == c1, c_removed == cr, c_1@ == t.snode@[c1 as int]@, eg_inv(*edges, T0, gn),
                forall|r: int, c: int| #![trigger ent(*edges, r, c)] ent(*edges, r, c) ==
                    (if is_pair(c1, r, c) && other(c1, r, c) != cr && in_pre(nbrs, it2.index@ as int, other(c1, r, c)) { setv(ent(E0, r, c), wt(*t, c1, other(c1, r, c))) } else { ent(E0, r, c) }),
//@body_start 2
            let ghost gi = it2.index@ as int;
            let ghost Eb = *edges;
            proof { assert(*n_ind_r == nbrs[gi]); lemma_nbrs_in_range(T0, gn, c1); assert(adj(T0, c1, nbrs[gi])); assert(nbrs.no_duplicates()); }
//@body_end 2
            proof {
                let y = nbrs[gi];
                assert(!in_pre(nbrs, gi, y)) by { if in_pre(nbrs, gi, y) { let j = choose|j: int| 0 <= j < gi && nbrs[j] == y; assert(nbrs[j] == nbrs[gi]); } }
                assert(low(*edges, T0)) by {
                    assert forall|r: int, c: int| #[trigger] stored(*edges, r, c) implies 0 <= c < r && T0.contains_key(r as usize) && T0.contains_key(c as usize) by {
                        if !stored(Eb, r, c) { assert(r == mx(c1, y) && c == mn(c1, y)); }
                    }
                }
                assert forall|r: int, c: int| #![trigger ent(*edges, r, c)] ent(*edges, r, c) ==
                    (if is_pair(c1, r, c) && other(c1, r, c) != cr && in_pre(nbrs, gi + 1, other(c1, r, c)) { setv(ent(E0, r, c), wt(*t, c1, other(c1, r, c))) } else { ent(E0, r, c) }) by {
                    lemma_in_pre_step(nbrs, gi, other(c1, r, c));
                    assert(ent(Eb, r, c) == (if is_pair(c1, r, c) && other(c1, r, c) != cr && in_pre(nbrs, gi, other(c1, r, c)) { setv(ent(E0, r, c), wt(*t, c1, other(c1, r, c))) } else { ent(E0, r, c) }));
                }
            }
//@before_loop 3
        let ghost E2 = *edges;
//@iter 3
it3
//@loop 3
            invariant
                it3.seq().len() == nn.len(), forall|k: int| 0 <= k < nn.len() ==> *(#[trigger] it3.seq()[k]) == nn[k], nn == new_neighbors@, nn.no_duplicates(),
                forall|k: int| 0 <= k < nn.len() ==> #[trigger] nn[k] < gn && nn[k] != c1 && nn[k] != cr && T0.contains_key(nn[k]) && !nbrs.contains(nn[k]),
                us_ctx(*t, T0, gn, c1, cr), nbrs == T0[c1]@, c_1_ind == c1, c_removed == cr, c_1@ == t.snode@[c1 as int]@, eg_inv(*edges, T0, gn),
                forall|r: int, c: int| #![trigger ent(*edges, r, c)] ent(*edges, r, c) ==
                    (if is_pair(c1, r, c) && in_pre(nn, it3.index@ as int, other(c1, r, c)) { setv(ent(E2, r, c), wt(*t, c1, other(c1, r, c))) } else { ent(E2, r, c) }),
//@body_start 3
            let ghost gi = it3.index@ as int;
            let ghost Eb = *edges;
            proof { assert(*n_ind_r == nn[gi]); }
//@body_end 3
            proof {
                let y = nn[gi];
                assert(!in_pre(nn, gi, y)) by { if in_pre(nn, gi, y) { let j = choose|j: int| 0 <= j < gi && nn[j] == y; assert(nn[j] == nn[gi]); } }
                assert(low(*edges, T0)) by {
                    assert forall|r: int, c: int| #[trigger] stored(*edges, r, c) implies 0 <= c < r && T0.contains_key(r as usize) && T0.contains_key(c as usize) by {
                        if !stored(Eb, r, c) { assert(r == mx(c1, y) && c == mn(c1, y)); }
                    }
                }
                assert forall|r: int, c: int| #![trigger ent(*edges, r, c)] ent(*edges, r, c) ==
                    (if is_pair(c1, r, c) && in_pre(nn, gi + 1, other(c1, r, c)) { setv(ent(E2, r, c), wt(*t, c1, other(c1, r, c))) } else { ent(E2, r, c) }) by {
                    lemma_in_pre_step(nn, gi, other(c1, r, c));
                    assert(ent(Eb, r, c) == (if is_pair(c1, r, c) && in_pre(nn, gi, other(c1, r, c)) { setv(ent(E2, r, c), wt(*t, c1, other(c1, r, c))) } else { ent(E2, r, c) }));
                }
            }
//@before_loop 4
        let ghost E3 = *edges;
//@loop 4
            invariant
                us_ctx(*t, T0, gn, c1, cr), c_removed == cr, n == gn, eg_inv(*edges, T0, gn),
                forall|r: int, c: int| #![trigger ent(*edges, r, c)] ent(*edges, r, c) == (if c == cr && cr < r < $var4 { zero(ent(E3, r, c)) } else { ent(E3, r, c) }),
//@body_start 4
            let ghost Eb = *edges;
//@body_end 4
            proof {
                assert(low(*edges, T0)) by { assert forall|r: int, c: int| #[trigger] stored(*edges, r, c) implies 0 <= c < r && T0.contains_key(r as usize) && T0.contains_key(c as usize) by { assert(stored(Eb, r, c)); } }
                assert forall|r: int, c: int| #![trigger ent(*edges, r, c)] ent(*edges, r, c) == (if c == cr && cr < r < $var4 + 1 { zero(ent(E3, r, c)) } else { ent(E3, r, c) }) by {
                    assert(ent(Eb, r, c) == (if c == cr && cr < r < $var4 { zero(ent(E3, r, c)) } else { ent(E3, r, c) }));
                    if r == $var4 && c == cr { assert(stored(Eb, r, c) == (ent(Eb, r, c) is Some)); }
                }
            }
//@before_loop 5
        proof { E5 = *edges; }
//@loop 5
            invariant
                E5 == *edges, us_ctx(*t, T0, gn, c1, cr), c_removed == cr, n == gn, eg_inv(*edges, T0, gn),
                forall|r: int, c: int| #![trigger ent(*edges, r, c)] ent(*edges, r, c) == (if (c == cr && cr < r < gn) || (r == cr && 0 <= c < $var5) { zero(ent(E3, r, c)) } else { ent(E3, r, c) }),
//@body_start 5
            let ghost Eb = *edges;
//@body_end 5
            proof {
                assert(low(*edges, T0)) by { assert forall|r: int, c: int| #[trigger] stored(*edges, r, c) implies 0 <= c < r && T0.contains_key(r as usize) && T0.contains_key(c as usize) by { assert(stored(Eb, r, c)); } }
                assert forall|r: int, c: int| #![trigger ent(*edges, r, c)] ent(*edges, r, c) == (if (c == cr && cr < r < gn) || (r == cr && 0 <= c < $var5 + 1) { zero(ent(E3, r, c)) } else { ent(E3, r, c) }) by {
                    assert(ent(Eb, r, c) == (if (c == cr && cr < r < gn) || (r == cr && 0 <= c < $var5) { zero(ent(E3, r, c)) } else { ent(E3, r, c) }));
                    if c == $var5 && r == cr { assert(stored(Eb, r, c) == (ent(Eb, r, c) is Some)); }
                }
                E5 = *edges;
            }
//@before_loop 6
        proof {
            assert forall|r: int, c: int| r != cr && c != cr implies #[trigger] nz(ent(E5, r, c)) ==
                nz(if is_pair(c1, r, c) && ((other(c1, r, c) != cr && nbrs.contains(other(c1, r, c))) || nn.contains(other(c1, r, c))) { Some(wt(*t, c1, other(c1, r, c))) } else { ent(E0, r, c) }) by {
                lemma_in_pre_full(nbrs, other(c1, r, c)); lemma_in_pre_full(nn, other(c1, r, c));
                assert(ent(E5, r, c) == ent(E3, r, c));
                assert(ent(E3, r, c) == (if is_pair(c1, r, c) && in_pre(nn, nn.len() as int, other(c1, r, c)) { setv(ent(E2, r, c), wt(*t, c1, other(c1, r, c))) } else { ent(E2, r, c) }));
                assert(ent(E2, r, c) == (if is_pair(c1, r, c) && other(c1, r, c) != cr && in_pre(nbrs, nbrs.len() as int, other(c1, r, c)) { setv(ent(E0, r, c), wt(*t, c1, other(c1, r, c))) } else { ent(E0, r, c) }));
            }
            // after dropzeros: nothing is left in the row / column of the removed clique
            assert forall|r: int, c: int| #[trigger] stored(*edges, r, c) implies 0 <= c < r && T0.contains_key(r as usize) && T0.contains_key(c as usize) && r != cr && c != cr by {
                assert(nz(ent(E5, r, c)) is Some);
                assert(stored(E5, r, c));
                lemma_has_range(E5, r, c);
            }
            T5 = (*adjacency_table)@;
        }
//@iter 6
it6
//@loop 6
            invariant
                it6.seq().len() == nn.len(), forall|k: int| 0 <= k < nn.len() ==> *(#[trigger] it6.seq()[k]) == nn[k], nn == new_neighbors@, nn.no_duplicates(),
                forall|k: int| 0 <= k < nn.len() ==> #[trigger] nn[k] < gn && nn[k] != c1 && nn[k] != cr && T0.contains_key(nn[k]) && !nbrs.contains(nn[k]),
                us_ctx(*t, T0, gn, c1, cr), c_1_ind == c1, T5 == (*adjacency_table)@,
                forall|a: usize| #[trigger] (*adjacency_table)@.contains_key(a) <==> T0.contains_key(a),
                forall|a: usize| T0.contains_key(a) ==> (#[trigger] (*adjacency_table)@[a])@.no_duplicates(),
                forall|a: usize, x: usize| #[trigger] adj((*adjacency_table)@, a, x) <==> adj(T0, a, x) || (a == c1 && in_pre(nn, it6.index@ as int, x)) || (x == c1 && in_pre(nn, it6.index@ as int, a)),
//@body_start 6
            let ghost gi = it6.index@ as int;
            let ghost Tb = (*adjacency_table)@;
            proof { assert(*new_neighbor == nn[gi]); assert(Tb.contains_key(c1)); assert(Tb.contains_key(nn[gi])); assert(Tb[c1]@.no_duplicates()); assert(Tb[nn[gi]]@.no_duplicates()); }
//@body_end 6
            proof {
                let y = nn[gi];
                let Tc = (*adjacency_table)@;
                lemma_ins1(Tb[c1]@, y);
                lemma_ins1(Tb[y]@, c1);
                assert forall|a: usize| #[trigger] Tc.contains_key(a) <==> T0.contains_key(a) by { }
                assert forall|a: usize| T0.contains_key(a) implies (#[trigger] Tc[a])@.no_duplicates() by { if a != c1 && a != y { assert(Tc[a] == Tb[a]); assert(Tb[a]@.no_duplicates()); } }
                assert forall|a: usize, x: usize| #[trigger] adj(Tc, a, x) <==> adj(T0, a, x) || (a == c1 && in_pre(nn, gi + 1, x)) || (x == c1 && in_pre(nn, gi + 1, a)) by {
                    lemma_in_pre_step(nn, gi, x); lemma_in_pre_step(nn, gi, a);
                    assert(adj(Tb, a, x) <==> adj(T0, a, x) || (a == c1 && in_pre(nn, gi, x)) || (x == c1 && in_pre(nn, gi, a)));
                    if a != c1 && a != y && Tc.contains_key(a) { assert(Tc[a] == Tb[a]); }
                }
                T5 = Tc;
            }
//@before_loop 7
        proof { T6 = (*adjacency_table)@; kl = vm_keys1@; }
//@loop 7
            invariant
                kl == vm_keys1@, vm_keys1@.no_duplicates(), forall|k: usize| vm_keys1@.contains(k) <==> T6.contains_key(k), c_removed == cr,
                forall|a: usize| #[trigger] (*adjacency_table)@.contains_key(a) <==> T6.contains_key(a),
                forall|a: usize| T6.contains_key(a) ==> (#[trigger] (*adjacency_table)@[a])@ == (if in_pre(vm_keys1@, $var7 as int, a) { rm(T6[a]@, cr) } else { T6[a]@ }),
//@body_start 7
            let ghost gi = $var7 as int;
            let ghost Tb = (*adjacency_table)@;
            let ghost ky = vm_keys1@[gi];
            proof {
                assert(vm_keys1@.contains(ky));
                assert(!in_pre(vm_keys1@, gi, ky)) by { if in_pre(vm_keys1@, gi, ky) { let j = choose|j: int| 0 <= j < gi && vm_keys1@[j] == ky; assert(vm_keys1@[j] == vm_keys1@[gi]); } }
            }
//@body_end 7
            proof {
                let Tc = (*adjacency_table)@;
                assert forall|a: usize| T6.contains_key(a) implies (#[trigger] Tc[a])@ == (if in_pre(vm_keys1@, gi + 1, a) { rm(T6[a]@, cr) } else { T6[a]@ }) by {
                    lemma_in_pre_step(vm_keys1@, gi, a);
                    if a != ky { assert(Tc[a] == Tb[a]); }
                }
            }
//@post
        proof {
            if do_merge {
                let T = self.adjacency_table@;
                let E = self.edges;
                assert forall|a: usize| T6.contains_key(a) implies (#[trigger] T[a])@ == rm(T6[a]@, cr) by { lemma_in_pre_full(kl, a); }
                assert forall|a: usize| #[trigger] T.contains_key(a) <==> T0.contains_key(a) && a != cr by { }
                assert forall|a: usize, x: usize| #[trigger] adj(T, a, x) <==> a != cr && x != cr && adj(T5, a, x) by {
                    if T6.contains_key(a) { assert(T6[a] == T5[a]); assert(T5[a]@.no_duplicates()); lemma_rm(T6[a]@, cr); }
                }
                assert forall|a: usize, x: usize| #[trigger] adj(T, a, x) <==> a != cr && x != cr && (adj(T0, a, x) || (a == c1 && newn(T0, c1, cr, x)) || (x == c1 && newn(T0, c1, cr, a))) by {
                    lemma_in_pre_full(nn, x); lemma_in_pre_full(nn, a);
                    assert(adj(T5, a, x) <==> adj(T0, a, x) || (a == c1 && in_pre(nn, nn.len() as int, x)) || (x == c1 && in_pre(nn, nn.len() as int, a)));
                    assert(nn.contains(x) <==> newn(T0, c1, cr, x)); assert(nn.contains(a) <==> newn(T0, c1, cr, a));
                }
                assert(tab_ok(T, gn)) by {
                    assert forall|a: usize, x: usize| #[trigger] adj(T, a, x) implies T.contains_key(x) && x != a by {
                        if adj(T0, a, x) { } else if a == c1 { assert(adj(T0, cr, x)); } else { assert(adj(T0, cr, a)); }
                    }
                    assert forall|a: usize| T.contains_key(a) implies (#[trigger] T[a])@.no_duplicates() by { assert(T6[a] == T5[a]); assert(T5[a]@.no_duplicates()); lemma_rm(T6[a]@, cr); }
                }
                assert(low(E, T));
                assert forall|c: int| 0 <= c < tn(*t) implies (T.contains_key(c as usize) <==> (#[trigger] t.snode@[c])@.len() > 0) by {
                    assert(T0.contains_key(c as usize) <==> (t.snode@[c]@.len() > 0 || c == cr));
                }
                assert forall|r: int, c: int| #![trigger ent(E, r, c)] r != cr && c != cr implies ent(E, r, c) ==
                    nz(if is_pair(c1, r, c) && adj(T, c1, other(c1, r, c)) { Some(wt(*t, c1, other(c1, r, c))) } else { ent(E0, r, c) }) by {
                    let o = other(c1, r, c);
                    assert(ent(E, r, c) == nz(ent(E5, r, c)));
                    lemma_in_pre_full(nn, o);
                    assert(adj(T, c1, o) <==> o != cr && (adj(T0, c1, o) || newn(T0, c1, cr, o)));
                    assert(nn.contains(o) <==> newn(T0, c1, cr, o));
                }
            }
        }
//@end
//@fn file=src/solver/chordal/merge/clique_graph.rs in="MergeStrategy for CliqueGraphMergeStrategy" name=post_process_merge rules=posall,R17,zipidx:2=m;3=m
//@contract
        ensures
            // the post order lists n_cliques cliques; with a single clique left it is the non-empty one and no tree is built
            final(t).n_cliques == old(t).n_cliques, tn(*final(t)) == tn(*old(t)),
            old(t).n_cliques == 1 ==> final(t).snode_post@.len() == 1 && final(t).snode@[final(t).snode_post@[0] as int]@.len() > 0,
//@pre
        let ghost t0 = *t;
        let ghost mut t2 = *t;
        let ghost mut t3 = *t;
        proof { lemma_cnt_ne_bounds(t.snode@, tn(*t)); }
//@iter 1
it1
//@loop 1
            invariant
                t.snode@ == t0.snode@, it1.seq().len() == t0.snode@.len(), forall|c: int| 0 <= c < t0.snode@.len() ==> *(#[trigger] it1.seq()[c]) == t0.snode@[c],
                pa_i1 == it1.index@, t0.snode@.len() < 0x8000_0000, pa_out1@.len() == cnt_ne(t0.snode@, it1.index@ as int),
                forall|i: int| 0 <= i < pa_out1@.len() ==> #[trigger] pa_out1@[i] < it1.index@ && t0.snode@[pa_out1@[i] as int]@.len() > 0,
//@body_start 1
            let ghost po_b = pa_out1@;
            proof { assert(*x == t0.snode@[it1.index@ as int]); }
//@body_end 1
            proof { assert forall|i: int| 0 <= i < pa_out1@.len() implies #[trigger] pa_out1@[i] < it1.index@ + 1 && t0.snode@[pa_out1@[i] as int]@.len() > 0 by { if i < po_b.len() { assert(pa_out1@[i] == po_b[i]); } } }
//@before "if t.n_cliques > 1"
        proof {
            assert(t.snode_post@.len() == t0.n_cliques);
            assert forall|c: int| 0 <= c < tn(*t) implies (#[trigger] t.snode@[c])@.len() < 0x8000_0000 && t.separators@[c]@.len() < 0x8000_0000 by { lemma_sn_small(t0, c); assert(t0.separators@[c]@.len() < 0x8000_0000); }
            assert(pp_mid(*t));
            assert(sn_ok(*t));
            assert(self.core(*t));
        }
//@before_loop 2
        proof { t2 = *t; assert(pp_mid(t2) && t2.n_cliques == t0.n_cliques && t2.post == t0.post && tn(t2) == tn(t0)); }
//@loop 2
            invariant
                r14_n1 == tn(t2), t.snode@.len() == tn(t2), t.separators == t2.separators, t.snode_post == t2.snode_post, t.snode_parent == t2.snode_parent, t.snode_children == t2.snode_children,
                t.post == t2.post, t.n_cliques == t2.n_cliques, t.nblk == t2.nblk,
                forall|c: int| 0 <= c < tn(t2) ==> (#[trigger] t.snode@[c])@.len() == t2.snode@[c]@.len(),
//@body_start 2
            let ghost sn_b = t.snode@;
//@body_end 2
            proof { assert forall|c: int| 0 <= c < tn(t2) implies (#[trigger] t.snode@[c])@.len() == t2.snode@[c]@.len() by { if c != $var2 { assert(t.snode@[c] == sn_b[c]); } else { assert(same_members(t.snode@[c]@, sn_b[c]@)); } } }
//@before_loop 3
        proof { t3 = *t; }
//@loop 3
            invariant
                r14_n2 == tn(t2), t.separators@.len() == tn(t2), t.snode == t3.snode, t.snode_post == t2.snode_post, t.snode_parent == t2.snode_parent, t.snode_children == t2.snode_children,
                t.post == t2.post, t.n_cliques == t2.n_cliques, t.nblk == t2.nblk,
                forall|c: int| 0 <= c < tn(t2) ==> (#[trigger] t.separators@[c])@.len() == t2.separators@[c]@.len(),
//@body_start 3
            let ghost sp_b = t.separators@;
//@body_end 3
            proof { assert forall|c: int| 0 <= c < tn(t2) implies (#[trigger] t.separators@[c])@.len() == t2.separators@[c]@.len() by { if c != $var3 { assert(t.separators@[c] == sp_b[c]); } else { assert(same_members(t.separators@[c]@, sp_b[c]@)); } } }
//@post
        proof {
            assert forall|c: int| 0 <= c < tn(*t) implies (#[trigger] t.snode@[c])@.len() < 0x8000_0000 && t.separators@[c]@.len() < 0x8000_0000 by {
                assert(t.snode@[c]@.len() == t2.snode@[c]@.len()); assert(t3.snode@[c]@.len() == t2.snode@[c]@.len());
            }
        }
//@end
}
// the edge stored in slot s is permissible
pub open spec fn slot_perm(E: CscMatrix<isize>, T: Adj, sn: Seq<VertexSet>, s: int) -> bool { exists|c: int| #[trigger] in_col(E, s, c) && permissible(T, sn, E.rowval@[s], c as usize) }
pub open spec fn rb_ok(rb: Option<Option<(usize, usize)>>, E: CscMatrix<isize>, T: Adj, sn: Seq<VertexSet>) -> bool {
    match rb { Some(v) => (match v { Some(c) => stored(E, c.0 as int, c.1 as int) && permissible(T, sn, c.0, c.1), None => false }), None => true }
}

// ---- ghost vocabulary of update_strategy ----
pub open spec fn in_pre(s: Seq<usize>, i: int, x: usize) -> bool { exists|j: int| 0 <= j < i && s[j] == x }
pub proof fn lemma_in_pre_step(s: Seq<usize>, i: int, x: usize)
    requires 0 <= i < s.len(),
    ensures in_pre(s, i + 1, x) <==> in_pre(s, i, x) || s[i] == x,
{
    if in_pre(s, i + 1, x) { let j = choose|j: int| 0 <= j < i + 1 && s[j] == x; if j < i { assert(in_pre(s, i, x)); } }
    if in_pre(s, i, x) { let j = choose|j: int| 0 <= j < i && s[j] == x; assert(0 <= j < i + 1 && s[j] == x); }
    if s[i] == x { assert(0 <= i < i + 1 && s[i] == x); }
}
pub proof fn lemma_in_pre_full(s: Seq<usize>, x: usize)
    ensures in_pre(s, s.len() as int, x) <==> s.contains(x),
{
    if s.contains(x) { let j = choose|j: int| 0 <= j < s.len() && s[j] == x; assert(0 <= j < s.len() && s[j] == x); }
}
pub open spec fn ins1(s: Seq<usize>, v: usize) -> Seq<usize> { if s.contains(v) { s } else { s.push(v) } }
pub proof fn lemma_ins1(s: Seq<usize>, v: usize)
    ensures
        forall|x: usize| #[trigger] ins1(s, v).contains(x) <==> s.contains(x) || x == v,
        s.no_duplicates() ==> ins1(s, v).no_duplicates(),
{
    let r = ins1(s, v);
    assert forall|x: usize| #[trigger] r.contains(x) <==> s.contains(x) || x == v by {
        if r.contains(x) && !s.contains(v) { let j = choose|j: int| 0 <= j < r.len() && r[j] == x; if j < s.len() { assert(s[j] == x); } }
        if s.contains(x) { let j = choose|j: int| 0 <= j < s.len() && s[j] == x; assert(r[j] == x); }
        if x == v && !s.contains(v) { assert(r[s.len() as int] == v); }
    }
    if s.no_duplicates() && !s.contains(v) {
        assert forall|i: int, j: int| 0 <= i < r.len() && 0 <= j < r.len() && i != j implies r[i] != r[j] by {
            if i < s.len() && j < s.len() { } else if i < s.len() { assert(s.contains(s[i])); } else { assert(s.contains(s[j])); }
        }
    }
}
// neighbours of the removed clique that are neither the surviving clique nor one of its neighbours
pub open spec fn newn(T: Adj, c1: usize, cr: usize, x: usize) -> bool { adj(T, cr, x) && !adj(T, c1, x) && x != c1 }
pub open spec fn mx(a: usize, b: usize) -> int { if a >= b { a as int } else { b as int } }
pub open spec fn mn(a: usize, b: usize) -> int { if a <= b { a as int } else { b as int } }
// the cell (r, c) of the lower triangle is the edge between c1 and other(c1, r, c)
pub open spec fn is_pair(c1: usize, r: int, c: int) -> bool { (r == c1 || c == c1) && 0 <= c < r && r <= usize::MAX }
pub open spec fn other(c1: usize, r: int, c: int) -> usize { if r == c1 { c as usize } else { r as usize } }
pub open spec fn wt(t: SuperNodeTree, a: usize, b: usize) -> isize { metric(t.snode@[a as int]@, t.snode@[b as int]@) as isize }
// set_entry on a cell
pub open spec fn setv(old: Option<isize>, v: isize) -> Option<isize> { if old is Some || v != 0 { Some(v) } else { None } }
pub open spec fn zero(old: Option<isize>) -> Option<isize> { if old is Some { Some(0isize) } else { None } }
pub open spec fn eg_inv(E: CscMatrix<isize>, T: Adj, n: int) -> bool { canon(E) && E.m == n && E.n == n && low(E, T) }
pub open spec fn us_ctx(t: SuperNodeTree, T0: Adj, n: int, c1: usize, cr: usize) -> bool {
    &&& sn_ok(t) && tab_ok(T0, n) && n == tn(t) && T0.contains_key(c1) && T0.contains_key(cr) && cr < c1 < n
    &&& forall|c: int| 0 <= c < tn(t) ==> small(#[trigger] t.snode@[c]@)
}
pub proof fn lemma_has_range(E: CscMatrix<isize>, r: int, c: int)
    requires canon(E), stored(E, r, c),
    ensures 0 <= r < E.m, 0 <= c < E.n, ent(E, r, c) is Some,
{
    let k = slot(E, r, c);
    assert(in_col(E, k, c) && E.rowval@[k] == r);
    lemma_slot(E, k, c);
}

// Given the edge matrix, return the adjacency table with the nodes 0 .. num_vertices
// (a, x) is one of the first K stored slots, read in either direction
pub open spec fn pairs_upto(E: CscMatrix<isize>, K: int, a: usize, x: usize) -> bool {
    exists|k: int, c: int| #![trigger in_col(E, k, c)] 0 <= k < K && in_col(E, k, c) && ((a == c && x == E.rowval@[k]) || (x == c && a == E.rowval@[k]))
}
pub open spec fn strict_low(E: CscMatrix<isize>) -> bool { forall|r: int, c: int| #[trigger] stored(E, r, c) ==> 0 <= c < r }
pub proof fn lemma_pairs_step(E: CscMatrix<isize>, K: int, col: int, a: usize, x: usize)
    requires canon(E), in_col(E, K, col),
    ensures pairs_upto(E, K + 1, a, x) <==> pairs_upto(E, K, a, x) || (a == col && x == E.rowval@[K]) || (x == col && a == E.rowval@[K]),
{
    if pairs_upto(E, K + 1, a, x) {
        let (k, c) = choose|k: int, c: int| #![trigger in_col(E, k, c)] 0 <= k < K + 1 && in_col(E, k, c) && ((a == c && x == E.rowval@[k]) || (x == c && a == E.rowval@[k]));
        if k < K { assert(0 <= k < K && in_col(E, k, c)); } else { lemma_col_unique(E, K, c, col); }
    }
    if pairs_upto(E, K, a, x) {
        let (k, c) = choose|k: int, c: int| #![trigger in_col(E, k, c)] 0 <= k < K && in_col(E, k, c) && ((a == c && x == E.rowval@[k]) || (x == c && a == E.rowval@[k]));
        assert(0 <= k < K + 1 && in_col(E, k, c));
    }
    if (a == col && x == E.rowval@[K]) || (x == col && a == E.rowval@[K]) { assert(0 <= K < K + 1 && in_col(E, K, col)); }
}
pub proof fn lemma_pairs_all(E: CscMatrix<isize>, a: usize, x: usize)
    requires canon(E),
    ensures pairs_upto(E, E.nzval@.len() as int, a, x) <==> stored(E, a as int, x as int) || stored(E, x as int, a as int),
{
    if pairs_upto(E, E.nzval@.len() as int, a, x) {
        let (k, c) = choose|k: int, c: int| #![trigger in_col(E, k, c)] 0 <= k < E.nzval@.len() && in_col(E, k, c) && ((a == c && x == E.rowval@[k]) || (x == c && a == E.rowval@[k]));
        if a == c && x == E.rowval@[k] { assert(in_col(E, k, a as int) && E.rowval@[k] == x); } else { assert(in_col(E, k, x as int) && E.rowval@[k] == a); }
    }
    if stored(E, a as int, x as int) { let k = slot(E, a as int, x as int); lemma_slot(E, k, x as int); assert(0 <= k < E.nzval@.len() && in_col(E, k, x as int)); }
    if stored(E, x as int, a as int) { let k = slot(E, x as int, a as int); lemma_slot(E, k, a as int); assert(0 <= k < E.nzval@.len() && in_col(E, k, a as int)); }
}
//@fn file=src/solver/chordal/merge/clique_graph.rs name=compute_adjacency_table rules=R5 ret=r
//@contract
    requires canon(*edges), edges.m == num_vertices, edges.n == num_vertices, strict_low(*edges),
    ensures
        // one key per clique; x is listed as a neighbour of a (once) iff (a, x) or (x, a) is a stored edge
        forall|a: usize| #[trigger] r@.contains_key(a) <==> a < num_vertices,
        forall|a: usize, x: usize| #[trigger] adj(r@, a, x) <==> stored(*edges, a as int, x as int) || stored(*edges, x as int, a as int),
        tab_ok(r@, num_vertices as int),
//@loop 1
        invariant
            forall|a: usize| #[trigger] table@.contains_key(a) <==> a < $var1, forall|a: usize| table@.contains_key(a) ==> (#[trigger] table@[a])@ == Seq::<usize>::empty(),
//@before_loop 2
    let ghost E = *edges;
    proof { assert forall|a: usize, x: usize| !pairs_upto(E, 0, a, x) by { } }
//@loop 2
        invariant
            E == *edges, r@ == E.rowval@, c@ == E.colptr@, canon(E), E.m == num_vertices, E.n == num_vertices, strict_low(E),
            forall|a: usize| #[trigger] table@.contains_key(a) <==> a < num_vertices,
            forall|a: usize| table@.contains_key(a) ==> (#[trigger] table@[a])@.no_duplicates(),
            forall|a: usize, x: usize| #[trigger] adj(table@, a, x) <==> pairs_upto(E, E.colptr@[$var2 as int] as int, a, x),
//@body_start 2
        let ghost gc = $var2 as int;
        proof { assert(E.colptr@[gc] <= E.colptr@[gc + 1] <= E.colptr@[E.n as int]); }
//@iter 3
it3
//@loop 3
            invariant
                E == *edges, canon(E), E.m == num_vertices, E.n == num_vertices, strict_low(E), gc == col, 0 <= gc < E.n,
                it3.seq().len() == E.colptr@[gc + 1] - E.colptr@[gc], forall|k: int| 0 <= k < it3.seq().len() ==> *(#[trigger] it3.seq()[k]) == E.rowval@[E.colptr@[gc] + k],
                forall|a: usize| #[trigger] table@.contains_key(a) <==> a < num_vertices,
                forall|a: usize| table@.contains_key(a) ==> (#[trigger] table@[a])@.no_duplicates(),
                forall|a: usize, x: usize| #[trigger] adj(table@, a, x) <==> pairs_upto(E, E.colptr@[gc] + it3.index@, a, x),
//@body_start 3
            let ghost K = E.colptr@[gc] + it3.index@;
            let ghost Tb = table@;
            proof {
                assert(*row_r == E.rowval@[K]);
                assert(in_col(E, K, gc));
                lemma_slot(E, K, gc);
                assert(E.rowval@[K] < E.m);
                assert(Tb[*row_r]@.no_duplicates()); assert(Tb[col]@.no_duplicates());
            }
//@body_end 3
            proof {
                let Tc = table@;
                lemma_ins1(Tb[row]@, col);
                let Tm = Tb.insert(row, Tc[row]);
                assert(gc < row) by { assert(stored(E, row as int, gc)); }
                lemma_ins1(Tb[col]@, row);
                assert forall|a: usize| table@.contains_key(a) implies (#[trigger] table@[a])@.no_duplicates() by { if a != row && a != col { assert(Tc[a] == Tb[a]); assert(Tb[a]@.no_duplicates()); } }
                assert forall|a: usize, x: usize| #[trigger] adj(Tc, a, x) <==> pairs_upto(E, K + 1, a, x) by {
                    lemma_pairs_step(E, K, gc, a, x);
                    assert(adj(Tb, a, x) <==> pairs_upto(E, K, a, x));
                    if a != row && a != col && Tc.contains_key(a) { assert(Tc[a] == Tb[a]); }
                }
            }
//@post
    proof {
        assert forall|a: usize, x: usize| #[trigger] adj(r_v@, a, x) <==> stored(*edges, a as int, x as int) || stored(*edges, x as int, a as int) by { lemma_pairs_all(*edges, a, x); }
        assert forall|a: usize, x: usize| #[trigger] adj(r_v@, a, x) implies r_v@.contains_key(x) && x != a by {
            if stored(*edges, a as int, x as int) { lemma_has_range(*edges, a as int, x as int); } else { lemma_has_range(*edges, x as int, a as int); }
        }
    }
//@end

pub open spec fn cg_init_pre(t: SuperNodeTree) -> bool {
    &&& dims_ok(t) && 1 <= nv(t) <= 0x8_0000 && tn(t) >= 2 && t.n_cliques == tn(t)
    &&& forall|c: int| 0 <= c < tn(t) ==> (#[trigger] t.snode@[c])@.no_duplicates() && t.snode@[c]@.len() > 0
    &&& forall|c: int, k: int| 0 <= c < tn(t) && 0 <= k < t.snode@[c]@.len() ==> (#[trigger] t.snode@[c]@[k]) < nv(t)
    &&& forall|c: int| 0 <= c < tn(t) ==> (#[trigger] t.separators@[c])@.no_duplicates()
    &&& forall|c: int, k: int| 0 <= c < tn(t) && 0 <= k < t.separators@[c]@.len() ==> (#[trigger] t.separators@[c]@[k]) < nv(t)
}
pub proof fn lemma_cnt_ne_all(sn: Seq<VertexSet>, k: int)
    requires 0 <= k <= sn.len(), forall|c: int| 0 <= c < sn.len() ==> (#[trigger] sn[c])@.len() > 0,
    ensures cnt_ne(sn, k) == k,
    decreases k,
{ if k > 0 { lemma_cnt_ne_all(sn, k - 1); } }

// what post_process_merge knows before the final sorting of the sets
pub open spec fn pp_mid(t: SuperNodeTree) -> bool {
    &&& dims_ok(t) && 1 <= t.n_cliques <= tn(t) && t.snode_post@.len() == t.n_cliques
    &&& forall|i: int| 0 <= i < t.snode_post@.len() ==> #[trigger] t.snode_post@[i] < tn(t)
    &&& forall|c: int| 0 <= c < tn(t) ==> (#[trigger] t.snode@[c])@.len() < 0x8000_0000 && t.separators@[c]@.len() < 0x8000_0000
    &&& (t.n_cliques == 1 ==> t.snode@[t.snode_post@[0] as int]@.len() > 0)
}
impl CliqueGraphMergeStrategy {
    // ASSUMED as a whole (its parts clique_intersections, kruskal, determine_parent_cliques, assign_children, split_cliques are under
    // contract, the head and the tail of its body are verified as the slices ctg_build / ctg_split below).  NOT proved: the preconditions of
    // post_order (unit chordal_merge D2) and of split_cliques - see the header (open obligations O3..O5)
    #[verifier::external_body]
    fn clique_tree_from_graph(&mut self, t: &mut SuperNodeTree)
        requires old(self).core(*old(t)), old(t).n_cliques > 1, forall|c: int| 0 <= c < tn(*old(t)) ==> #[trigger] old(t).snode_parent@[c] == INACTIVE_NODE,
        ensures pp_mid(*final(t)), final(t).n_cliques == old(t).n_cliques, final(t).post == old(t).post, tn(*final(t)) == tn(*old(t)),
    { unimplemented!() }
}
// the neighbours of a key are clique numbers
pub proof fn lemma_nbrs_in_range(T: Adj, n: int, a: usize)
    requires tab_ok(T, n), T.contains_key(a),
    ensures forall|i: int| 0 <= i < T[a]@.len() ==> #[trigger] T[a]@[i] < n,
{
    assert forall|i: int| 0 <= i < T[a]@.len() implies #[trigger] T[a]@[i] < n by { assert(adj(T, a, T[a]@[i])); }
}


// ===================== the clique tree: maximum spanning tree of the clique graph =====================
// ---- DisjointSetUnion: ASSUMED here with the contracts PROVED in unit dsu (in_same_set, union: "exactly the classes of x and y are
// merged"; the rank budget of that unit is counted as `budget`); `new` (every element its own class: `(0..n).collect()`) by inspection ----
pub struct DisjointSetUnion { pub _p: Vec<usize>, pub g: Ghost<Seq<int>>, pub b: Ghost<int> }
impl DisjointSetUnion {
    pub open spec fn n(&self) -> int { self.g@.len() as int }
    pub open spec fn rep(&self, x: int) -> int { self.g@[x] }
    pub open spec fn budget(&self) -> int { self.b@ }
    #[verifier::external_body] pub fn new(n: usize) -> (r: Self)
        ensures r.n() == n, r.budget() == 0, forall|x: int| 0 <= x < n ==> #[trigger] r.rep(x) == x,
    { unimplemented!() }
    #[verifier::external_body] pub fn in_same_set(&mut self, x: usize, y: usize) -> (r: bool)
        requires x < old(self).n(), y < old(self).n(),
        ensures final(self).n() == old(self).n(), final(self).budget() == old(self).budget(), r == (old(self).rep(x as int) == old(self).rep(y as int)),
            forall|z: int| 0 <= z < old(self).n() ==> #[trigger] final(self).rep(z) == old(self).rep(z),
    { unimplemented!() }
    #[verifier::external_body] pub fn union(&mut self, x: usize, y: usize)
        requires x < old(self).n(), y < old(self).n(), old(self).budget() < usize::MAX,
        ensures final(self).n() == old(self).n(), final(self).budget() == old(self).budget() + 1,
            forall|a: int, c: int| 0 <= a < old(self).n() && 0 <= c < old(self).n() ==>
                ((#[trigger] final(self).rep(a) == #[trigger] final(self).rep(c)) <==>
                 (old(self).rep(a) == old(self).rep(c)
                  || ((old(self).rep(a) == old(self).rep(x as int) || old(self).rep(a) == old(self).rep(y as int))
                      && (old(self).rep(c) == old(self).rep(x as int) || old(self).rep(c) == old(self).rep(y as int))))),
    { unimplemented!() }
}
// the partition generated by the first j accepted edges: a and b lie in the same class
pub open spec fn same(es: Seq<(usize, usize)>, j: int, a: int, b: int) -> bool decreases j {
    if j <= 0 { a == b } else {
        same(es, j - 1, a, b) || ((same(es, j - 1, a, es[j - 1].0 as int) || same(es, j - 1, a, es[j - 1].1 as int)) && (same(es, j - 1, b, es[j - 1].0 as int) || same(es, j - 1, b, es[j - 1].1 as int)))
    }
}
// C17 (tree): the accepted edges form a FOREST - each one joins two different classes of the partition generated by those accepted before it
pub open spec fn es_forest(es: Seq<(usize, usize)>) -> bool { forall|j: int| 0 <= j < es.len() ==> !#[trigger] same(es, j, es[j].0 as int, es[j].1 as int) }
pub proof fn lemma_same_prefix(es: Seq<(usize, usize)>, e: (usize, usize), j: int, a: int, b: int)
    requires 0 <= j <= es.len(),
    ensures same(es.push(e), j, a, b) == same(es, j, a, b),
    decreases j,
{
    if j > 0 {
        let x = es[j - 1].0 as int; let y = es[j - 1].1 as int;
        assert(es.push(e)[j - 1] == es[j - 1]);
        lemma_same_prefix(es, e, j - 1, a, b); lemma_same_prefix(es, e, j - 1, a, x); lemma_same_prefix(es, e, j - 1, a, y);
        lemma_same_prefix(es, e, j - 1, b, x); lemma_same_prefix(es, e, j - 1, b, y);
    }
}
pub proof fn lemma_same_refl(es: Seq<(usize, usize)>, j: int, a: int) ensures same(es, j, a, a) decreases j { if j > 0 { lemma_same_refl(es, j - 1, a); } }
pub open spec fn eslot(E0: CscMatrix<isize>, p: Seq<usize>, I: Seq<usize>, J: Seq<usize>, i: int) -> bool { I[i] == E0.rowval@[p[i] as int] && in_col(E0, p[i] as int, J[i] as int) }
// what kruskal leaves behind: accepted edges es (in order) stored in the slots sl
pub open spec fn kruskal_post(E0: CscMatrix<isize>, E1: CscMatrix<isize>, num_cliques: int, es: Seq<(usize, usize)>, sl: Seq<usize>) -> bool {
    &&& E1.m == E0.m && E1.n == E0.n && E1.colptr == E0.colptr && E1.rowval == E0.rowval && E1.nzval@.len() == E0.nzval@.len()
    &&& es.len() == sl.len() && es_forest(es) && sl.no_duplicates()
    // an accepted edge is the edge of its slot
    &&& forall|j: int| 0 <= j < sl.len() ==> #[trigger] sl[j] < E0.nzval@.len() && in_col(E0, sl[j] as int, es[j].1 as int) && E0.rowval@[sl[j] as int] == es[j].0
    // exactly the accepted slots are marked with -1, every other value stays
    &&& forall|k: int| 0 <= k < E0.nzval@.len() ==> #[trigger] E1.nzval@[k] == (if sl.contains(k as usize) { -1isize } else { E0.nzval@[k] })
    // either num_cliques - 1 edges were found (early exit), or every stored edge joins two cliques of the same tree (spanning forest)
    &&& (es.len() >= num_cliques - 1 || forall|k: int, c: int| #[trigger] in_col(E0, k, c) ==> same(es, es.len() as int, E0.rowval@[k] as int, c))
}
//@fn file=src/solver/chordal/merge/clique_graph.rs name=kruskal rules=R3,zipidx:1=vv
//@contract
    requires canon(*old(E)), old(E).m == old(E).n, num_cliques >= 1,      // `num_cliques - 1`
    ensures exists|es: Seq<(usize, usize)>, sl: Seq<usize>| kruskal_post(*old(E), *final(E), num_cliques as int, es, sl),
//@pre
    let ghost E0 = *E;
    let ghost mut es: Seq<(usize, usize)> = Seq::empty();
    let ghost mut sl: Seq<usize> = Seq::empty();
    let ghost nnz = E.nzval@.len() as int;
    let ghost mut gp: Seq<usize> = Seq::empty();
    let ghost mut gI: Seq<usize> = Seq::empty();
    let ghost mut gJ: Seq<usize> = Seq::empty();
//@before "let mut num_edges_found = 0;"
    proof {
        gp = p@; gI = I@; gJ = J@;
        assert forall|i: int| 0 <= i < nnz implies #[trigger] eslot(E0, gp, gI, gJ, i) by { assert(p@[i] < p@.len()); }
    }
//@loop 1
        invariant
            gp == p@, gI == I@, gJ == J@, r14_n1 == nnz, nnz == E0.nzval@.len(), canon(E0), E0.m == E0.n, I@.len() == nnz, J@.len() == nnz, p@.len() == nnz, is_perm(p@), k_ctr == $var1, num_cliques >= 1,
            forall|i: int| 0 <= i < nnz ==> #[trigger] eslot(E0, gp, gI, gJ, i),
            E.m == E0.m && E.n == E0.n && E.colptr == E0.colptr && E.rowval == E0.rowval && E.nzval@.len() == nnz,
            connected_c.n() == E0.n, connected_c.budget() == es.len(), num_edges_found == es.len(), es.len() == sl.len(), es.len() <= $var1,
            forall|a: int, b: int| 0 <= a < E0.n && 0 <= b < E0.n ==> ((#[trigger] connected_c.rep(a) == #[trigger] connected_c.rep(b)) <==> same(es, es.len() as int, a, b)),
            es_forest(es), sl.no_duplicates(),
            forall|j: int| 0 <= j < sl.len() ==> #[trigger] sl[j] < nnz && in_col(E0, sl[j] as int, es[j].1 as int) && E0.rowval@[sl[j] as int] == es[j].0 && in_pre(p@, $var1 as int, sl[j]),
            forall|k: int| 0 <= k < nnz ==> #[trigger] E.nzval@[k] == (if sl.contains(k as usize) { -1isize } else { E0.nzval@[k] }),
            forall|i: int| 0 <= i < $var1 ==> same(es, es.len() as int, #[trigger] I@[i] as int, J@[i] as int),
        ensures
            es.len() == sl.len(), es_forest(es), sl.no_duplicates(),
            E.m == E0.m && E.n == E0.n && E.colptr == E0.colptr && E.rowval == E0.rowval && E.nzval@.len() == nnz,
            forall|j: int| 0 <= j < sl.len() ==> #[trigger] sl[j] < nnz && in_col(E0, sl[j] as int, es[j].1 as int) && E0.rowval@[sl[j] as int] == es[j].0,
            forall|k: int| 0 <= k < nnz ==> #[trigger] E.nzval@[k] == (if sl.contains(k as usize) { -1isize } else { E0.nzval@[k] }),
            es.len() >= num_cliques - 1 || forall|i: int| 0 <= i < nnz ==> same(es, es.len() as int, #[trigger] gI[i] as int, gJ[i] as int),
            is_perm(gp), gp.len() == nnz, forall|i: int| 0 <= i < nnz ==> #[trigger] eslot(E0, gp, gI, gJ, i),
//@body_start 1
        let ghost gi = $var1 as int;
        let ghost es_b = es;
        let ghost sl_b = sl;
        let ghost L = es.len() as int;
        let ghost nz_b = E.nzval@;
        let ghost d_b = connected_c;
        proof {
            assert(eslot(E0, gp, gI, gJ, gi));
            assert(p@[gi] < p@.len());
            lemma_slot(E0, p@[gi] as int, J@[gi] as int);
            assert(E0.rowval@[p@[gi] as int] < E0.m);
        }
//@after "connected_c.union(row, col);"
            proof {
                es = es_b.push((row, col));
                sl = sl_b.push(p@[gi]);
                assert forall|a: int, b: int| 0 <= a < E0.n && 0 <= b < E0.n implies ((#[trigger] connected_c.rep(a) == #[trigger] connected_c.rep(b)) <==> same(es, L + 1, a, b)) by {
                    lemma_same_prefix(es_b, (row, col), L, a, b); lemma_same_prefix(es_b, (row, col), L, a, row as int); lemma_same_prefix(es_b, (row, col), L, a, col as int);
                    lemma_same_prefix(es_b, (row, col), L, b, row as int); lemma_same_prefix(es_b, (row, col), L, b, col as int);
                    assert(es[L] == (row, col));
                    assert(d_b.rep(a) == d_b.rep(b) <==> same(es_b, L, a, b));
                    assert(d_b.rep(a) == d_b.rep(row as int) <==> same(es_b, L, a, row as int));
                    assert(d_b.rep(a) == d_b.rep(col as int) <==> same(es_b, L, a, col as int));
                    assert(d_b.rep(b) == d_b.rep(row as int) <==> same(es_b, L, b, row as int));
                    assert(d_b.rep(b) == d_b.rep(col as int) <==> same(es_b, L, b, col as int));
                }
                assert(es_forest(es)) by {
                    assert forall|j: int| 0 <= j < es.len() implies !#[trigger] same(es, j, es[j].0 as int, es[j].1 as int) by {
                        lemma_same_prefix(es_b, (row, col), j, es[j].0 as int, es[j].1 as int);
                        if j < L { assert(es[j] == es_b[j]); assert(!same(es_b, j, es_b[j].0 as int, es_b[j].1 as int)); }
                        else { assert(d_b.rep(row as int) == d_b.rep(col as int) <==> same(es_b, L, row as int, col as int)); }
                    }
                }
                assert(!sl_b.contains(p@[gi])) by {
                    if sl_b.contains(p@[gi]) {
                        let j = choose|j: int| 0 <= j < sl_b.len() && sl_b[j] == p@[gi];
                        assert(in_pre(p@, gi, sl_b[j]));
                        let i2 = choose|i2: int| 0 <= i2 < gi && p@[i2] == sl_b[j];
                        assert(p@[i2] == p@[gi]);
                    }
                }
                assert(sl.no_duplicates()) by {
                    assert forall|i: int, j: int| 0 <= i < sl.len() && 0 <= j < sl.len() && i != j implies sl[i] != sl[j] by {
                        if i < L && j < L { assert(sl_b[i] != sl_b[j]); } else if i < L { assert(sl_b.contains(sl_b[i])); } else { assert(sl_b.contains(sl_b[j])); }
                    }
                }
                assert forall|i: int| 0 <= i < gi + 1 implies same(es, L + 1, #[trigger] I@[i] as int, J@[i] as int) by {
                    lemma_same_prefix(es_b, (row, col), L, I@[i] as int, J@[i] as int);
                    assert(es[L] == (row, col));
                    if i == gi { lemma_same_refl(es, L, row as int); lemma_same_refl(es, L, col as int); }
                }
            }
//@after "E.nzval[p[k]] = -1;"
            proof {
                assert forall|j: int| 0 <= j < sl.len() implies #[trigger] sl[j] < nnz && in_col(E0, sl[j] as int, es[j].1 as int) && E0.rowval@[sl[j] as int] == es[j].0 && in_pre(p@, gi + 1, sl[j]) by {
                    if j < L { assert(sl[j] == sl_b[j] && es[j] == es_b[j]); assert(in_pre(p@, gi, sl_b[j])); lemma_in_pre_step(p@, gi, sl[j]); }
                    else { lemma_in_pre_step(p@, gi, sl[j]); }
                }
                assert forall|k: int| 0 <= k < nnz implies #[trigger] E.nzval@[k] == (if sl.contains(k as usize) { -1isize } else { E0.nzval@[k] }) by {
                    assert(nz_b[k] == (if sl_b.contains(k as usize) { -1isize } else { E0.nzval@[k] }));
                    if sl_b.contains(k as usize) { let j = choose|j: int| 0 <= j < sl_b.len() && sl_b[j] == k as usize; assert(sl[j] == k as usize); }
                    if k == p@[gi] { assert(sl[L] == k as usize); }
                    if sl.contains(k as usize) && k != p@[gi] { let j = choose|j: int| 0 <= j < sl.len() && sl[j] == k as usize; assert(sl_b[j] == k as usize); }
                }
            }
//@body_end 1
        proof {
            if es.len() == L {
                assert forall|j: int| 0 <= j < sl.len() implies #[trigger] sl[j] < nnz && in_col(E0, sl[j] as int, es[j].1 as int) && E0.rowval@[sl[j] as int] == es[j].0 && in_pre(p@, gi + 1, sl[j]) by {
                    assert(in_pre(p@, gi, sl[j])); lemma_in_pre_step(p@, gi, sl[j]);
                }
                assert(same(es, L, I@[gi] as int, J@[gi] as int)) by { assert(connected_c.rep(row as int) == connected_c.rep(col as int) <==> same(es, L, row as int, col as int)); }
            }
        }
//@post
    proof {
        assert(es.len() >= num_cliques - 1 || forall|k: int, c: int| #[trigger] in_col(E0, k, c) ==> same(es, es.len() as int, E0.rowval@[k] as int, c)) by {
            if es.len() < num_cliques - 1 {
                assert forall|k: int, c: int| #[trigger] in_col(E0, k, c) implies same(es, es.len() as int, E0.rowval@[k] as int, c) by {
                    lemma_slot(E0, k, c);
                    assert(gp.contains(k as usize));
                    let i = choose|i: int| 0 <= i < gp.len() && gp[i] == k as usize;
                    assert(same(es, es.len() as int, gI[i] as int, gJ[i] as int));
                    assert(eslot(E0, gp, gI, gJ, i));
                    lemma_col_unique(E0, k, c, gJ[i] as int);
                }
            }
        }
        assert(kruskal_post(E0, *E, num_cliques as int, es, sl));
    }
//@end

// replace the value of every stored edge by |C_row n C_col|
//@fn file=src/solver/chordal/merge/clique_graph.rs name=clique_intersections
//@contract
    requires canon(*old(E)), old(E).m <= snd@.len(), old(E).n <= snd@.len(), forall|c: int| 0 <= c < snd@.len() ==> (#[trigger] snd@[c])@.len() < 0x8000_0000,
    ensures
        final(E).m == old(E).m && final(E).n == old(E).n && final(E).colptr == old(E).colptr && final(E).rowval == old(E).rowval && final(E).nzval@.len() == old(E).nzval@.len(),
        forall|k: int, c: int| #[trigger] in_col(*old(E), k, c) ==> final(E).nzval@[k] == idim(snd@[old(E).rowval@[k] as int]@, snd@[c]@),
//@pre
    let ghost E0 = *E;
//@loop 1
        invariant
            canon(E0), E0.m <= snd@.len(), E0.n <= snd@.len(), forall|c: int| 0 <= c < snd@.len() ==> (#[trigger] snd@[c])@.len() < 0x8000_0000, rows@ == E0.rowval@,
            E.m == E0.m && E.n == E0.n && E.colptr == E0.colptr && E.rowval == E0.rowval && E.nzval@.len() == E0.nzval@.len(),
            forall|k: int, c: int| #[trigger] in_col(E0, k, c) && c < $var1 ==> E.nzval@[k] == idim(snd@[E0.rowval@[k] as int]@, snd@[c]@),
//@body_start 1
        let ghost gc = $var1 as int;
        proof { assert(E0.colptr@[gc] <= E0.colptr@[gc + 1] <= E0.colptr@[E0.n as int]); }
//@loop 2
            invariant
                canon(E0), E0.m <= snd@.len(), E0.n <= snd@.len(), forall|c: int| 0 <= c < snd@.len() ==> (#[trigger] snd@[c])@.len() < 0x8000_0000, rows@ == E0.rowval@,
                E.m == E0.m && E.n == E0.n && E.colptr == E0.colptr && E.rowval == E0.rowval && E.nzval@.len() == E0.nzval@.len(), gc == col, 0 <= gc < E0.n,
                E0.colptr@[gc] <= $var2, E0.colptr@[gc + 1] <= E0.nzval@.len(),
                forall|k: int, c: int| #[trigger] in_col(E0, k, c) && (c < gc || (c == gc && k < $var2)) ==> E.nzval@[k] == idim(snd@[E0.rowval@[k] as int]@, snd@[c]@),
//@body_start 2
            let ghost gj = $var2 as int;
            let ghost nz_b = E.nzval@;
            proof { assert(in_col(E0, gj, gc)); lemma_slot(E0, gj, gc); assert(E0.rowval@[gj] < E0.m); }
//@body_end 2
            proof {
                assert forall|k: int, c: int| #[trigger] in_col(E0, k, c) && (c < gc || (c == gc && k < gj + 1)) implies E.nzval@[k] == idim(snd@[E0.rowval@[k] as int]@, snd@[c]@) by {
                    if k != gj { assert(E.nzval@[k] == nz_b[k]); }
                    else { lemma_col_unique(E0, k, c, gc); }
                }
            }
//@end
pub proof fn lemma_canon_same(A: CscMatrix<isize>, B: CscMatrix<isize>)
    requires canon(A), B.m == A.m, B.n == A.n, B.colptr == A.colptr, B.rowval == A.rowval, B.nzval@.len() == A.nzval@.len(),
    ensures canon(B),
{
    assert forall|c: int, k1: int, k2: int| #![trigger in_col(B, k1, c), in_col(B, k2, c)] in_col(B, k1, c) && in_col(B, k2, c) && k1 < k2 implies B.rowval@[k1] < B.rowval@[k2] by {
        assert(in_col(A, k1, c) && in_col(A, k2, c));
    }
}
pub proof fn lemma_col_unique2(A: CscMatrix<isize>, k1: int, c1: int, k2: int, c2: int)
    requires canon(A), in_col(A, k1, c1), in_col(A, k2, c2), c1 < c2,
    ensures k1 < k2,
{ assert(A.colptr@[c1 + 1] <= A.colptr@[c2]); }

// Find all the cliques connected to `c`: the nonzeros in `(c, 0..c)` and `(c+1.., c)`
//@fn file=src/solver/chordal/merge/clique_graph.rs name=find_neighbors rules=extid ret=r
//@contract
    requires canon(*edges), edges.m == edges.n, c < edges.n,      // `n - 1` underflows for an empty matrix; get_entry asserts row < nrows
    ensures
        // x is listed iff (c, x) is a stored non-zero (x < c) or (x, c) is stored (x > c, looked at only if c is not the last column)
        forall|x: usize| #[trigger] r@.contains(x) <==> (x < c && nz(ent(*edges, c as int, x as int)) is Some) || (c < edges.n - 1 && stored(*edges, x as int, c as int)),
        forall|i: int| 0 <= i < r@.len() ==> #[trigger] r@[i] < edges.n,
//@pre
    let ghost mut nb1: Seq<usize> = Seq::empty();
//@loop 1
            invariant
                canon(*edges), edges.m == edges.n, c < edges.n, n == edges.n,
                forall|x: usize| #[trigger] neighbors@.contains(x) <==> (x < $var1 && nz(ent(*edges, c as int, x as int)) is Some),
//@body_start 1
            let ghost nb_b = neighbors@;
//@body_end 1
            proof {
                assert forall|x: usize| #[trigger] neighbors@.contains(x) <==> (x < $var1 + 1 && nz(ent(*edges, c as int, x as int)) is Some) by {
                    if neighbors@.len() == nb_b.len() { assert(neighbors@ == nb_b); }
                    else {
                        assert(neighbors@ == nb_b.push($var1));
                        if neighbors@.contains(x) { let j = choose|j: int| 0 <= j < neighbors@.len() && neighbors@[j] == x; if j < nb_b.len() { assert(nb_b[j] == x); } }
                        if nb_b.contains(x) { let j = choose|j: int| 0 <= j < nb_b.len() && nb_b[j] == x; assert(neighbors@[j] == x); }
                        if x == $var1 { assert(neighbors@[nb_b.len() as int] == x); }
                    }
                }
            }
//@before "if c < (n - 1)"
    proof {
        nb1 = neighbors@;
        if c == 0 { assert forall|x: usize| #[trigger] nb1.contains(x) <==> (x < c && nz(ent(*edges, c as int, x as int)) is Some) by { } }
        assert(edges.colptr@[c as int] <= edges.colptr@[c + 1] <= edges.colptr@[edges.n as int]);
    }
//@post
    proof {
        let lo = edges.colptr@[c as int] as int; let hi = edges.colptr@[c + 1] as int;
        assert forall|x: usize| #[trigger] r_v@.contains(x) <==> (x < c && nz(ent(*edges, c as int, x as int)) is Some) || (c < edges.n - 1 && stored(*edges, x as int, c as int)) by {
            if c < edges.n - 1 {
                let rws = edges.rowval@.subrange(lo, hi);
                if lo < hi { assert(r_v@ == nb1 + rws); } else { assert(r_v@ == nb1); }
                if lo < hi { lemma_concat_contains(nb1, rws); }
                if stored(*edges, x as int, c as int) { let k = slot(*edges, x as int, c as int); assert(in_col(*edges, k, c as int)); assert(rws[k - lo] == x); }
                if lo < hi && rws.contains(x) { let j = choose|j: int| 0 <= j < rws.len() && rws[j] == x; assert(in_col(*edges, lo + j, c as int) && edges.rowval@[lo + j] == x); }
            } else { assert(r_v@ == nb1); }
        }
        assert forall|i: int| 0 <= i < r_v@.len() implies #[trigger] r_v@[i] < edges.n by {
            assert(r_v@.contains(r_v@[i]));
            if stored(*edges, r_v@[i] as int, c as int) { lemma_has_range(*edges, r_v@[i] as int, c as int); }
        }
    }
//@end

// Traverse the clique tree in descending topological order and split the clique sets into supernodes and separators
pub proof fn lemma_inter_nodup(a: Seq<usize>, b: Seq<usize>, k: int)
    requires 0 <= k <= a.len(), a.no_duplicates(),
    ensures inter_k(a, b, k).no_duplicates(), forall|i: int| 0 <= i < inter_k(a, b, k).len() ==> in_pre(a, k, #[trigger] inter_k(a, b, k)[i]),
    decreases k,
{
    if k > 0 {
        lemma_inter_nodup(a, b, k - 1);
        let r = inter_k(a, b, k - 1); let cur = inter_k(a, b, k);
        assert forall|i: int| 0 <= i < cur.len() implies in_pre(a, k, #[trigger] cur[i]) by {
            lemma_in_pre_step(a, k - 1, cur[i]);
            if i < r.len() { assert(cur[i] == r[i]); assert(in_pre(a, k - 1, r[i])); }
        }
        if b.contains(a[k - 1]) {
            assert forall|i: int, j: int| 0 <= i < cur.len() && 0 <= j < cur.len() && i != j implies cur[i] != cur[j] by {
                if i < r.len() && j < r.len() { assert(r[i] != r[j]); }
                else if i < r.len() { assert(in_pre(a, k - 1, r[i])); let q = choose|q: int| 0 <= q < k - 1 && a[q] == r[i]; assert(a[q] != a[k - 1]); }
                else { assert(in_pre(a, k - 1, r[j])); let q = choose|q: int| 0 <= q < k - 1 && a[q] == r[j]; assert(a[q] != a[k - 1]); }
            }
        }
    }
}
pub proof fn lemma_diff_k(a: Seq<usize>, b: Seq<usize>, k: int)
    requires 0 <= k <= a.len(),
    ensures forall|i: int| 0 <= i < diff_k(a, b, k).len() ==> in_pre(a, k, #[trigger] diff_k(a, b, k)[i]) && !b.contains(diff_k(a, b, k)[i]),
    decreases k,
{
    if k > 0 {
        lemma_diff_k(a, b, k - 1);
        let r = diff_k(a, b, k - 1); let cur = diff_k(a, b, k);
        assert forall|i: int| 0 <= i < cur.len() implies in_pre(a, k, #[trigger] cur[i]) && !b.contains(cur[i]) by {
            lemma_in_pre_step(a, k - 1, cur[i]);
            if i < r.len() { assert(cur[i] == r[i]); assert(in_pre(a, k - 1, r[i])); }
        }
    }
}
// the first nc - 1 cliques of the post order (all but the root) have a parent, come before it, and are listed once
pub open spec fn split_pre(parent: Seq<usize>, post: Seq<usize>, nc: int, n: int) -> bool {
    &&& 1 <= nc && nc - 1 <= post.len() && parent.len() == n
    &&& forall|j: int| 0 <= j < nc - 1 ==> #[trigger] post[j] < n && parent[post[j] as int] < n
    &&& forall|i: int, j: int| 0 <= i < j < nc - 1 ==> post[i] != post[j]
    &&& forall|i: int, j: int| 0 <= i <= j < nc - 1 ==> post[i] != parent[post[j] as int]
}
//@fn file=src/solver/chordal/merge/clique_graph.rs name=split_cliques rules=extfilter
//@contract
    requires
        old(snode)@.len() == snode_parent@.len(), old(separators)@.len() == snode_parent@.len(),
        // `num_cliques - 1`; `snode[p_ind]` panics for a clique without parent (INACTIVE_NODE / NO_PARENT are huge indices)
        split_pre(snode_parent@, snode_post@, num_cliques as int, snode_parent@.len() as int),
        forall|c: int| 0 <= c < old(snode)@.len() ==> (#[trigger] old(snode)@[c])@.no_duplicates(),
    ensures
        final(snode)@.len() == old(snode)@.len(), final(separators)@.len() == old(separators)@.len(),
        // C17: each clique's separator is its intersection with its PARENT clique (in the order of the clique), its supernode is the rest
        forall|j: int| 0 <= j < num_cliques - 1 ==> (#[trigger] final(separators)@[snode_post@[j] as int])@ == inter(old(snode)@[snode_post@[j] as int]@, old(snode)@[snode_parent@[snode_post@[j] as int] as int]@),
        forall|j: int| 0 <= j < num_cliques - 1 ==> (#[trigger] final(snode)@[snode_post@[j] as int])@ ==
            diff_k(old(snode)@[snode_post@[j] as int]@, final(separators)@[snode_post@[j] as int]@, old(snode)@[snode_post@[j] as int]@.len() as int),
        // the root and the cliques outside the tree are not touched
        forall|c: usize| c < old(snode)@.len() && !in_pre(snode_post@, num_cliques - 1, c) ==> #[trigger] final(snode)@[c as int] == old(snode)@[c as int],
        forall|c: usize| c < old(snode)@.len() && !in_pre(snode_post@, num_cliques - 1, c) ==> #[trigger] final(separators)@[c as int] == old(separators)@[c as int],
//@pre
    let ghost sn0 = snode@;
    let ghost sp0 = separators@;
    let ghost n_ = snode_parent@.len() as int;
//@loop 1
        invariant
            snode@.len() == n_, separators@.len() == n_, sn0.len() == n_, sp0.len() == n_, split_pre(snode_parent@, snode_post@, num_cliques as int, n_),
            forall|c: int| 0 <= c < n_ ==> (#[trigger] sn0[c])@.no_duplicates(),
            forall|i: int| 0 <= i < $var1 ==> (#[trigger] separators@[snode_post@[i] as int])@ == inter(sn0[snode_post@[i] as int]@, sn0[snode_parent@[snode_post@[i] as int] as int]@),
            forall|i: int| 0 <= i < $var1 ==> (#[trigger] snode@[snode_post@[i] as int])@ == diff_k(sn0[snode_post@[i] as int]@, separators@[snode_post@[i] as int]@, sn0[snode_post@[i] as int]@.len() as int),
            forall|c: usize| c < n_ && !in_pre(snode_post@, $var1 as int, c) ==> #[trigger] snode@[c as int] == sn0[c as int],
            forall|c: usize| c < n_ && !in_pre(snode_post@, $var1 as int, c) ==> #[trigger] separators@[c as int] == sp0[c as int],
//@body_start 1
        let ghost gj = $var1 as int;
        let ghost sn_b = snode@;
        let ghost sp_b = separators@;
        let ghost gc = snode_post@[gj] as int;
        let ghost gp = snode_parent@[gc] as int;
        proof {
            assert(snode_post@[gj] < n_ && snode_parent@[snode_post@[gj] as int] < n_);
            assert(!in_pre(snode_post@, gj, gc as usize)) by { if in_pre(snode_post@, gj, gc as usize) { let i = choose|i: int| 0 <= i < gj && snode_post@[i] == gc as usize; assert(snode_post@[i] != snode_post@[gj]); } }
            assert(!in_pre(snode_post@, gj, gp as usize)) by { if in_pre(snode_post@, gj, gp as usize) { let i = choose|i: int| 0 <= i < gj && snode_post@[i] == gp as usize; assert(snode_post@[i] != snode_parent@[snode_post@[gj] as int]); } }
            assert(gp != gc) by { assert(snode_post@[gj] != snode_parent@[snode_post@[gj] as int]); }
            assert(sn_b[gc] == sn0[gc] && sn_b[gp] == sn0[gp]);
            assert(sn0[gc]@.no_duplicates());
        }
//@after "separators[c_ind].extend(snode[c_ind].intersection(&snode[p_ind]));"
        proof {
            let a = sn0[gc]@; let b = sn0[gp]@; let it = inter(a, b);
            lemma_inter_nodup(a, b, a.len() as int);
            lemma_ins_all_full(Seq::<usize>::empty(), it);
            assert(disjoint(Seq::<usize>::empty(), it));
            assert(Seq::<usize>::empty() + it == it);
            assert(separators@[gc]@ == it);
        }
//@iter 2
it2
//@loop 2
            invariant
                snode@ == sn_b, separators@.len() == n_, c_ind == gc, 0 <= gc < n_, sn_b[gc] == sn0[gc], sn0[gc]@.no_duplicates(),
                it2.seq().len() == sn0[gc]@.len(), forall|k: int| 0 <= k < sn0[gc]@.len() ==> *(#[trigger] it2.seq()[k]) == sn0[gc]@[k],
                tmp@ == diff_k(sn0[gc]@, separators@[gc]@, it2.index@ as int),
//@body_start 2
            let ghost gk = it2.index@ as int;
            proof {
                assert(*s == sn0[gc]@[gk]);
                lemma_diff_k(sn0[gc]@, separators@[gc]@, gk);
                if tmp@.contains(*s) {
                    let i = choose|i: int| 0 <= i < tmp@.len() && tmp@[i] == *s;
                    assert(in_pre(sn0[gc]@, gk, tmp@[i]));
                    let q = choose|q: int| 0 <= q < gk && sn0[gc]@[q] == tmp@[i];
                    assert(sn0[gc]@[q] != sn0[gc]@[gk]);
                }
            }
//@body_end 1
        proof {
            assert forall|i: int| 0 <= i < gj + 1 implies (#[trigger] separators@[snode_post@[i] as int])@ == inter(sn0[snode_post@[i] as int]@, sn0[snode_parent@[snode_post@[i] as int] as int]@) by {
                if i < gj { assert(snode_post@[i] != snode_post@[gj]); assert(separators@[snode_post@[i] as int] == sp_b[snode_post@[i] as int]); }
            }
            assert forall|i: int| 0 <= i < gj + 1 implies (#[trigger] snode@[snode_post@[i] as int])@ == diff_k(sn0[snode_post@[i] as int]@, separators@[snode_post@[i] as int]@, sn0[snode_post@[i] as int]@.len() as int) by {
                if i < gj { assert(snode_post@[i] != snode_post@[gj]); assert(snode@[snode_post@[i] as int] == sn_b[snode_post@[i] as int]); assert(separators@[snode_post@[i] as int] == sp_b[snode_post@[i] as int]); }
            }
            assert forall|c: usize| c < n_ && !in_pre(snode_post@, gj + 1, c) implies #[trigger] snode@[c as int] == sn0[c as int] by {
                lemma_in_pre_step(snode_post@, gj, c);
                assert(c != gc);
                assert(snode@[c as int] == sn_b[c as int]);
            }
            assert forall|c: usize| c < n_ && !in_pre(snode_post@, gj + 1, c) implies #[trigger] separators@[c as int] == sp0[c as int] by {
                lemma_in_pre_step(snode_post@, gj, c);
                assert(c != gc);
                assert(separators@[c as int] == sp_b[c as int]);
            }
        }
//@end

// the edge between a and b is marked as a tree edge
pub open spec fn marked(E: CscMatrix<isize>, a: usize, b: usize) -> bool { ent(E, mx(a, b), mn(a, b)) == Some(-1isize) }
// assign children to cliques along the spanning tree.  PARTIAL CORRECTNESS ONLY: termination needs the marked edges to be acyclic (kruskal's
// es_forest) and is not proved (`exec_allows_no_decreases_clause`); with a cycle of marked edges the loop does not terminate
//@fn file=src/solver/chordal/merge/clique_graph.rs name=assign_children rules=R18 attrs="#[verifier::exec_allows_no_decreases_clause]"
//@contract
    requires canon(*edges), edges.m == edges.n, old(snode_parent)@.len() == edges.n, old(snode_children)@.len() == edges.n, c < edges.n,
    ensures
        final(snode_parent)@.len() == old(snode_parent)@.len(), final(snode_children)@.len() == old(snode_children)@.len(),
        // every new parent pointer / child entry runs along a marked edge of the clique graph
        forall|x: int| 0 <= x < old(snode_parent)@.len() ==> #[trigger] final(snode_parent)@[x] == old(snode_parent)@[x] || (final(snode_parent)@[x] < edges.n && marked(*edges, final(snode_parent)@[x], x as usize)),
        forall|q: int, v: usize| 0 <= q < old(snode_children)@.len() && #[trigger] final(snode_children)@[q]@.contains(v) ==> old(snode_children)@[q]@.contains(v) || (v < edges.n && marked(*edges, q as usize, v)),
//@pre
    let ghost par0 = snode_parent@;
    let ghost ch0 = snode_children@;
    let ghost n_ = edges.n as int;
//@loop 1
        invariant
            canon(*edges), edges.m == edges.n, n_ == edges.n, snode_parent@.len() == n_, snode_children@.len() == n_, par0.len() == n_, ch0.len() == n_,
            forall|i: int| 0 <= i < stack@.len() ==> #[trigger] stack@[i] < n_,
            forall|x: int| 0 <= x < n_ ==> #[trigger] snode_parent@[x] == par0[x] || (snode_parent@[x] < n_ && marked(*edges, snode_parent@[x], x as usize)),
            forall|q: int, v: usize| 0 <= q < n_ && #[trigger] snode_children@[q]@.contains(v) ==> ch0[q]@.contains(v) || (v < n_ && marked(*edges, q as usize, v)),
//@body_start 1
        proof { assert(c < n_); }
//@before_loop 2
        let ghost nb = neighbors@;
//@iter 2
it2
//@loop 2
            invariant
                canon(*edges), edges.m == edges.n, n_ == edges.n, snode_parent@.len() == n_, snode_children@.len() == n_, par0.len() == n_, ch0.len() == n_, c < n_,
                it2.seq() == nb, forall|i: int| 0 <= i < nb.len() ==> #[trigger] nb[i] < n_,
                forall|i: int| 0 <= i < stack@.len() ==> #[trigger] stack@[i] < n_,
                forall|x: int| 0 <= x < n_ ==> #[trigger] snode_parent@[x] == par0[x] || (snode_parent@[x] < n_ && marked(*edges, snode_parent@[x], x as usize)),
                forall|q: int, v: usize| 0 <= q < n_ && #[trigger] snode_children@[q]@.contains(v) ==> ch0[q]@.contains(v) || (v < n_ && marked(*edges, q as usize, v)),
//@body_start 2
            let ghost par_b = snode_parent@;
            let ghost ch_b = snode_children@;
            let ghost st_b = stack@;
            proof { assert(n == nb[it2.index@ as int]); }
//@body_end 2
            proof {
                assert forall|x: int| 0 <= x < n_ implies #[trigger] snode_parent@[x] == par0[x] || (snode_parent@[x] < n_ && marked(*edges, snode_parent@[x], x as usize)) by {
                    if snode_parent@[x] != par_b[x] { assert(x == n && snode_parent@[x] == c); assert(mx(c, n) == mx(n, c) && mn(c, n) == mn(n, c)); }
                }
                assert forall|q: int, v: usize| 0 <= q < n_ && #[trigger] snode_children@[q]@.contains(v) implies ch0[q]@.contains(v) || (v < n_ && marked(*edges, q as usize, v)) by {
                    if snode_children@[q] != ch_b[q] { assert(q == c); lemma_ins1(ch_b[q]@, n); assert(snode_children@[q]@ == ins1(ch_b[q]@, n)); if v != n { assert(ch_b[q]@.contains(v)); } }
                    else { assert(ch_b[q]@.contains(v)); }
                }
                assert forall|i: int| 0 <= i < stack@.len() implies #[trigger] stack@[i] < n_ by { if i < st_b.len() { assert(stack@[i] == st_b[i]); } }
            }
//@end

// Given the spanning tree marked in `E`, determine a parent structure for the clique tree: the root is the first clique that contains the
// vertex of highest order
//@fn file=src/solver/chordal/merge/clique_graph.rs name=determine_parent_cliques rules=R3
//@contract
    requires
        canon(*E), E.m == E.n, old(snode_parent)@.len() == E.n, old(snode_children)@.len() == E.n, cliques@.len() == E.n,
        post@.len() >= 1,      // `post.last().unwrap()`
        E.n >= 1,              // no clique contains the vertex: c stays 0 and assign_children starts at clique 0
    ensures
        final(snode_parent)@.len() == old(snode_parent)@.len(), final(snode_children)@.len() == old(snode_children)@.len(),
        // the root: the first clique containing the last vertex of the post order gets NO_PARENT; every other new parent pointer runs
        // along a marked edge
        forall|x: int| 0 <= x < old(snode_parent)@.len() ==> #[trigger] final(snode_parent)@[x] == old(snode_parent)@[x]
            || (final(snode_parent)@[x] == NO_PARENT && is_first_with(cliques@, post@.last(), x))
            || (final(snode_parent)@[x] < E.n && marked(*E, final(snode_parent)@[x], x as usize)),
        (exists|x: int| 0 <= x < cliques@.len() && #[trigger] cliques@[x]@.contains(post@.last())) ==> exists|x: int| #[trigger] is_first_with(cliques@, post@.last(), x) &&
            (final(snode_parent)@[x] == NO_PARENT || (final(snode_parent)@[x] < E.n && marked(*E, final(snode_parent)@[x], x as usize))),
//@pre
    let ghost par0 = snode_parent@;
    let ghost mut groot: int = -1;
//@iter 1
it1
//@loop 1
        invariant_except_break
            c == 0, snode_parent@ == par0, forall|x: int| 0 <= x < it1.index@ ==> !(#[trigger] cliques@[x])@.contains(*v),
        invariant
            k_ctr == it1.index@, *v == post@.last(), snode_parent@.len() == par0.len(), par0.len() == cliques@.len(), cliques@.len() <= usize::MAX,
            it1.seq().len() == cliques@.len(), forall|x: int| 0 <= x < cliques@.len() ==> *(#[trigger] it1.seq()[x]) == cliques@[x], groot == -1,
        ensures
            c < cliques@.len() || cliques@.len() == 0, snode_parent@.len() == par0.len(),
            (forall|x: int| 0 <= x < cliques@.len() ==> !(#[trigger] cliques@[x])@.contains(*v)) ==> snode_parent@ == par0,
            (exists|x: int| 0 <= x < cliques@.len() && #[trigger] cliques@[x]@.contains(*v)) ==> is_first_with(cliques@, *v, c as int) && snode_parent@ == par0.update(c as int, NO_PARENT),
//@body_start 1
        proof { assert(*clique == cliques@[it1.index@ as int]); }
//@before "break;"
            proof { assert(is_first_with(cliques@, *v, k as int)); }
//@post
    proof {
        if exists|x: int| 0 <= x < cliques@.len() && #[trigger] cliques@[x]@.contains(post@.last()) {
            let x = choose|x: int| #[trigger] is_first_with(cliques@, post@.last(), x) && true;
        }
    }
//@end
pub open spec fn is_first_with(cl: Seq<VertexSet>, v: usize, x: int) -> bool { 0 <= x < cl.len() && cl[x]@.contains(v) && forall|y: int| 0 <= y < x ==> !(#[trigger] cl[y])@.contains(v) }

// ---- clique_tree_from_graph: its body in two statement slices; DROPPED between them: the call `post_order(&mut t.snode_post, ..)`,
// whose preconditions (unit chordal_merge) are NOT established here (open obligations O3, O4) ----
impl CliqueGraphMergeStrategy {
// head: intersection weights, spanning forest, root and parent pointers
//@fn file=src/solver/chordal/merge/clique_graph.rs in="impl CliqueGraphMergeStrategy" name=clique_tree_from_graph as=ctg_build from="clique_intersections(&mut self.edges, &t.snode);" to="determine_parent_cliques(" header="fn ctg_build(&mut self, t: &mut SuperNodeTree)"
//@contract
        requires old(self).core(*old(t)), old(t).n_cliques >= 1,
        ensures
            final(t).snode == old(t).snode, final(t).separators == old(t).separators, final(t).post == old(t).post, final(t).n_cliques == old(t).n_cliques, final(t).snode_post == old(t).snode_post,
            final(t).snode_parent@.len() == tn(*old(t)), final(t).snode_children@.len() == tn(*old(t)),
            // the pattern of the clique graph stays; the marked edges (-1) are the accepted edges of a spanning forest (kruskal_post)
            final(self).edges.colptr == old(self).edges.colptr, final(self).edges.rowval == old(self).edges.rowval, canon(final(self).edges),
            final(self).adjacency_table == old(self).adjacency_table,
            // every new parent pointer is NO_PARENT at the root (first clique containing the vertex of highest order) or runs along a marked edge
            forall|x: int| 0 <= x < tn(*old(t)) ==> #[trigger] final(t).snode_parent@[x] == old(t).snode_parent@[x]
                || (final(t).snode_parent@[x] == NO_PARENT && is_first_with(old(t).snode@, old(t).post@.last(), x))
                || (final(t).snode_parent@[x] < tn(*old(t)) && marked(final(self).edges, final(t).snode_parent@[x], x as usize)),
//@pre
        let ghost E0 = self.edges;
        proof { lemma_cnt_ne_bounds(t.snode@, tn(*t)); assert forall|c: int| 0 <= c < t.snode@.len() implies (#[trigger] t.snode@[c])@.len() < 0x8000_0000 by { lemma_sn_small(*t, c); } }
//@after "clique_intersections(&mut self.edges, &t.snode);"
        let ghost E1 = self.edges;
        proof { lemma_canon_same(E0, E1); }
//@after "kruskal(&mut self.edges, t.n_cliques);"
        proof { lemma_canon_same(E1, self.edges); }
//@end
// tail: the separators are cleared and rebuilt as intersections with the parent
//@fn file=src/solver/chordal/merge/clique_graph.rs in="impl CliqueGraphMergeStrategy" name=clique_tree_from_graph as=ctg_split rules=R17,zipidx:1=m from="t.separators.iter_mut().for_each(|set| set.clear());" to="split_cliques(" header="fn ctg_split(&mut self, t: &mut SuperNodeTree)"
//@contract
        requires
            dims_ok(*old(t)), forall|c: int| 0 <= c < tn(*old(t)) ==> (#[trigger] old(t).snode@[c])@.no_duplicates(),
            // NOT established by the head: every clique of order < n_cliques - 1 has a parent that comes later in the post order
            split_pre(old(t).snode_parent@, old(t).snode_post@, old(t).n_cliques as int, tn(*old(t))),
        ensures
            *final(self) == *old(self), tn(*final(t)) == tn(*old(t)), final(t).separators@.len() == tn(*old(t)),
            // C17: each clique's separator is its intersection with its parent clique, its supernode the rest; the root keeps its vertices, its separator is empty
            forall|j: int| 0 <= j < old(t).n_cliques - 1 ==> (#[trigger] final(t).separators@[old(t).snode_post@[j] as int])@ ==
                inter(old(t).snode@[old(t).snode_post@[j] as int]@, old(t).snode@[old(t).snode_parent@[old(t).snode_post@[j] as int] as int]@),
            forall|j: int| 0 <= j < old(t).n_cliques - 1 ==> (#[trigger] final(t).snode@[old(t).snode_post@[j] as int])@ ==
                diff_k(old(t).snode@[old(t).snode_post@[j] as int]@, final(t).separators@[old(t).snode_post@[j] as int]@, old(t).snode@[old(t).snode_post@[j] as int]@.len() as int),
            forall|c: usize| c < tn(*old(t)) && !in_pre(old(t).snode_post@, old(t).n_cliques - 1, c) ==> #[trigger] final(t).snode@[c as int] == old(t).snode@[c as int],
            forall|c: usize| c < tn(*old(t)) && !in_pre(old(t).snode_post@, old(t).n_cliques - 1, c) ==> (#[trigger] final(t).separators@[c as int])@.len() == 0,
            final(t).snode_parent == old(t).snode_parent, final(t).snode_post == old(t).snode_post, final(t).post == old(t).post, final(t).n_cliques == old(t).n_cliques,
//@pre
        let ghost t0 = *t;
//@loop 1
            invariant
                r14_n1 == tn(t0), dims_ok(t0), t.separators@.len() == tn(t0), t.snode == t0.snode, t.snode_parent == t0.snode_parent, t.snode_post == t0.snode_post, t.post == t0.post,
                t.n_cliques == t0.n_cliques, t.snode_children == t0.snode_children, t.nblk == t0.nblk,
                forall|c: int| 0 <= c < $var1 ==> (#[trigger] t.separators@[c])@.len() == 0,
//@body_start 1
            let ghost sp_b = t.separators@;
//@body_end 1
            proof { assert forall|c: int| 0 <= c < $var1 + 1 implies (#[trigger] t.separators@[c])@.len() == 0 by { if c < $var1 { assert(t.separators@[c] == sp_b[c]); } } }
//@end
}

// ===================== the reduced clique graph =====================
// two duplicate-free lists of equal length, the first contained in the second: the second is contained in the first
pub proof fn lemma_full_subset(a: Seq<usize>, b: Seq<usize>)
    requires a.no_duplicates(), b.no_duplicates(), a.len() == b.len(), forall|i: int| 0 <= i < a.len() ==> b.contains(#[trigger] a[i]),
    ensures forall|j: int| 0 <= j < b.len() ==> a.contains(#[trigger] b[j]),
    decreases b.len(),
{
    if b.len() > 0 {
        let last = b.last();
        let b2 = b.drop_last();
        lemma_rm(a, last);
        let a2 = rm(a, last);
        assert forall|i: int| 0 <= i < a2.len() implies b2.contains(#[trigger] a2[i]) by {
            assert(a2.contains(a2[i]));
            assert(a.contains(a2[i]) && a2[i] != last);
            let k = choose|k: int| 0 <= k < a.len() && a[k] == a2[i];
            assert(b.contains(a[k]));
            let j = choose|j: int| 0 <= j < b.len() && b[j] == a2[i];
            assert(j < b.len() - 1);
            assert(b2[j] == a2[i]);
        }
        assert(b2.no_duplicates()) by { assert forall|i: int, j: int| 0 <= i < b2.len() && 0 <= j < b2.len() && i != j implies b2[i] != b2[j] by { assert(b[i] != b[j]); } }
        if !a.contains(last) { lemma_nodup_sub_len(a2, b2); assert(false); }
        lemma_full_subset(a2, b2);
        assert forall|j: int| 0 <= j < b.len() implies a.contains(#[trigger] b[j]) by {
            if j < b.len() - 1 { assert(b2[j] == b[j]); assert(a2.contains(b2[j])); }
        }
    }
}
// s3 is the intersection of s1 and s2, as sets
pub open spec fn is_inter(s1: Seq<usize>, s2: Seq<usize>, s3: Seq<usize>) -> bool { forall|x: usize| #[trigger] s3.contains(x) <==> s1.contains(x) && s2.contains(x) }
pub proof fn lemma_inter_members(a: Seq<usize>, b: Seq<usize>)
    requires a.no_duplicates(),
    ensures inter(a, b).no_duplicates(), forall|x: usize| #[trigger] inter(a, b).contains(x) <==> a.contains(x) && b.contains(x),
{
    lemma_inter_nodup(a, b, a.len() as int);
    lemma_inter_k(a, b, a.len() as int);
    let it = inter(a, b);
    assert forall|x: usize| #[trigger] it.contains(x) <==> a.contains(x) && b.contains(x) by {
        if it.contains(x) { let i = choose|i: int| 0 <= i < it.len() && it[i] == x; assert(a.contains(it[i]) && b.contains(it[i])); }
        if a.contains(x) && b.contains(x) { let j = choose|j: int| 0 <= j < a.len() && a[j] == x; assert(it.contains(a[j])); }
    }
}
// if s3 is the intersection, it is exactly as long as the list of common members and not longer than either set
pub proof fn lemma_is_inter_len(sa: Seq<usize>, sb: Seq<usize>, s3: Seq<usize>)
    requires sa.no_duplicates(), sb.no_duplicates(), s3.no_duplicates(), is_inter(sa, sb, s3),
    ensures s3.len() == inter(sa, sb).len(), s3.len() <= sb.len(), s3.len() <= sa.len(),
{
    lemma_inter_members(sa, sb);
    let it = inter(sa, sb);
    assert forall|i: int| 0 <= i < it.len() implies s3.contains(#[trigger] it[i]) by { assert(it.contains(it[i])); }
    assert forall|i: int| 0 <= i < s3.len() implies it.contains(#[trigger] s3[i]) by { assert(s3.contains(s3[i])); }
    lemma_nodup_sub_len(it, s3); lemma_nodup_sub_len(s3, it);
    assert forall|i: int| 0 <= i < s3.len() implies sb.contains(#[trigger] s3[i]) by { assert(s3.contains(s3[i])); }
    assert forall|i: int| 0 <= i < s3.len() implies sa.contains(#[trigger] s3[i]) by { assert(s3.contains(s3[i])); }
    lemma_nodup_sub_len(s3, sb); lemma_nodup_sub_len(s3, sa);
}
pub proof fn lemma_inter_k_mono(a: Seq<usize>, b: Seq<usize>, i: int, k: int)
    requires 0 <= i <= k <= a.len(),
    ensures inter_k(a, b, i).len() <= inter_k(a, b, k).len(),
    decreases k - i,
{ if i < k { lemma_inter_k_mono(a, b, i, k - 1); } }
// Check if s1 n s2 == s3
//@fn file=src/solver/chordal/merge/clique_graph.rs name=inter_equal rules=setiter:sa ret=r
//@contract
    requires s1@.no_duplicates(), s2@.no_duplicates(), s3@.no_duplicates(), s1@.len() < 0x8000_0000, s2@.len() < 0x8000_0000,
    ensures r == is_inter(s1@, s2@, s3@),
//@pre
    let ghost gsa = if s1@.len() < s2@.len() { s1@ } else { s2@ };
    let ghost gsb = if s1@.len() < s2@.len() { s2@ } else { s1@ };
    proof { assert(is_inter(s1@, s2@, s3@) <==> is_inter(gsa, gsb, s3@)); }
//@before "for e in sa.iter()"
    proof { assert(sa@ == gsa && sb@ == gsb); }
//@before "return false;" #1
        proof { if is_inter(gsa, gsb, s3@) { lemma_is_inter_len(gsa, gsb, s3@); } }
//@iter 1
it
//@loop 1
        invariant
            it.seq().len() == sa@.len(), forall|k: int| 0 <= k < sa@.len() ==> *(#[trigger] it.seq()[k]) == sa@[k],
            sa@ == gsa, sb@ == gsb, sa@.no_duplicates(), sb@.no_duplicates(), s3@.no_duplicates(), sa@.len() <= sb@.len(), sa@.len() + sb@.len() < 0x1_0000_0000, len_s3 == s3@.len(),
            is_inter(s1@, s2@, s3@) <==> is_inter(sa@, sb@, s3@),
            dim == inter_k(sa@, sb@, it.index@ as int).len(), dim <= len_s3, max_intersect == sa@.len() + sb@.len() - it.index@,
            forall|j: int| 0 <= j < inter_k(sa@, sb@, it.index@ as int).len() ==> s3@.contains(#[trigger] inter_k(sa@, sb@, it.index@ as int)[j]),
//@body_start 1
        let ghost gi = it.index@ as int;
        proof { assert(*e == sa@[gi]); lemma_inter_k(sa@, sb@, gi); }
//@before "return false;" #2
                proof {
                    if is_inter(sa@, sb@, s3@) { lemma_is_inter_len(sa@, sb@, s3@); lemma_inter_k_mono(sa@, sb@, gi + 1, sa@.len() as int); }
                }
//@before "return false;" #3
                proof { if is_inter(sa@, sb@, s3@) { assert(sa@.contains(sa@[gi])); assert(s3@.contains(*e)); } }
//@before "return false;" #4
            proof { if is_inter(sa@, sb@, s3@) { lemma_is_inter_len(sa@, sb@, s3@); } }
//@body_end 1
        proof {
            let cur = inter_k(sa@, sb@, gi + 1); let prev = inter_k(sa@, sb@, gi);
            assert forall|j: int| 0 <= j < cur.len() implies s3@.contains(#[trigger] cur[j]) by { if j < prev.len() { assert(cur[j] == prev[j]); } }
        }
//@post
    proof {
        let it_ = inter(gsa, gsb);
        lemma_inter_members(gsa, gsb);
        if r_v {
            assert forall|i: int| 0 <= i < it_.len() implies s3@.contains(#[trigger] it_[i]) by { }
            lemma_full_subset(it_, s3@);
            assert forall|x: usize| #[trigger] s3@.contains(x) <==> gsa.contains(x) && gsb.contains(x) by {
                if s3@.contains(x) { let j = choose|j: int| 0 <= j < s3@.len() && s3@[j] == x; assert(it_.contains(s3@[j])); }
                if gsa.contains(x) && gsb.contains(x) { assert(it_.contains(x)); let i = choose|i: int| 0 <= i < it_.len() && it_[i] == x; assert(s3@.contains(it_[i])); }
            }
        } else {
            if is_inter(gsa, gsb, s3@) { lemma_is_inter_len(gsa, gsb, s3@); }
        }
    }
//@end

// Check whether the `pair` of cliques are in different `components`
//@fn file=src/solver/chordal/merge/clique_graph.rs name=is_unconnected rules=posfirst ret=r
//@contract
    requires exists|j: int| 0 <= j < components@.len() && (#[trigger] components@[j])@.contains(pair.0),      // `position(..).unwrap()`
    ensures
        // true iff the FIRST component that lists pair.0 does not list pair.1
        exists|j: int| 0 <= j < components@.len() && is_first_with(components@, pair.0, j) && r == !(#[trigger] components@[j])@.contains(pair.1),
//@pre
    proof { assert(components@.len() == components.len()); }
//@iter 1
it
//@loop 1
        invariant
            it.seq().len() == components@.len(), forall|k: int| 0 <= k < components@.len() ==> *(#[trigger] it.seq()[k]) == components@[k],
            pf_i1 == it.index@, components@.len() <= usize::MAX,
            match pf_r1 { Some(j) => is_first_with(components@, pair.0, j as int), None => forall|y: int| 0 <= y < it.index@ ==> !(#[trigger] components@[y])@.contains(pair.0) },
//@body_start 1
        proof { assert(*x == components@[it.index@ as int]); }
//@end

// ---- the separator graph H (hash table clique -> list of cliques) ----
pub type HG = Map<usize, Vec<usize>>;
pub open spec fn hedge(H: HG, a: usize, b: usize) -> bool { H.contains_key(a) && H[a]@.contains(b) }
// every listed neighbour is itself a key
pub open spec fn h_closed(H: HG) -> bool { forall|a: usize, b: usize| #[trigger] hedge(H, a, b) ==> H.contains_key(b) }
pub open spec fn sets_ok(snd: Seq<VertexSet>) -> bool { forall|c: int| 0 <= c < snd.len() ==> (#[trigger] snd[c])@.no_duplicates() && snd[c]@.len() < 0x8000_0000 }
// the pair of positions (i2, j2) has been looked at when the loops stand at (i, j)
pub open spec fn pair_done(i: int, j: int, i2: int, j2: int) -> bool { 0 <= i2 < j2 && (i2 < i || (i2 == i && j2 < j)) }
pub proof fn lemma_push_contains(v: Seq<usize>, x: usize, y: usize)
    ensures v.push(x).contains(y) <==> v.contains(y) || y == x,
{
    let w = v.push(x);
    if w.contains(y) { let j = choose|j: int| 0 <= j < w.len() && w[j] == y; if j < v.len() { assert(v[j] == y); } }
    if v.contains(y) { let j = choose|j: int| 0 <= j < v.len() && v[j] == y; assert(w[j] == y); }
    if y == x { assert(w[v.len() as int] == y); }
}
// Find the separator graph H given a separator and the relevant index-subset of cliques: a and b are joined iff their intersection is
// NOT the separator (i.e. larger: both contain it)
//@fn file=src/solver/chordal/merge/clique_graph.rs name=separator_graph ret=r
//@contract
    requires sets_ok(snd@), separator@.no_duplicates(), forall|i: int| 0 <= i < clique_ind@.len() ==> #[trigger] clique_ind@[i] < snd@.len(),
    ensures
        forall|a: usize| #[trigger] r@.contains_key(a) <==> clique_ind@.contains(a),
        h_closed(r@),
        // an edge joins two listed cliques whose intersection is not the separator ...
        forall|a: usize, b: usize| #[trigger] hedge(r@, a, b) ==> clique_ind@.contains(a) && clique_ind@.contains(b) && !is_inter(snd@[a as int]@, snd@[b as int]@, separator@),
        // ... and every such pair is joined, in both directions
        forall|i: int, j: int| 0 <= i < j < clique_ind@.len() && !is_inter(snd@[clique_ind@[i] as int]@, snd@[clique_ind@[j] as int]@, separator@) ==>
            #[trigger] hedge(r@, clique_ind@[i], clique_ind@[j]) && hedge(r@, clique_ind@[j], clique_ind@[i]),
//@pre
    let ghost ci = clique_ind@;
    proof { assert(clique_ind@.len() == clique_ind.len()); }
//@loop 1
        invariant
            nindex == ci.len(), ci == clique_ind@, sets_ok(snd@), separator@.no_duplicates(), forall|i: int| 0 <= i < ci.len() ==> #[trigger] ci[i] < snd@.len(),
            sg_inv(H@, ci, snd@, separator@, $var1 as int, $var1 as int + 1),
//@loop 2
            invariant
                nindex == ci.len(), ci == clique_ind@, sets_ok(snd@), separator@.no_duplicates(), forall|i: int| 0 <= i < ci.len() ==> #[trigger] ci[i] < snd@.len(),
                $var1 < nindex, sg_inv(H@, ci, snd@, separator@, $var1 as int, $var2 as int),
//@body_start 2
            let ghost Hb = H@;
            let ghost mut H1 = H@;
            let ghost gi = $var1 as int;
            let ghost gj = $var2 as int;
            proof { assert(ci[gi] < snd@.len() && ci[gj] < snd@.len()); assert(snd@[ci[gi] as int]@.no_duplicates() && snd@[ci[gj] as int]@.no_duplicates()); }
//@before "if H.contains_key(cb)"
                proof {
                    H1 = H@;
                    assert forall|a: usize, b: usize| #[trigger] hedge(H1, a, b) <==> hedge(Hb, a, b) || (a == *ca && b == *cb) by {
                        if Hb.contains_key(*ca) { lemma_push_contains(Hb[*ca]@, *cb, b); if a != *ca && H1.contains_key(a) { assert(H1[a] == Hb[a]); } }
                        else { assert(H1[*ca]@ == seq![*cb]); if a == *ca { assert(seq![*cb][0] == *cb); } else if H1.contains_key(a) { assert(H1[a] == Hb[a]); } }
                    }
                    assert forall|a: usize| #[trigger] H1.contains_key(a) <==> Hb.contains_key(a) || a == *ca by { }
                }
//@body_end 2
            proof {
                let H2 = H@; let a_ = ci[gi]; let b_ = ci[gj];
                let cond = !is_inter(snd@[a_ as int]@, snd@[b_ as int]@, separator@);
                assert(is_inter(snd@[b_ as int]@, snd@[a_ as int]@, separator@) == is_inter(snd@[a_ as int]@, snd@[b_ as int]@, separator@));
                if cond {
                    assert forall|a: usize, b: usize| #[trigger] hedge(H2, a, b) <==> hedge(H1, a, b) || (a == b_ && b == a_) by {
                        if H1.contains_key(b_) { lemma_push_contains(H1[b_]@, a_, b); if a != b_ && H2.contains_key(a) { assert(H2[a] == H1[a]); } }
                        else { assert(H2[b_]@ == seq![a_]); if a == b_ { assert(seq![a_][0] == a_); } else if H2.contains_key(a) { assert(H2[a] == H1[a]); } }
                    }
                    assert forall|a: usize, b: usize| #[trigger] hedge(H2, a, b) <==> hedge(Hb, a, b) || (a == a_ && b == b_) || (a == b_ && b == a_) by {
                        assert(hedge(H1, a, b) <==> hedge(Hb, a, b) || (a == a_ && b == b_));
                    }
                    assert forall|a: usize| #[trigger] H2.contains_key(a) <==> Hb.contains_key(a) || a == a_ || a == b_ by { assert(H1.contains_key(a) <==> Hb.contains_key(a) || a == a_); }
                }
                assert(sg_inv(H2, ci, snd@, separator@, gi, gj + 1)) by {
                    assert(ci.contains(a_) && ci.contains(b_));
                    assert forall|i2: int, j2: int| #[trigger] pair_done(gi, gj + 1, i2, j2) && j2 < ci.len() && !is_inter(snd@[ci[i2] as int]@, snd@[ci[j2] as int]@, separator@) implies
                        hedge(H2, ci[i2], ci[j2]) && hedge(H2, ci[j2], ci[i2]) by {
                        if pair_done(gi, gj, i2, j2) { assert(hedge(Hb, ci[i2], ci[j2]) && hedge(Hb, ci[j2], ci[i2])); }
                    }
                }
            }
//@body_end 1
        proof {
            assert(sg_inv(H@, ci, snd@, separator@, $var1 as int + 1, $var1 as int + 2)) by {
                assert forall|i2: int, j2: int| #[trigger] pair_done($var1 as int + 1, $var1 as int + 2, i2, j2) && j2 < ci.len() implies pair_done($var1 as int, nindex as int, i2, j2) by { }
            }
        }
//@iter 3
it3
//@loop 3
        invariant
            it3.seq().len() == ci.len(), forall|k: int| 0 <= k < ci.len() ==> *(#[trigger] it3.seq()[k]) == ci[k], ci == clique_ind@,
            sg_inv(H@, ci, snd@, separator@, ci.len() as int, ci.len() as int + 1),
            forall|k: int| 0 <= k < it3.index@ ==> H@.contains_key(#[trigger] ci[k]),
//@body_start 3
        let ghost Hb = H@;
        proof { assert(*v == ci[it3.index@ as int]); assert(ci.contains(*v)); }
//@body_end 3
        proof {
            let H2 = H@;
            assert forall|a: usize, b: usize| #[trigger] hedge(H2, a, b) <==> hedge(Hb, a, b) by { if H2.contains_key(a) && a != *v { assert(H2[a] == Hb[a]); } if a == *v && !Hb.contains_key(*v) { assert(H2[a]@ == Seq::<usize>::empty()); } }
            assert forall|i2: int, j2: int| #[trigger] pair_done(ci.len() as int, ci.len() as int + 1, i2, j2) && j2 < ci.len() && !is_inter(snd@[ci[i2] as int]@, snd@[ci[j2] as int]@, separator@) implies
                hedge(H2, ci[i2], ci[j2]) && hedge(H2, ci[j2], ci[i2]) by { assert(hedge(Hb, ci[i2], ci[j2]) && hedge(Hb, ci[j2], ci[i2])); }
        }
//@post
    proof {
        let H = r_v@;
        assert forall|a: usize| #[trigger] H.contains_key(a) <==> ci.contains(a) by { if ci.contains(a) { let k = choose|k: int| 0 <= k < ci.len() && ci[k] == a; assert(H.contains_key(ci[k])); } }
        assert forall|i: int, j: int| 0 <= i < j < ci.len() && !is_inter(snd@[ci[i] as int]@, snd@[ci[j] as int]@, separator@) implies #[trigger] hedge(H, ci[i], ci[j]) && hedge(H, ci[j], ci[i]) by {
            assert(pair_done(ci.len() as int, ci.len() as int + 1, i, j));
        }
    }
//@end
pub open spec fn sg_inv(H: HG, ci: Seq<usize>, snd: Seq<VertexSet>, sep: Seq<usize>, i: int, j: int) -> bool {
    &&& forall|a: usize| #[trigger] H.contains_key(a) ==> ci.contains(a)
    &&& forall|a: usize, b: usize| #[trigger] hedge(H, a, b) ==> ci.contains(a) && ci.contains(b) && H.contains_key(b) && !is_inter(snd[a as int]@, snd[b as int]@, sep)
    &&& forall|i2: int, j2: int| #[trigger] pair_done(i, j, i2, j2) && j2 < ci.len() && !is_inter(snd[ci[i2] as int]@, snd[ci[j2] as int]@, sep) ==> hedge(H, ci[i2], ci[j2]) && hedge(H, ci[j2], ci[i2])
}

// Depth first search on the hash table H.  PARTIAL CORRECTNESS ONLY (no termination measure: the number of unvisited keys decreases with
// every call, counting over a hash table is not done here)
pub type VIS = Map<usize, bool>;
pub open spec fn vis_true(V: VIS, k: usize) -> bool { V.contains_key(k) && V[k] }
//@fn file=src/solver/chordal/merge/clique_graph.rs name=DFS_hashtable attrs="#[verifier::exec_allows_no_decreases_clause]"
//@contract
    requires
        h_closed(H@), H@.contains_key(v),                                             // `H.get(&v).unwrap()`
        forall|k: usize| #[trigger] old(visited)@.contains_key(k) <==> H@.contains_key(k),    // `visited.get(n).unwrap()`
    ensures
        forall|k: usize| #[trigger] final(visited)@.contains_key(k) <==> H@.contains_key(k),
        // v is put into the component; whatever becomes visited is put into the component; the component only grows, by keys of H
        final(component)@.contains(v), vis_true(final(visited)@, v),
        forall|k: usize| #[trigger] vis_true(final(visited)@, k) ==> vis_true(old(visited)@, k) || final(component)@.contains(k),
        forall|k: usize| vis_true(old(visited)@, k) ==> #[trigger] vis_true(final(visited)@, k),
        // closure: every neighbour of a newly visited clique is visited
        forall|k: usize, b: usize| vis_true(final(visited)@, k) && !vis_true(old(visited)@, k) && #[trigger] hedge(H@, k, b) ==> vis_true(final(visited)@, b),
        forall|x: usize| old(component)@.contains(x) ==> #[trigger] final(component)@.contains(x),
        forall|x: usize| #[trigger] final(component)@.contains(x) ==> old(component)@.contains(x) || H@.contains_key(x),
//@pre
    let ghost V0 = visited@;
    let ghost C0 = component@;
    proof { lemma_ins1(C0, v); }
//@before_loop 1
    let ghost nbv = H@[v]@;
    proof {
        assert forall|i: int| 0 <= i < nbv.len() implies H@.contains_key(#[trigger] nbv[i]) by { assert(hedge(H@, v, nbv[i])); }
        assert(component@ == ins1(C0, v));
        assert forall|k: usize| #[trigger] vis_true(visited@, k) implies vis_true(V0, k) || component@.contains(k) by { if k != v { assert(visited@[k] == V0[k]); } }
    }
//@iter 1
it
//@loop 1
        invariant
            h_closed(H@), H@.contains_key(v), it.seq().len() == nbv.len(), forall|i: int| 0 <= i < nbv.len() ==> *(#[trigger] it.seq()[i]) == nbv[i],
            forall|i: int| 0 <= i < nbv.len() ==> H@.contains_key(#[trigger] nbv[i]),
            forall|k: usize| #[trigger] visited@.contains_key(k) <==> H@.contains_key(k),
            component@.contains(v), vis_true(visited@, v),
            forall|k: usize| #[trigger] vis_true(visited@, k) ==> vis_true(V0, k) || component@.contains(k),
            forall|k: usize| vis_true(V0, k) ==> #[trigger] vis_true(visited@, k),
            forall|i: int| 0 <= i < it.index@ ==> vis_true(visited@, #[trigger] nbv[i]),
            forall|k: usize, b: usize| k != v && vis_true(visited@, k) && !vis_true(V0, k) && #[trigger] hedge(H@, k, b) ==> vis_true(visited@, b),
            forall|x: usize| C0.contains(x) ==> #[trigger] component@.contains(x),
            forall|x: usize| #[trigger] component@.contains(x) ==> C0.contains(x) || H@.contains_key(x),
//@body_start 1
        let ghost Vb = visited@;
        let ghost Cb = component@;
        proof { assert(*n == nbv[it.index@ as int]); }
//@body_end 1
        proof {
            assert forall|k: usize| #[trigger] vis_true(visited@, k) implies vis_true(V0, k) || component@.contains(k) by { if vis_true(Vb, k) { if !vis_true(V0, k) { assert(Cb.contains(k)); } } }
            assert forall|x: usize| C0.contains(x) implies #[trigger] component@.contains(x) by { assert(Cb.contains(x)); }
            assert forall|x: usize| #[trigger] component@.contains(x) implies C0.contains(x) || H@.contains_key(x) by { if Cb.contains(x) { } }
            assert(vis_true(Vb, v));
            assert forall|k: usize| vis_true(V0, k) implies #[trigger] vis_true(visited@, k) by { assert(vis_true(Vb, k)); }
            assert forall|i: int| 0 <= i < it.index@ + 1 implies vis_true(visited@, #[trigger] nbv[i]) by { if i < it.index@ { assert(vis_true(Vb, nbv[i])); } }
            assert forall|k: usize, b: usize| k != v && vis_true(visited@, k) && !vis_true(V0, k) && #[trigger] hedge(H@, k, b) implies vis_true(visited@, b) by {
                if vis_true(Vb, k) { assert(vis_true(Vb, b)); }
            }
        }
//@post
    proof {
        assert forall|k: usize, b: usize| vis_true(visited@, k) && !vis_true(V0, k) && #[trigger] hedge(H@, k, b) implies vis_true(visited@, b) by {
            if k == v { let i = choose|i: int| 0 <= i < H@[v]@.len() && H@[v]@[i] == b; assert(vis_true(visited@, H@[v]@[i])); }
        }
    }
//@end

// Find connected components in the undirected separator graph `H`
//@fn file=src/solver/chordal/merge/clique_graph.rs name=find_components ret=r
//@contract
    requires h_closed(H@), forall|a: usize| #[trigger] H@.contains_key(a) <==> clique_ind@.contains(a),
    ensures
        // every listed clique lies in some component (=> the `position(..).unwrap()` of is_unconnected), components hold listed cliques only
        forall|i: int| 0 <= i < clique_ind@.len() ==> in_some(r@, #[trigger] clique_ind@[i]),
        forall|j: int, x: usize| 0 <= j < r@.len() && #[trigger] r@[j]@.contains(x) ==> clique_ind@.contains(x),
//@pre
    let ghost ci = clique_ind@;
//@iter 1
it1
//@loop 1
        invariant
            it1.seq().len() == ci.len(), forall|k: int| 0 <= k < ci.len() ==> *(#[trigger] it1.seq()[k]) == ci[k],
            forall|k: usize| #[trigger] visited@.contains_key(k) <==> in_pre(ci, it1.index@ as int, k), forall|k: usize| !#[trigger] vis_true(visited@, k),
//@body_start 1
        let ghost gi = it1.index@ as int;
        let ghost Vb = visited@;
        proof { assert(*v == ci[gi]); }
//@body_end 1
        proof {
            assert forall|k: usize| #[trigger] visited@.contains_key(k) <==> in_pre(ci, gi + 1, k) by { lemma_in_pre_step(ci, gi, k); }
            assert forall|k: usize| !#[trigger] vis_true(visited@, k) by { if k != ci[gi] { assert(!vis_true(Vb, k)); } }
        }
//@before_loop 2
    proof { assert forall|k: usize| #[trigger] visited@.contains_key(k) <==> H@.contains_key(k) by { lemma_in_pre_full(ci, k); } }
//@iter 2
it2
//@loop 2
        invariant
            ci == clique_ind@, h_closed(H@), forall|a: usize| #[trigger] H@.contains_key(a) <==> ci.contains(a),
            it2.seq().len() == ci.len(), forall|k: int| 0 <= k < ci.len() ==> *(#[trigger] it2.seq()[k]) == ci[k],
            forall|k: usize| #[trigger] visited@.contains_key(k) <==> H@.contains_key(k),
            forall|k: usize| #[trigger] vis_true(visited@, k) ==> in_some(components@, k),
            forall|i: int| 0 <= i < it2.index@ ==> in_some(components@, #[trigger] ci[i]),
            forall|j: int, x: usize| 0 <= j < components@.len() && #[trigger] components@[j]@.contains(x) ==> ci.contains(x),
//@body_start 2
        let ghost gi = it2.index@ as int;
        let ghost Vb = visited@;
        let ghost Cb = components@;
        proof { assert(*v == ci[gi]); assert(ci.contains(ci[gi])); }
//@body_end 2
        proof {
            let Cn = components@;
            if Cn.len() == Cb.len() { assert(Cn == Cb); assert(vis_true(Vb, ci[gi])); }
            else {
                let L = Cb.len() as int;
                assert forall|k: usize| in_some(Cb, k) implies in_some(Cn, k) by { let j = choose|j: int| 0 <= j < Cb.len() && (#[trigger] Cb[j])@.contains(k); assert(Cn[j] == Cb[j]); }
                assert forall|k: usize| #[trigger] vis_true(visited@, k) implies in_some(Cn, k) by { if !vis_true(Vb, k) { assert(Cn[L]@.contains(k)); } }
                assert(in_some(Cn, ci[gi])) by { assert(Cn[L]@.contains(ci[gi])); }
                assert forall|i: int| 0 <= i < gi + 1 implies in_some(Cn, #[trigger] ci[i]) by { if i < gi { assert(in_some(Cb, ci[i])); } }
                assert forall|j: int, x: usize| 0 <= j < Cn.len() && #[trigger] Cn[j]@.contains(x) implies ci.contains(x) by { if j < L { assert(Cn[j] == Cb[j]); } }
            }
        }
//@post
    proof { assert forall|i: int| 0 <= i < ci.len() implies in_some(r_v@, #[trigger] ci[i]) by { } }
//@end
pub open spec fn in_some(comps: Seq<VertexSet>, k: usize) -> bool { exists|j: int| 0 <= j < comps.len() && (#[trigger] comps[j])@.contains(k) }

pub open spec fn is_one_of(x: Seq<usize>, sets: Seq<VertexSet>) -> bool { exists|j: int| 0 <= j < sets.len() && (#[trigger] sets[j])@ == x }
// `separators.sort_by_key(|b| Reverse(b.len()))` (rule sortlenrev): ASSUMED std sort - a permutation with non-increasing lengths
#[verifier::external_body]
pub fn sort_sets_by_len_rev(s: &mut [VertexSet])
    ensures
        final(s)@.len() == old(s)@.len(),
        forall|i: int| 0 <= i < old(s)@.len() ==> is_one_of((#[trigger] final(s)@[i])@, old(s)@),
        forall|j: int| 0 <= j < old(s)@.len() ==> is_one_of((#[trigger] old(s)@[j])@, final(s)@),
        forall|i: int, j: int| 0 <= i <= j < old(s)@.len() ==> final(s)@[i]@.len() >= final(s)@[j]@.len(),
{ unimplemented!() }
// (typed view: `let mut rows = Vec::new();` leaves the element type to inference, which annotations placed before the first push cannot rely on)
pub open spec fn vu(v: Vec<usize>) -> Seq<usize> { v@ }
// the edge (rows[k], cols[k]) joins two different cliques that both contain one of the separators
pub open spec fn rcg_edge(seps: Seq<VertexSet>, snode: Seq<VertexSet>, r: usize, c: usize) -> bool {
    c < r && r < snode.len() && exists|q: int| 0 <= q < seps.len() && subset((#[trigger] seps[q])@, snode[r as int]@) && subset(seps[q]@, snode[c as int]@)
}
// Compute the reduced clique graph (union of all clique trees) given an initial clique tree defined by its supernodes and separator sets
//@fn file=src/solver/chordal/merge/clique_graph.rs name=compute_reduced_clique_graph rules=sortlenrev,posall,zipidx:1=m,R18 ret=r
//@contract
    requires sets_ok(snode@), forall|q: int| 0 <= q < old(separators)@.len() ==> (#[trigger] old(separators)@[q])@.no_duplicates(),
    ensures
        // the separators are only re-ordered (by decreasing cardinality)
        final(separators)@.len() == old(separators)@.len(),
        forall|i: int| 0 <= i < old(separators)@.len() ==> is_one_of((#[trigger] final(separators)@[i])@, old(separators)@),
        // one (row, col) pair per edge, row > col: two different cliques containing a common separator.  (NOT stated: that the two lie in
        // different components of the separator graph - the components are characterised only as far as is_unconnected needs them)
        r.0@.len() == r.1@.len(), forall|k: int| 0 <= k < r.0@.len() ==> r.1@[k] < #[trigger] r.0@[k] && r.0@[k] < snode@.len(),
        forall|k: int| 0 <= k < r.0@.len() ==> rcg_edge(final(separators)@, snode@, #[trigger] r.0@[k], r.1@[k]),
//@pre
    let ghost sp0 = separators@;
    let ghost mut sp1 = separators@;
//@after "sort_sets_by_len_rev(separators);"
    proof {
        sp1 = separators@; assert(snode@.len() == snode.len());
        assert forall|q: int| 0 <= q < sp1.len() implies (#[trigger] sp1[q])@.no_duplicates() by { assert(is_one_of(sp1[q]@, sp0)); let j = choose|j: int| 0 <= j < sp0.len() && (#[trigger] sp0[j])@ == sp1[q]@; assert(sp0[j]@.no_duplicates()); }
    }
//@loop 1
        invariant
            r14_n1 == sp1.len(), separators@ == sp1, sets_ok(snode@), forall|q: int| 0 <= q < sp1.len() ==> (#[trigger] sp1[q])@.no_duplicates(), snode@.len() <= usize::MAX,
            sp1.len() == sp0.len(), forall|i: int| 0 <= i < sp1.len() ==> is_one_of((#[trigger] sp1[i])@, sp0),
            vu(rows).len() == vu(cols).len(), forall|k: int| 0 <= k < vu(rows).len() ==> vu(cols)[k] < #[trigger] vu(rows)[k] && vu(rows)[k] < snode@.len(),
            forall|k: int| 0 <= k < vu(rows).len() ==> rcg_edge(sp1, snode@, #[trigger] vu(rows)[k], vu(cols)[k]),
//@body_start 1
        let ghost gq = $var1 as int;
//@iter 2
it2
//@loop 2
            invariant
                it2.seq().len() == snode@.len(), forall|c: int| 0 <= c < snode@.len() ==> *(#[trigger] it2.seq()[c]) == snode@[c], snode@.len() <= usize::MAX,
                pa_i1 == it2.index@, 0 <= gq < sp1.len(), separator@ == sp1[gq]@,
                forall|i: int| 0 <= i < pa_out1@.len() ==> #[trigger] pa_out1@[i] < it2.index@ && subset(sp1[gq]@, snode@[pa_out1@[i] as int]@),
                forall|i: int, j: int| 0 <= i < j < pa_out1@.len() ==> pa_out1@[i] < pa_out1@[j],
//@body_start 2
            let ghost po_b = pa_out1@;
            proof { assert(*x == snode@[it2.index@ as int]); }
//@body_end 2
            proof {
                assert forall|i: int| 0 <= i < pa_out1@.len() implies #[trigger] pa_out1@[i] < it2.index@ + 1 && subset(sp1[gq]@, snode@[pa_out1@[i] as int]@) by { if i < po_b.len() { assert(pa_out1@[i] == po_b[i]); } }
                assert forall|i: int, j: int| 0 <= i < j < pa_out1@.len() implies pa_out1@[i] < pa_out1@[j] by { if j < po_b.len() { assert(po_b[i] < po_b[j]); } else { assert(pa_out1@[i] == po_b[i]); } }
            }
//@before "let H = separator_graph("
        let ghost ci = clique_indices@;
        proof { assert forall|i: int| 0 <= i < ci.len() implies #[trigger] ci[i] < snode@.len() by { } }
//@loop 3
            invariant
                ncliques == ci.len(), ci == clique_indices@, sets_ok(snode@), 0 <= gq < sp1.len(), snode@.len() <= usize::MAX,
                forall|i: int| 0 <= i < ci.len() ==> #[trigger] ci[i] < snode@.len() && subset(sp1[gq]@, snode@[ci[i] as int]@),
                forall|i: int, j: int| 0 <= i < j < ci.len() ==> ci[i] < ci[j],
                forall|i: int| 0 <= i < ci.len() ==> in_some(components@, #[trigger] ci[i]),
                vu(rows).len() == vu(cols).len(), forall|k: int| 0 <= k < vu(rows).len() ==> vu(cols)[k] < #[trigger] vu(rows)[k] && vu(rows)[k] < snode@.len(),
                forall|k: int| 0 <= k < vu(rows).len() ==> rcg_edge(sp1, snode@, #[trigger] vu(rows)[k], vu(cols)[k]),
//@loop 4
                invariant
                    ncliques == ci.len(), ci == clique_indices@, sets_ok(snode@), 0 <= gq < sp1.len(), $var3 < ncliques, snode@.len() <= usize::MAX,
                    forall|i: int| 0 <= i < ci.len() ==> #[trigger] ci[i] < snode@.len() && subset(sp1[gq]@, snode@[ci[i] as int]@),
                    forall|i: int, j: int| 0 <= i < j < ci.len() ==> ci[i] < ci[j],
                    forall|i: int| 0 <= i < ci.len() ==> in_some(components@, #[trigger] ci[i]),
                    vu(rows).len() == vu(cols).len(), forall|k: int| 0 <= k < vu(rows).len() ==> vu(cols)[k] < #[trigger] vu(rows)[k] && vu(rows)[k] < snode@.len(),
                    forall|k: int| 0 <= k < vu(rows).len() ==> rcg_edge(sp1, snode@, #[trigger] vu(rows)[k], vu(cols)[k]),
//@body_start 4
                let ghost rw_b = vu(rows);
                let ghost cl_b = vu(cols);
                proof { assert(ci[$var3 as int] < ci[$var4 as int]); assert(ci[$var3 as int] < snode@.len() && ci[$var4 as int] < snode@.len()); assert(in_some(components@, ci[$var3 as int])); }
//@body_end 4
                proof {
                    if vu(rows).len() != rw_b.len() {
                        let L = rw_b.len() as int;
                        assert(vu(rows) == rw_b.push(ci[$var4 as int]) && vu(cols) == cl_b.push(ci[$var3 as int]));
                        assert(rcg_edge(sp1, snode@, ci[$var4 as int], ci[$var3 as int])) by {
                            assert(subset(sp1[gq]@, snode@[ci[$var4 as int] as int]@) && subset(sp1[gq]@, snode@[ci[$var3 as int] as int]@));
                        }
                        assert forall|k: int| 0 <= k < vu(rows).len() implies vu(cols)[k] < #[trigger] vu(rows)[k] && vu(rows)[k] < snode@.len() by { if k < L { assert(vu(rows)[k] == rw_b[k] && vu(cols)[k] == cl_b[k]); } }
                        assert forall|k: int| 0 <= k < vu(rows).len() implies rcg_edge(sp1, snode@, #[trigger] vu(rows)[k], vu(cols)[k]) by { if k < L { assert(vu(rows)[k] == rw_b[k] && vu(cols)[k] == cl_b[k]); assert(rcg_edge(sp1, snode@, rw_b[k], cl_b[k])); } }
                    }
                }
//@end
} // verus!
fn main() {}
