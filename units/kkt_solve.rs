// unit `kkt_solve` : the KKT solve path -- DefaultKKTSystem -> (dyn) KKTSolver = DirectLDLKKTSolver -> (dyn) DirectLDLSolver = QDLDL adaptor
// serves C01 (the step solves the reduced system: link), C08 (updates reach the engine through every wrapper), C11 (refinement
// uses the KKT copy without regularisation), C12 (a failed / non-finite solve is reported, never a silently wrong direction)
// float model: F-opaque for all control flow and data movement; F-real (broadcast use real_arith) where a postcondition is an
// algebraic expression: `_get_refine_error`, the "not worse" clause of `iterative_refinement`, DefaultKKTSystem::solve /
// solve_constant_rhs / solve_initial_point.  canary_real_axioms MUST fail (vacuity guard of the admitted axiom group).
//
// PROVED (real text, extracted):
//   ldlsolvers/qdldl.rs      QDLDLDirectLDLSolver::new, required_matrix_shape, update_values, scale_values, offset_values, solve, refactor
//                            -- checked against the contracts written ON THE TRAIT DirectLDLSolver (ghost views copy/dim/ready/solves/nsolves);
//                               the kernel contracts (slots of the permuted copy) are lifted to the engine view (entries of the user's
//                               matrix) through the injective index map: lemma_q_slots, lemma_q_frame
//   directldlkktsolver.rs    setrhs, getlhs, solve, iterative_refinement, _get_refine_error, _update_values, update_P, update_A
//                            (+ _update_values_KKT, _scale_values_KKT from units/inc/kkt_values.rs)
//                            -- setrhs / solve / update_P / update_A checked against the contracts written ON THE TRAIT KKTSolver
//   kktsystem.rs             DefaultKKTSystem::new, update, solve, solve_initial_point, solve_constant_rhs, update_P, update_A
//   small fry                CscMatrix::sym, nnz, is_square, quad_form (wrapper), DefaultSettings::core
// ASSUMED (hand-written stand-ins, each marked at its definition):
//   * trait objects: BoxedDirectLDLSolver (Box<dyn DirectLDLSolver>), BoxedKKTSolver (Box<dyn KKTSolver>): dynamic dispatch lands in an
//     implementation that honours the contracts on the trait declaration; `Box::new` + unsizing coercion in DefaultKKTSystem::new keeps the object
//   * proved elsewhere, contract text copied: Symmetric::symv and _csc_quad_form (unit csc_math), QDLDLFactorisation::update_values /
//     scale_values / offset_values / solve (unit qdldl_kernels, rewritten over the ghost reading QFView; `lin_solves` abbreviates the
//     proved clause (I+L)D(I+L)'(Px) = Pb), VectorMath kernels (unit vecmath)
//   * not proved anywhere: QDLDLFactorisation::refactor (as in ldl_wrapper) and ::new, the derive_builder-generated QDLDLSettingsBuilder,
//     <[T]>::to_vec, DirectLDLKKTSolver::new (assembly + engine construction), CompositeCone::mul_Hs / Δs_from_Δz_offset (uninterpreted
//     cone_hs_mul / cone_ds_offset; they keep the cones' `scaling` and the lengths), norm_inf >= 0 in F-real (ax_norm_inf_nonneg),
//     the F-real axiom group, std fill
// DROPPED / NOT under contract:
//   * DirectLDLKKTSolver::update (cones.get_Hs, sparse-cone updates through trait objects and function pointers, then
//     regularize_and_refactor): body not extracted; the trait contract of `update` (wf, ready, dimensions) is ASSUMED for it too.
//     regularize_and_refactor itself is under contract in unit kkt_reg.
//   * with iterative refinement ON, success does not imply vm_is_finite(x) in this model: what is proved is that the residual
//     b - sym(KKT) x of the returned vector has a finite inf-norm (IEEE reasoning "finite residual => finite x" is not modelled)
//   * rule retbrk (new, tools/extract.py): `return E;` inside a `for` loop -> `{ rb_ret = Some(E); break; }` + `if let Some(v) = rb_ret
//     { return v; }` after the loop (used in iterative_refinement; see the rule's docstring for why)
// OBSERVATIONS made while writing the contracts (true of the code, not violations of a stated property):
//   * QDLDLFactorisation::update_values indexes values[i] for every i < indices.len() (a shorter `values` panics), whereas
//     _update_values_KKT zips (stops at the shorter): the engine contract therefore REQUIRES values.len() >= index.len(); the assumed
//     engine contract in unit kkt_reg does not carry this precondition
//   * DefaultKKTSystem::solve returns the verdict of the reduced solve only; tau_den == 0 / a non-finite step is not checked there
//     (the dtau clause is stated under tau_den != 0)
//   * solve_initial_point (LP branch) negates s even when the first solve failed; (QP branch) sets s = -z even on failure
use vstd::prelude::*;
verus! {
//@include prelude/float_opaque.rs
//@include prelude/float_real_axioms.rs
//@include prelude/vecmath_assumed.rs
//@include prelude/std_assumed.rs
//@struct file=src/algebra/csc/core.rs name=CscMatrix
//@enum file=src/algebra/matrix_types.rs name=MatrixTriangle rules=R12 derive="PartialEq, Eq, Clone, Copy, Structural"
//@struct file=src/algebra/matrix_types.rs name=Symmetric rules=R12
//@struct file=src/solver/implementations/default/settings.rs name=DefaultSettings rules=R1f
//@type file=src/solver/core/settings.rs name=CoreSettings
//@struct file=src/solver/core/kktsolvers/direct/quasidef/datamaps.rs name=LDLDataMap keep=P,A,diagP,diag_full

// ------------------------------------------------------------------ CSC vocabulary (same text as units/inc/csc_scalings.rs, units/csc_math.rs)
impl CscMatrix<F> {
    pub open spec fn colptr_ok(&self) -> bool {
        &&& self.colptr@.len() == self.n + 1
        &&& self.rowval@.len() == self.nzval@.len()
        &&& self.colptr@[self.n as int] == self.nzval@.len()
        &&& forall|a: int, b: int| 0 <= a <= b <= self.n ==> self.colptr@[a] <= self.colptr@[b]
    }
    pub open spec fn same_pattern(&self, o: &Self) -> bool {
        self.m == o.m && self.n == o.n && self.colptr@ == o.colptr@ && self.rowval@ == o.rowval@ && self.nzval@.len() == o.nzval@.len()
    }
    pub open spec fn in_col(&self, k: int, j: int) -> bool { 0 <= j < self.n && self.colptr@[j] <= k < self.colptr@[j + 1] }
}
pub open spec fn rows_below(a: CscMatrix<F>, bound: int) -> bool {
    forall|k: int| 0 <= k < a.rowval@.len() ==> a.rowval@[k] < bound
}
// dense meaning of sym(A)*x read off the stored upper triangle (definitions of units/csc_math.rs, verbatim)
pub open spec fn sv_entry(A: CscMatrix<F>, x: Seq<F>, r: int, c: int, k: int) -> real {
    let i = A.rowval@[k] as int; let v = A.nzval@[k].v();
    (if i == r { v * x[c].v() } else { 0real }) + (if i != c && c == r { v * x[i].v() } else { 0real })
}
pub open spec fn sv_col(A: CscMatrix<F>, x: Seq<F>, r: int, c: int, hi: int) -> real decreases hi - A.colptr@[c] {
    if hi <= A.colptr@[c] { 0real } else { sv_col(A, x, r, c, hi - 1) + sv_entry(A, x, r, c, hi - 1) }
}
pub open spec fn sv_total(A: CscMatrix<F>, x: Seq<F>, r: int, j: int) -> real decreases j {
    if j <= 0 { 0real } else { sv_total(A, x, r, j - 1) + sv_col(A, x, r, j - 1, A.colptr@[j] as int) }
}
impl<'a> CscMatrix<F> {
//@fn file=src/algebra/csc/core.rs in="impl<T> CscMatrix<T>" name=sym rules=R1,drop:debug_assert!( ret=r
//@contract
    ensures r.src == self,
//@end
}
impl<'a> Symmetric<'a, CscMatrix<F>> {
    // ASSUMED here, PROVED in unit csc_math (`Symmetric::symv` / `_csc_symv_unsafe`), contract text verbatim
    #[verifier::external_body]
    pub fn symv(&self, y: &mut [F], x: &[F], a: F, b: F)
        requires self.src.colptr_ok(), self.src.n == self.src.m, x@.len() == self.src.n, old(y)@.len() == self.src.n, rows_below(*self.src, self.src.n as int),
        ensures
            final(y)@.len() == old(y)@.len(),
            forall|r: int| 0 <= r < self.src.n ==> (#[trigger] final(y)@[r]).v() == b.v() * old(y)@[r].v() + a.v() * sv_total(*self.src, x@, r, self.src.n as int),
    { unimplemented!() }
}

// ------------------------------------------------------------------ the LDL engine behind the KKT solver (trait DirectLDLSolver)
//@include units/inc/kkt_values.rs
pub open spec fn upd_n(index: Seq<usize>, values: Seq<F>) -> int { if index.len() < values.len() { index.len() as int } else { values.len() as int } }
// `after` is `before` with values[k] written to slot index[k], k = 0..n, in order   (text of units/kkt_reg.rs)
pub open spec fn is_update(before: Seq<F>, after: Seq<F>, index: Seq<usize>, values: Seq<F>) -> bool {
    let n = upd_n(index, values);
    &&& after.len() == before.len()
    &&& forall|k: int| last_writer(index, n, k) ==> after[#[trigger] index[k] as int] == values[k]
    &&& forall|s: int| 0 <= s < before.len() && (forall|k: int| 0 <= k < n ==> index[k] != s) ==> #[trigger] after[s] == before[s]
}
pub open spec fn is_scaling(before: Seq<F>, after: Seq<F>, index: Seq<usize>, scale: F) -> bool {
    &&& after.len() == before.len()
    &&& forall|k: int| 0 <= k < index.len() ==> after[#[trigger] index[k] as int] == f_mul(before[index[k] as int], scale)
    &&& forall|s: int| 0 <= s < before.len() && (forall|k: int| 0 <= k < index.len() ==> index[k] != s) ==> #[trigger] after[s] == before[s]
}
pub open spec fn shifted(v: F, offset: F, sign: i8) -> F { if sign > 0 { f_add(v, offset) } else if sign < 0 { f_sub(v, offset) } else { v } }
pub open spec fn is_offset(before: Seq<F>, after: Seq<F>, index: Seq<usize>, offset: F, signs: Seq<i8>) -> bool {
    &&& after.len() == before.len()
    &&& forall|k: int| 0 <= k < index.len() ==> after[#[trigger] index[k] as int] == shifted(before[index[k] as int], offset, signs[k])
    &&& forall|s: int| 0 <= s < before.len() && (forall|k: int| 0 <= k < index.len() ==> index[k] != s) ==> #[trigger] after[s] == before[s]
}
pub open spec fn idx_below(index: Seq<usize>, n: int) -> bool { forall|k: int| 0 <= k < index.len() ==> #[trigger] index[k] < n }
pub open spec fn idx_distinct(index: Seq<usize>) -> bool { forall|a: int, b: int| 0 <= a < b < index.len() ==> index[a] != index[b] }

//@trait file=src/solver/core/kktsolvers/direct/quasidef/mod.rs name=DirectLDLSolver header="pub trait DirectLDLSolver" rules=R1
//@extra
    // ghost reading of an engine: its own copy of the matrix values (indexed like KKT.nzval), the dimension of the system,
    // "a numeric factorisation has been computed" (refactor was called), the input/output relation of a solve with the
    // factors it currently holds, the number of solves performed so far
    spec fn wf(&self) -> bool;
    spec fn copy(&self) -> Seq<F>;
    spec fn dim(&self) -> nat;
    spec fn ready(&self) -> bool;
    spec fn solves(&self, b: Seq<F>, x: Seq<F>) -> bool;
    spec fn nsolves(&self) -> nat;
//@sig update_values
    requires old(self).wf(), idx_below(index@, old(self).copy().len() as int), values@.len() >= index@.len(),
    ensures final(self).wf(), final(self).dim() == old(self).dim(), final(self).ready() == old(self).ready(), (forall|r: Seq<F>, y: Seq<F>| #[trigger] final(self).solves(r, y) == old(self).solves(r, y)),
        // C08: the same update reaches the engine's own copy
        is_update(old(self).copy(), final(self).copy(), index@, values@), final(self).nsolves() == old(self).nsolves(),
//@sig scale_values
    requires old(self).wf(), idx_below(index@, old(self).copy().len() as int), idx_distinct(index@),
    ensures final(self).wf(), final(self).dim() == old(self).dim(), final(self).ready() == old(self).ready(), (forall|r: Seq<F>, y: Seq<F>| #[trigger] final(self).solves(r, y) == old(self).solves(r, y)),
        is_scaling(old(self).copy(), final(self).copy(), index@, scale), final(self).nsolves() == old(self).nsolves(),
//@sig offset_values
    requires old(self).wf(), idx_below(index@, old(self).copy().len() as int), idx_distinct(index@), index@.len() == signs@.len(),
    ensures final(self).wf(), final(self).dim() == old(self).dim(), final(self).ready() == old(self).ready(), (forall|r: Seq<F>, y: Seq<F>| #[trigger] final(self).solves(r, y) == old(self).solves(r, y)),
        is_offset(old(self).copy(), final(self).copy(), index@, offset, signs@), final(self).nsolves() == old(self).nsolves(),
//@sig solve
    requires old(self).wf(), old(self).ready(), b@.len() == old(self).dim(), old(x)@.len() == old(self).dim(),
    ensures final(self).wf(), final(self).dim() == old(self).dim(), final(self).ready() == old(self).ready(), (forall|r: Seq<F>, y: Seq<F>| #[trigger] final(self).solves(r, y) == old(self).solves(r, y)), final(self).copy() == old(self).copy(),
        final(x)@.len() == old(x)@.len(),
        // the result is what the factors held by the engine produce for b (for QDLDL: (I+L)D(I+L)'(Px) = Pb, unit qdldl_kernels)
        old(self).solves(b@, final(x)@),
        final(self).nsolves() == old(self).nsolves() + 1,
//@sig refactor
ret=r
    requires old(self).wf(),
    ensures final(self).wf(), final(self).ready(), final(self).copy() == old(self).copy(), final(self).dim() == old(self).dim(),
        final(self).nsolves() == old(self).nsolves(),
//@end
// stand-in for Box<dyn DirectLDLSolver<T> + Send + Sync> (trait object).  ASSUMED: dynamic dispatch lands in an implementation
// that honours the contracts written on the trait declaration above (the QDLDL adaptor below is verified against them).
pub struct BoxedDirectLDLSolver<T> { pub _p: Option<T> }
impl DirectLDLSolver for BoxedDirectLDLSolver<F> {
    uninterp spec fn wf(&self) -> bool;
    uninterp spec fn copy(&self) -> Seq<F>;
    uninterp spec fn dim(&self) -> nat;
    uninterp spec fn ready(&self) -> bool;
    uninterp spec fn solves(&self, b: Seq<F>, x: Seq<F>) -> bool;
    uninterp spec fn nsolves(&self) -> nat;
    #[verifier::external_body] fn update_values(&mut self, index: &[usize], values: &[F]) { unimplemented!() }
    #[verifier::external_body] fn scale_values(&mut self, index: &[usize], scale: F) { unimplemented!() }
    #[verifier::external_body] fn offset_values(&mut self, index: &[usize], offset: F, signs: &[i8]) { unimplemented!() }
    #[verifier::external_body] fn solve(&mut self, kkt: &CscMatrix<F>, x: &mut [F], b: &[F]) { unimplemented!() }
    #[verifier::external_body] fn refactor(&mut self, kkt: &CscMatrix<F>) -> (r: bool) { unimplemented!() }
}

// everything about an engine except its copy of the values and the solve counter: dimension, readiness, the factors it solves with
pub open spec fn eng_same_factor(a: BoxedDirectLDLSolver<F>, b: BoxedDirectLDLSolver<F>) -> bool {
    &&& a.dim() == b.dim() && a.ready() == b.ready()
    &&& forall|r: Seq<F>, x: Seq<F>| #[trigger] a.solves(r, x) == b.solves(r, x)
}

// ------------------------------------------------------------------ the QDLDL adaptor (ldlsolvers/qdldl.rs)
//@enum file=src/qdldl/qdldl.rs name=QDLDLError
// rule R13: a documented panic is modelled as divergence (no obligation at the call site)
pub trait UnwrapOrPanic<T> { fn unwrap_or_panic(self) -> T; }
impl<T, E> UnwrapOrPanic<T> for Result<T, E> {
    #[verifier::external_body]
    fn unwrap_or_panic(self) -> (r: T) ensures self is Ok, r == self->Ok_0 { unimplemented!() }
}
// stand-in for crate::qdldl::QDLDLFactorisation (private workspace fields).  Ghost reading:
//   nz      = workspace.triuA.nzval   (the permuted upper triangle that is factored)
//   a2p     = workspace.AtoPAPt       (user entry idx lives in slot a2p[idx] of nz)
//   n       = D.len()                 (dimension)
//   numeric = !is_symbolic            (a numeric factorisation has been computed)
//   solvable: the remaining preconditions of `solve` in unit qdldl_kernels (l_wf of the factor, lengths of Dinv / fwork / perm,
//             perm in range) -- they depend only on the factor object, not on nz
//   fact    = an abstract name for (L, D, Dinv, perm); lin_solves(fact, b, x) abbreviates the clause proved for `solve` in
//             qdldl_kernels:  there are z, y with (I+L) z = Pb, D (I+L)' y = z, x[perm[i]] = y[i]
//   valid   = the numeric factorisation is complete (unit ldl_wrapper)
// The contracts below are the texts proved in unit qdldl_kernels (update_values / scale_values / offset_values / solve) and
// assumed in ldl_wrapper (refactor), rewritten over this ghost reading: ASSUMED here, "proved in qdldl_kernels".
pub struct QFView<T> { pub nz: Seq<T>, pub a2p: Seq<usize>, pub n: nat, pub numeric: bool, pub solvable: bool, pub fact: int, pub valid: bool, pub nsolves: nat }
pub struct QDLDLFactorisation<T> { pub Dinv: Vec<T>, pub g: Ghost<QFView<T>> }
pub uninterp spec fn lin_solves(fact: int, b: Seq<F>, x: Seq<F>) -> bool;
pub open spec fn slot_of(f: QDLDLFactorisation<F>, indices: Seq<usize>, k: int) -> int { f.g@.a2p[indices[k] as int] as int }
pub open spec fn slots_ok(f: QDLDLFactorisation<F>, indices: Seq<usize>) -> bool {
    forall|k: int| 0 <= k < indices.len() ==> indices[k] < f.g@.a2p.len() && 0 <= #[trigger] slot_of(f, indices, k) < f.g@.nz.len()
}
pub open spec fn slots_distinct(f: QDLDLFactorisation<F>, indices: Seq<usize>) -> bool {
    forall|a: int, b: int| 0 <= a < b < indices.len() ==> #[trigger] slot_of(f, indices, a) != #[trigger] slot_of(f, indices, b)
}
pub open spec fn only_values_change(f0: QDLDLFactorisation<F>, f1: QDLDLFactorisation<F>) -> bool {
    f1.Dinv == f0.Dinv && f1.g@ == (QFView::<F> { nz: f1.g@.nz, ..f0.g@ }) && f1.g@.nz.len() == f0.g@.nz.len()
}
pub open spec fn untouched_slot(f: QDLDLFactorisation<F>, indices: Seq<usize>, n: int, s: int) -> bool { forall|k: int| 0 <= k < n ==> #[trigger] slot_of(f, indices, k) != s }
impl QDLDLFactorisation<F> {
    #[verifier::external_body]
    pub fn update_values(&mut self, indices: &[usize], values: &[F])
        requires slots_ok(*old(self), indices@), values@.len() >= indices@.len(),
        ensures
            only_values_change(*old(self), *final(self)),
            forall|k: int| 0 <= k < indices@.len() && (forall|k2: int| k < k2 < indices@.len() ==> slot_of(*old(self), indices@, k2) != slot_of(*old(self), indices@, k))
                ==> final(self).g@.nz[#[trigger] slot_of(*old(self), indices@, k)] == values@[k],
            forall|s: int| 0 <= s < old(self).g@.nz.len() && untouched_slot(*old(self), indices@, indices@.len() as int, s)
                ==> #[trigger] final(self).g@.nz[s] == old(self).g@.nz[s],
    { unimplemented!() }
    #[verifier::external_body]
    pub fn scale_values(&mut self, indices: &[usize], scale: F)
        requires slots_ok(*old(self), indices@), slots_distinct(*old(self), indices@),
        ensures
            only_values_change(*old(self), *final(self)),
            forall|k: int| 0 <= k < indices@.len() ==> final(self).g@.nz[#[trigger] slot_of(*old(self), indices@, k)]
                == f_mul(old(self).g@.nz[slot_of(*old(self), indices@, k)], scale),
            forall|s: int| 0 <= s < old(self).g@.nz.len() && untouched_slot(*old(self), indices@, indices@.len() as int, s)
                ==> #[trigger] final(self).g@.nz[s] == old(self).g@.nz[s],
    { unimplemented!() }
    #[verifier::external_body]
    pub fn offset_values(&mut self, indices: &[usize], offset: F, signs: &[i8])
        requires slots_ok(*old(self), indices@), slots_distinct(*old(self), indices@), indices@.len() == signs@.len(),
        ensures
            only_values_change(*old(self), *final(self)),
            forall|k: int| 0 <= k < indices@.len() ==> final(self).g@.nz[#[trigger] slot_of(*old(self), indices@, k)]
                == shifted(old(self).g@.nz[slot_of(*old(self), indices@, k)], offset, signs@[k]),
            forall|s: int| 0 <= s < old(self).g@.nz.len() && untouched_slot(*old(self), indices@, indices@.len() as int, s)
                ==> #[trigger] final(self).g@.nz[s] == old(self).g@.nz[s],
    { unimplemented!() }
    #[verifier::external_body]
    pub fn solve(&mut self, b: &mut [F])
        requires old(self).g@.numeric, old(self).g@.solvable, old(b)@.len() == old(self).g@.n,
        ensures
            final(b)@.len() == old(b)@.len(),
            // the factorisation itself is not modified by a solve (only the float workspace is)
            final(self).Dinv == old(self).Dinv, final(self).g@ == (QFView::<F> { nsolves: old(self).g@.nsolves + 1, ..old(self).g@ }),
            lin_solves(old(self).g@.fact, old(b)@, final(b)@),
    { unimplemented!() }
    // ASSUMED (as in unit ldl_wrapper): Ok exactly when the factorisation completed; the permuted copy, the index map and
    // the dimension are not touched; the object holds a numeric factorisation afterwards (is_symbolic = false is the first statement)
    #[verifier::external_body]
    pub fn refactor(&mut self) -> (r: Result<(), QDLDLError>)
        ensures r is Ok <==> final(self).g@.valid,
            final(self).g@ == (QFView::<F> { numeric: true, fact: final(self).g@.fact, valid: final(self).g@.valid, ..old(self).g@ }),
    { unimplemented!() }
}
// ---- construction of the adaptor.  Stand-ins for the derive_builder-generated QDLDLSettingsBuilder (ASSUMED: the documented
// behaviour of the generated code: `default()` = no field set, each setter records its value, `build()` = Ok with every field
// either the recorded value or its #[builder(default = ..)]) and for QDLDLFactorisation::new (ASSUMED; NOT under contract here:
// ordering, symbolic factorisation -- parts are under contract in units qdldl_factor / qdldl_kernels / csc_utils)
//@struct file=src/qdldl/qdldl.rs name=QDLDLSettings rules=R12
pub assume_specification<T: Clone> [<[T]>::to_vec] (s: &[T]) -> (r: Vec<T>) ensures r@ == s@;   // used at T = i8 (Copy)
pub struct QSView { pub amd: f64, pub logical: bool, pub dsigns: Option<Seq<i8>>, pub reg_enable: bool, pub eps: F, pub delta: F }
pub struct QDLDLSettingsBuilder<T> { pub _p: Option<T>, pub g: Ghost<QSView> }
pub open spec fn qs_view(o: QDLDLSettings<F>) -> QSView {
    QSView { amd: o.amd_dense_scale, logical: o.logical, dsigns: match o.Dsigns { Some(d) => Some(d@), None => None }, reg_enable: o.regularize_enable, eps: o.regularize_eps, delta: o.regularize_delta }
}
impl QDLDLSettingsBuilder<F> {
    #[verifier::external_body] pub fn default() -> (r: Self)
        ensures r.g@ == (QSView { amd: 1.0f64, logical: false, dsigns: None, reg_enable: true, eps: f_lit(1e-12f64), delta: f_lit(1e-7f64) }) { unimplemented!() }
    #[verifier::external_body] pub fn logical(&mut self, v: bool) -> (r: &mut Self)
        ensures final(r).g@ == final(self).g@, r.g@ == (QSView { logical: v, ..old(self).g@ }) { unimplemented!() }
    #[verifier::external_body] pub fn Dsigns(&mut self, v: Vec<i8>) -> (r: &mut Self)
        ensures final(r).g@ == final(self).g@, r.g@ == (QSView { dsigns: Some(v@), ..old(self).g@ }) { unimplemented!() }
    #[verifier::external_body] pub fn regularize_enable(&mut self, v: bool) -> (r: &mut Self)
        ensures final(r).g@ == final(self).g@, r.g@ == (QSView { reg_enable: v, ..old(self).g@ }) { unimplemented!() }
    #[verifier::external_body] pub fn regularize_eps(&mut self, v: F) -> (r: &mut Self)
        ensures final(r).g@ == final(self).g@, r.g@ == (QSView { eps: v, ..old(self).g@ }) { unimplemented!() }
    #[verifier::external_body] pub fn regularize_delta(&mut self, v: F) -> (r: &mut Self)
        ensures final(r).g@ == final(self).g@, r.g@ == (QSView { delta: v, ..old(self).g@ }) { unimplemented!() }
    #[verifier::external_body] pub fn amd_dense_scale(&mut self, v: f64) -> (r: &mut Self)
        ensures final(r).g@ == final(self).g@, r.g@ == (QSView { amd: v, ..old(self).g@ }) { unimplemented!() }
    #[verifier::external_body] pub fn build(&self) -> (r: Result<QDLDLSettings<F>, u8>)
        ensures r is Ok, qs_view(r->Ok_0) == self.g@, r->Ok_0.perm is None { unimplemented!() }
}
// the factorisation object was built from matrix K with these options (uninterpreted record of the constructor's arguments)
pub uninterp spec fn q_built_with(f: QDLDLFactorisation<F>, K: CscMatrix<F>, o: QSView, perm: Option<Vec<usize>>) -> bool;
impl QDLDLFactorisation<F> {
    #[verifier::external_body]
    pub fn new(Ain: &CscMatrix<F>, opts: Option<QDLDLSettings<F>>) -> (r: Result<QDLDLFactorisation<F>, QDLDLError>)
        ensures r is Ok && opts is Some ==> {
            let f = r->Ok_0; let o = opts->Some_0;
            &&& q_built_with(f, *Ain, qs_view(o), o.perm)
            // the permuted copy holds the values of Ain (unit csc_utils: permute_symmetric, entry k -> slot tpos(k), injective)
            &&& q_map_ok(f) && q_copy(f) == Ain.nzval@ && f.g@.n == Ain.n && f.g@.solvable && f.g@.nsolves == 0
            // a logical factorisation is symbolic only
            &&& (o.logical ==> !f.g@.numeric)
        },
    { unimplemented!() }
}
impl CscMatrix<F> {
//@fn file=src/algebra/csc/core.rs in="ShapedMatrix for CscMatrix<T>" name=is_square rules=R1 ret=r
//@contract
    ensures r == (self.m == self.n),
//@end
}

//@struct file=src/solver/core/kktsolvers/direct/quasidef/ldlsolvers/qdldl.rs name=QDLDLDirectLDLSolver

// the engine's copy of user entry i, read through the index map
pub open spec fn q_copy(f: QDLDLFactorisation<F>) -> Seq<F> { Seq::new(f.g@.a2p.len(), |i: int| f.g@.nz[f.g@.a2p[i] as int]) }
// the index map built by permute_symmetric (unit csc_utils: "entry k -> slot tpos(k), injective") points into nz, one slot per entry
pub open spec fn q_map_ok(f: QDLDLFactorisation<F>) -> bool {
    &&& forall|i: int| 0 <= i < f.g@.a2p.len() ==> #[trigger] f.g@.a2p[i] < f.g@.nz.len()
    &&& forall|i: int, j: int| 0 <= i < j < f.g@.a2p.len() ==> f.g@.a2p[i] != f.g@.a2p[j]
}

// lifting of the kernel contracts (slots of the permuted copy) to the engine's view (entries of the user's matrix): the index
// map is injective, so "last writer per slot" is "last writer per entry" and an entry nobody names keeps its slot's value
pub proof fn lemma_q_slots(f: QDLDLFactorisation<F>, index: Seq<usize>)
    requires q_map_ok(f), idx_below(index, f.g@.a2p.len() as int),
    ensures slots_ok(f, index),
        forall|a: int, b: int| 0 <= a < index.len() && 0 <= b < index.len() && index[a] != index[b] ==> #[trigger] slot_of(f, index, a) != #[trigger] slot_of(f, index, b),
        forall|a: int, s: int| 0 <= a < index.len() && 0 <= s < f.g@.a2p.len() && index[a] != s ==> #[trigger] slot_of(f, index, a) != #[trigger] f.g@.a2p[s],
{
    assert forall|a: int, s: int| 0 <= a < index.len() && 0 <= s < f.g@.a2p.len() && index[a] != s implies #[trigger] slot_of(f, index, a) != #[trigger] f.g@.a2p[s] by {
        let i = index[a] as int;
        if i < s { assert(f.g@.a2p[i] != f.g@.a2p[s]); } else { assert(f.g@.a2p[s] != f.g@.a2p[i]); }
    }
    assert forall|a: int, b: int| 0 <= a < index.len() && 0 <= b < index.len() && index[a] != index[b] implies #[trigger] slot_of(f, index, a) != #[trigger] slot_of(f, index, b) by {
        assert(slot_of(f, index, a) != f.g@.a2p[index[b] as int]);
    }
}
pub proof fn lemma_q_frame(f0: QDLDLFactorisation<F>, f1: QDLDLFactorisation<F>, index: Seq<usize>)
    requires q_map_ok(f0), idx_below(index, f0.g@.a2p.len() as int), only_values_change(f0, f1),
        forall|s: int| 0 <= s < f0.g@.nz.len() && untouched_slot(f0, index, index.len() as int, s) ==> #[trigger] f1.g@.nz[s] == f0.g@.nz[s],
    ensures q_map_ok(f1), q_copy(f1).len() == q_copy(f0).len(),
        forall|s: int| 0 <= s < q_copy(f0).len() && (forall|k: int| 0 <= k < index.len() ==> index[k] != s) ==> #[trigger] q_copy(f1)[s] == q_copy(f0)[s],
{
    lemma_q_slots(f0, index);
    assert forall|s: int| 0 <= s < q_copy(f0).len() && (forall|k: int| 0 <= k < index.len() ==> index[k] != s) implies #[trigger] q_copy(f1)[s] == q_copy(f0)[s] by {
        let t = f0.g@.a2p[s] as int;
        assert forall|k: int| 0 <= k < index.len() implies #[trigger] slot_of(f0, index, k) != t by { assert(index[k] != s); }
        assert(untouched_slot(f0, index, index.len() as int, t));
    }
}

impl DirectLDLSolver for QDLDLDirectLDLSolver<F> {
    open spec fn wf(&self) -> bool { q_map_ok(self.factors) && self.factors.g@.solvable }
    open spec fn copy(&self) -> Seq<F> { q_copy(self.factors) }
    open spec fn dim(&self) -> nat { self.factors.g@.n }
    open spec fn ready(&self) -> bool { self.factors.g@.numeric }
    open spec fn solves(&self, b: Seq<F>, x: Seq<F>) -> bool { lin_solves(self.factors.g@.fact, b, x) }
    open spec fn nsolves(&self) -> nat { self.factors.g@.nsolves }
//@fn file=src/solver/core/kktsolvers/direct/quasidef/ldlsolvers/qdldl.rs in="DirectLDLSolver<T> for QDLDLDirectLDLSolver<T>" name=update_values rules=R1
//@pre
        proof { lemma_q_slots(self.factors, index@); }
//@post
        proof {
            let f0 = old(self).factors; let f1 = self.factors;
            lemma_q_frame(f0, f1, index@);
            assert forall|k: int| last_writer(index@, upd_n(index@, values@), k) implies q_copy(f1)[#[trigger] index@[k] as int] == values@[k] by {
                assert forall|k2: int| k < k2 < index@.len() implies slot_of(f0, index@, k2) != slot_of(f0, index@, k) by { assert(index@[k2] != index@[k]); }
                assert(f1.g@.nz[slot_of(f0, index@, k)] == values@[k]);
            }
        }
//@end
//@fn file=src/solver/core/kktsolvers/direct/quasidef/ldlsolvers/qdldl.rs in="DirectLDLSolver<T> for QDLDLDirectLDLSolver<T>" name=scale_values rules=R1
//@pre
        proof { lemma_q_slots(self.factors, index@); }
//@post
        proof {
            let f0 = old(self).factors; let f1 = self.factors;
            lemma_q_frame(f0, f1, index@);
            assert forall|k: int| 0 <= k < index@.len() implies q_copy(f1)[#[trigger] index@[k] as int] == f_mul(q_copy(f0)[index@[k] as int], scale) by {
                assert(f1.g@.nz[slot_of(f0, index@, k)] == f_mul(f0.g@.nz[slot_of(f0, index@, k)], scale));
            }
        }
//@end
//@fn file=src/solver/core/kktsolvers/direct/quasidef/ldlsolvers/qdldl.rs in="DirectLDLSolver<T> for QDLDLDirectLDLSolver<T>" name=offset_values rules=R1
//@pre
        proof { lemma_q_slots(self.factors, index@); }
//@post
        proof {
            let f0 = old(self).factors; let f1 = self.factors;
            lemma_q_frame(f0, f1, index@);
            assert forall|k: int| 0 <= k < index@.len() implies q_copy(f1)[#[trigger] index@[k] as int] == shifted(q_copy(f0)[index@[k] as int], offset, signs@[k]) by {
                assert(f1.g@.nz[slot_of(f0, index@, k)] == shifted(f0.g@.nz[slot_of(f0, index@, k)], offset, signs@[k]));
            }
        }
//@end
//@fn file=src/solver/core/kktsolvers/direct/quasidef/ldlsolvers/qdldl.rs in="DirectLDLSolver<T> for QDLDLDirectLDLSolver<T>" name=solve rules=R1
//@end
//@fn file=src/solver/core/kktsolvers/direct/quasidef/ldlsolvers/qdldl.rs in="DirectLDLSolver<T> for QDLDLDirectLDLSolver<T>" name=refactor rules=R1,R13 ret=r
//@contract
    ensures
        // C12 (text of unit ldl_wrapper): success is reported only for a completed factorisation
        r ==> final(self).factors.g@.valid, r ==> vm_is_finite(final(self).factors.Dinv@),
//@end
}
impl QDLDLDirectLDLSolver<F> {
//@fn file=src/solver/core/kktsolvers/direct/quasidef/ldlsolvers/qdldl.rs in="impl<T> QDLDLDirectLDLSolver<T>" name=new rules=R1,R13,R27 ret=r
//@contract
    requires
        // documented panic otherwise ("KKT matrix is not square")
        KKT.m == KKT.n,
    ensures
        // a LOGICAL factorisation of KKT with the given signs and permutation, dynamic regularisation on with the eps / delta of the
        // settings, AMD dense scale 1.5; failure to build it is a panic (unwrap), never a half-built object
        q_built_with(r.factors, *KKT, QSView { amd: 1.5f64, logical: true, dsigns: Some(Dsigns@), reg_enable: true,
            eps: settings.dynamic_regularization_eps, delta: settings.dynamic_regularization_delta }, perm),
        // the engine starts with a copy of the KKT values and no numeric factorisation
        r.wf(), r.copy() == KKT.nzval@, r.dim() == KKT.n, !r.ready(), r.nsolves() == 0,
//@end
//@fn file=src/solver/core/kktsolvers/direct/quasidef/ldlsolvers/qdldl.rs in="DirectLDLSolverReqs<T> for QDLDLDirectLDLSolver<T>" name=required_matrix_shape rules=R1 ret=r
//@contract
    ensures r == MatrixTriangle::Triu,
//@end
}

// ------------------------------------------------------------------ the KKT solver behind DefaultKKTSystem (trait KKTSolver)
// stand-in for crate::solver::core::cones::CompositeCone (only passed through / called through the assumed methods below)
pub struct CompositeCone<T> { pub _p: Option<T> }
pub open spec fn opt_len(o: Option<&mut [F]>, n: nat) -> bool { match o { Some(v) => v@.len() == n, None => true } }

//@trait file=src/solver/core/kktsolvers/mod.rs name=KKTSolver header="pub trait KKTSolver" rules=R1
//@extra
    // ghost reading of a KKT solver: implementation invariant, "a numeric factorisation exists" (update was called), the
    // dimensions, the right-hand side loaded by setrhs and whether one was loaded, the x / z part of the solution buffer, whether
    // that buffer holds a solution the implementation accepted for the loaded right-hand side, and the values of P and A as they
    // sit in the KKT matrix kept for refinement (kkt_*) and in the engine's own copy (eng_*)
    spec fn wf(&self) -> bool;
    spec fn ready(&self) -> bool;
    spec fn dim_n(&self) -> nat;
    spec fn dim_m(&self) -> nat;
    spec fn rhs_set(&self) -> bool;
    spec fn rhs_x(&self) -> Seq<F>;
    spec fn rhs_z(&self) -> Seq<F>;
    spec fn sol_x(&self) -> Seq<F>;
    spec fn sol_z(&self) -> Seq<F>;
    spec fn sol_ok(&self, settings: &CoreSettings<F>) -> bool;
    spec fn kkt_P(&self) -> Seq<F>;
    spec fn kkt_A(&self) -> Seq<F>;
    spec fn eng_P(&self) -> Seq<F>;
    spec fn eng_A(&self) -> Seq<F>;
//@sig update
ret=r
    requires old(self).wf(),
    ensures final(self).wf(), final(self).ready(), final(self).dim_n() == old(self).dim_n(), final(self).dim_m() == old(self).dim_m(),
//@sig setrhs
    requires old(self).wf(), x@.len() == old(self).dim_n(), z@.len() == old(self).dim_m(),
    ensures final(self).wf(), final(self).dim_n() == old(self).dim_n(), final(self).dim_m() == old(self).dim_m(), final(self).ready() == old(self).ready(),
        final(self).kkt_P() == old(self).kkt_P(), final(self).kkt_A() == old(self).kkt_A(), final(self).eng_P() == old(self).eng_P(), final(self).eng_A() == old(self).eng_A(),
        final(self).rhs_set(), final(self).rhs_x() == x@, final(self).rhs_z() == z@,
        final(self).sol_x() == old(self).sol_x(), final(self).sol_z() == old(self).sol_z(),
//@sig solve
ret=r
    requires old(self).wf(), old(self).ready(), old(self).rhs_set(), opt_len(x, old(self).dim_n()), opt_len(z, old(self).dim_m()),
    ensures final(self).wf(), final(self).dim_n() == old(self).dim_n(), final(self).dim_m() == old(self).dim_m(), final(self).ready() == old(self).ready(),
        final(self).kkt_P() == old(self).kkt_P(), final(self).kkt_A() == old(self).kkt_A(), final(self).eng_P() == old(self).eng_P(), final(self).eng_A() == old(self).eng_A(),
        final(self).rhs_set(), final(self).rhs_x() == old(self).rhs_x(), final(self).rhs_z() == old(self).rhs_z(),
        // C12: success is reported only for a solution the implementation accepted; only then are the outputs written
        r ==> final(self).sol_ok(settings),
        final(self).sol_x().len() == final(self).dim_n(), final(self).sol_z().len() == final(self).dim_m(),
        (match x { Some(v) => final(v)@ == (if r { final(self).sol_x() } else { v@ }), None => true }),
        (match z { Some(v) => final(v)@ == (if r { final(self).sol_z() } else { v@ }), None => true }),
//@sig update_P
    requires old(self).wf(), P.nzval@.len() == old(self).kkt_P().len(),
    ensures final(self).wf(), final(self).dim_n() == old(self).dim_n(), final(self).dim_m() == old(self).dim_m(), final(self).ready() == old(self).ready(),
        // C08: the new values of P reach the KKT matrix and the engine's copy; the A blocks stay
        final(self).kkt_P() == P.nzval@, final(self).eng_P() == P.nzval@,
        final(self).kkt_A() == old(self).kkt_A(), final(self).eng_A() == old(self).eng_A(),
//@sig update_A
    requires old(self).wf(), A.nzval@.len() == old(self).kkt_A().len(),
    ensures final(self).wf(), final(self).dim_n() == old(self).dim_n(), final(self).dim_m() == old(self).dim_m(), final(self).ready() == old(self).ready(),
        final(self).kkt_A() == A.nzval@, final(self).eng_A() == A.nzval@,
        final(self).kkt_P() == old(self).kkt_P(), final(self).eng_P() == old(self).eng_P(),
//@end

// ------------------------------------------------------------------ DirectLDLKKTSolver (directldlkktsolver.rs)
//@struct file=src/solver/core/kktsolvers/direct/quasidef/directldlkktsolver.rs name=DirectLDLKKTSolver keep=m,n,p,x,b,work1,work2,map,dsigns,KKT,ldlsolver,diagonal_regularizer
pub open spec fn zeros_from(b: Seq<F>, lo: int) -> bool { forall|i: int| lo <= i < b.len() ==> #[trigger] b[i] == f_zero() }
pub open spec fn gather(nz: Seq<F>, idx: Seq<usize>) -> Seq<F> { Seq::new(idx.len(), |k: int| nz[idx[k] as int]) }
pub open spec fn idx_disjoint(a: Seq<usize>, b: Seq<usize>) -> bool { forall|i: int, j: int| 0 <= i < a.len() && 0 <= j < b.len() ==> a[i] != b[j] }
// e = b - sym(K) x  row by row (real arithmetic), K the stored upper triangle
pub open spec fn resid_of(K: CscMatrix<F>, b: Seq<F>, x: Seq<F>, e: Seq<F>) -> bool {
    e.len() == K.n && forall|r: int| 0 <= r < K.n ==> (#[trigger] e[r]).v() == b[r].v() - sv_total(K, x, r, K.n as int)
}
// x has a finite residual norm with respect to K
pub open spec fn refined_ok(K: CscMatrix<F>, b: Seq<F>, x: Seq<F>) -> bool {
    exists|e: Seq<F>| #[trigger] resid_of(K, b, x, e) && f_is_finite(vm_norm_inf(e))
}

//@fn file=src/solver/core/kktsolvers/direct/quasidef/directldlkktsolver.rs name=_get_refine_error rules=R1,R2 ret=r
//@contract
    requires K.colptr_ok(), K.n == K.m, rows_below(*K, K.n as int), old(e)@.len() == K.n, b@.len() == K.n, old(xi)@.len() == K.n,
    ensures final(xi)@ == old(xi)@, final(e)@.len() == old(e)@.len(),
        // C11: the error is taken with respect to the matrix passed in (the caller passes the KKT copy without regularisation)
        resid_of(*K, b@, old(xi)@, final(e)@), r == vm_norm_inf(final(e)@),
//@pre
    broadcast use real_arith;
//@end

//@fn file=src/solver/core/kktsolvers/direct/quasidef/directldlkktsolver.rs name=_update_values rules=R1
//@contract
    requires idx_below(index@, old(KKT).nzval@.len() as int), old(ldlsolver).copy().len() == old(KKT).nzval@.len(), old(ldlsolver).wf(),
        // (the QDLDL engine indexes values[i] for every i < index.len(): a shorter value vector is a panic there)
        values@.len() >= index@.len(),
    ensures
        final(KKT).same_pattern(old(KKT)), final(ldlsolver).wf(), eng_same_factor(*final(ldlsolver), *old(ldlsolver)), final(ldlsolver).nsolves() == old(ldlsolver).nsolves(),
        // C08: the same update reaches the KKT matrix and the LDL engine's own copy
        is_update(old(ldlsolver).copy(), final(ldlsolver).copy(), index@, values@), is_update(old(KKT).nzval@, final(KKT).nzval@, index@, values@),
//@end
// an update through an index list without repetitions sets exactly the listed slots
pub proof fn lemma_update_gather(z0: Seq<F>, z1: Seq<F>, index: Seq<usize>, values: Seq<F>, other: Seq<usize>)
    requires is_update(z0, z1, index, values), idx_below(index, z0.len() as int), idx_distinct(index), values.len() == index.len(),
        idx_below(other, z0.len() as int), idx_disjoint(index, other),
    ensures gather(z1, index) == values, gather(z1, other) == gather(z0, other),
{
    assert forall|k: int| 0 <= k < index.len() implies gather(z1, index)[k] == #[trigger] values[k] by {
        assert(last_writer(index, upd_n(index, values), k));
    }
    assert(gather(z1, index) =~= values);
    assert forall|j: int| 0 <= j < other.len() implies gather(z1, other)[j] == gather(z0, other)[j] by {
        let t = other[j] as int;
        assert(forall|k: int| 0 <= k < upd_n(index, values) ==> index[k] != t);
    }
    assert(gather(z1, other) =~= gather(z0, other));
}

pub proof fn lemma_same_factor_trans(a: BoxedDirectLDLSolver<F>, b: BoxedDirectLDLSolver<F>, c: BoxedDirectLDLSolver<F>)
    requires eng_same_factor(a, b), eng_same_factor(b, c),
    ensures eng_same_factor(a, c),
{
    assert forall|r: Seq<F>, x: Seq<F>| #[trigger] a.solves(r, x) == c.solves(r, x) by { assert(a.solves(r, x) == b.solves(r, x)); assert(b.solves(r, x) == c.solves(r, x)); }
}
// x is the engine's answer to b, refined: the last accepted iterate of at most `maxiter` refinement steps
pub open spec fn refined_from_engine(eng: BoxedDirectLDLSolver<F>, K: CscMatrix<F>, b: Seq<F>, x: Seq<F>, maxiter: int) -> bool {
    exists|x1: Seq<F>, xs: Seq<Seq<F>>| #[trigger] eng.solves(b, x1) && #[trigger] ir_history(eng, K, b, x1, x, xs, maxiter)
}

impl KKTSolver for DirectLDLKKTSolver<F> {
    open spec fn wf(&self) -> bool {
        let N = self.n + self.m + self.p;
        &&& self.KKT.n == N && self.KKT.m == N && self.KKT.colptr_ok() && rows_below(self.KKT, N)
        &&& self.x@.len() == N && self.b@.len() == N && self.work1@.len() == N && self.work2@.len() == N
        &&& self.ldlsolver.wf() && self.ldlsolver.dim() == N && self.ldlsolver.copy().len() == self.KKT.nzval@.len()
        // the recorded slots of P and A point into the KKT matrix, never repeat and never coincide (unit csc_utils: assembly)
        &&& idx_below(self.map.P@, self.KKT.nzval@.len() as int) && idx_distinct(self.map.P@)
        &&& idx_below(self.map.A@, self.KKT.nzval@.len() as int) && idx_distinct(self.map.A@)
        &&& idx_disjoint(self.map.P@, self.map.A@)
    }
    open spec fn ready(&self) -> bool { self.ldlsolver.ready() }
    open spec fn dim_n(&self) -> nat { self.n as nat }
    open spec fn dim_m(&self) -> nat { self.m as nat }
    // the p rows of the sparse cone expansions carry a zero right-hand side
    open spec fn rhs_set(&self) -> bool { zeros_from(self.b@, self.n + self.m) }
    open spec fn rhs_x(&self) -> Seq<F> { self.b@.subrange(0, self.n as int) }
    open spec fn rhs_z(&self) -> Seq<F> { self.b@.subrange(self.n as int, self.n + self.m) }
    open spec fn sol_x(&self) -> Seq<F> { self.x@.subrange(0, self.n as int) }
    open spec fn sol_z(&self) -> Seq<F> { self.x@.subrange(self.n as int, self.n + self.m) }
    open spec fn sol_ok(&self, settings: &CoreSettings<F>) -> bool {
        if settings.iterative_refinement_enable { refined_ok(self.KKT, self.b@, self.x@) }
        else { self.ldlsolver.solves(self.b@, self.x@) && vm_is_finite(self.x@) }
    }
    open spec fn kkt_P(&self) -> Seq<F> { gather(self.KKT.nzval@, self.map.P@) }
    open spec fn kkt_A(&self) -> Seq<F> { gather(self.KKT.nzval@, self.map.A@) }
    open spec fn eng_P(&self) -> Seq<F> { gather(self.ldlsolver.copy(), self.map.P@) }
    open spec fn eng_A(&self) -> Seq<F> { gather(self.ldlsolver.copy(), self.map.A@) }
    // NOT under contract: the body of `update` (cone blocks, sparse cone expansions through trait objects and function
    // pointers) is not extracted; the trait contract is ASSUMED for it
    #[verifier::external_body] fn update(&mut self, cones: &CompositeCone<F>, settings: &CoreSettings<F>) -> (r: bool) { unimplemented!() }
//@fn file=src/solver/core/kktsolvers/direct/quasidef/directldlkktsolver.rs in="KKTSolver<T> for DirectLDLKKTSolver<T>" name=setrhs rules=R1,R15:self.b
//@contract
    ensures
        // b = [rhsx; rhsz; 0 ... 0], nothing else is touched
        final(self).b@ == rhsx@ + rhsz@ + Seq::new(old(self).p as nat, |i: int| f_zero()),
        *final(self) == (DirectLDLKKTSolver::<F> { b: final(self).b, ..*old(self) }),
//@end
//@fn file=src/solver/core/kktsolvers/direct/quasidef/directldlkktsolver.rs in="KKTSolver<T> for DirectLDLKKTSolver<T>" name=solve rules=R1 ret=r
//@contract
    ensures
        // only the solution vector, the two work vectors and the engine's solve counter change
        *final(self) == (DirectLDLKKTSolver::<F> { x: final(self).x, work1: final(self).work1, work2: final(self).work2, ldlsolver: final(self).ldlsolver, ..*old(self) }),
        eng_same_factor(final(self).ldlsolver, old(self).ldlsolver), final(self).ldlsolver.copy() == old(self).ldlsolver.copy(),
        // one engine solve, plus at most max_iter refinement solves when refinement is enabled
        final(self).ldlsolver.nsolves() <= old(self).ldlsolver.nsolves() + 1 + (if settings.iterative_refinement_enable { settings.iterative_refinement_max_iter as int } else { 0 }),
        // C12, refinement off: the result is the `is_finite` test of the engine's answer
        !settings.iterative_refinement_enable ==> r == vm_is_finite(final(self).x@) && old(self).ldlsolver.solves(old(self).b@, final(self).x@),
        // refinement on: the vector kept is the engine's answer, refined (see iterative_refinement)
        settings.iterative_refinement_enable && r ==> refined_from_engine(old(self).ldlsolver, old(self).KKT, old(self).b@, final(self).x@, settings.iterative_refinement_max_iter as int),
//@after "self.ldlsolver.solve(&self.KKT, &mut self.x, &self.b);"
        let ghost eng1 = self.ldlsolver;
        let ghost x1 = self.x@;
//@after "let is_success ="
        proof {
            lemma_same_factor_trans(self.ldlsolver, eng1, old(self).ldlsolver);
            if settings.iterative_refinement_enable && is_success {
                let xs = choose|xs: Seq<Seq<F>>| #[trigger] ir_history(eng1, self.KKT, self.b@, x1, self.x@, xs, settings.iterative_refinement_max_iter as int);
                lemma_chain_engine(eng1, old(self).ldlsolver, self.KKT, self.b@, xs);
                assert(old(self).ldlsolver.solves(self.b@, x1) && ir_history(old(self).ldlsolver, self.KKT, self.b@, x1, self.x@, xs, settings.iterative_refinement_max_iter as int));
            }
        }
//@end
//@fn file=src/solver/core/kktsolvers/direct/quasidef/directldlkktsolver.rs in="KKTSolver<T> for DirectLDLKKTSolver<T>" name=update_P rules=R1
//@contract
    ensures
        // everything but the values of the KKT matrix and of the engine's copy is untouched; the pattern is kept
        *final(self) == (DirectLDLKKTSolver::<F> { KKT: final(self).KKT, ldlsolver: final(self).ldlsolver, ..*old(self) }),
        final(self).KKT.same_pattern(&old(self).KKT), eng_same_factor(final(self).ldlsolver, old(self).ldlsolver),
        is_update(old(self).KKT.nzval@, final(self).KKT.nzval@, old(self).map.P@, P.nzval@),
        is_update(old(self).ldlsolver.copy(), final(self).ldlsolver.copy(), old(self).map.P@, P.nzval@),
//@post
        proof {
            lemma_update_gather(old(self).KKT.nzval@, self.KKT.nzval@, self.map.P@, P.nzval@, self.map.A@);
            lemma_update_gather(old(self).ldlsolver.copy(), self.ldlsolver.copy(), self.map.P@, P.nzval@, self.map.A@);
        }
//@end
//@fn file=src/solver/core/kktsolvers/direct/quasidef/directldlkktsolver.rs in="KKTSolver<T> for DirectLDLKKTSolver<T>" name=update_A rules=R1
//@contract
    ensures
        *final(self) == (DirectLDLKKTSolver::<F> { KKT: final(self).KKT, ldlsolver: final(self).ldlsolver, ..*old(self) }),
        final(self).KKT.same_pattern(&old(self).KKT), eng_same_factor(final(self).ldlsolver, old(self).ldlsolver),
        is_update(old(self).KKT.nzval@, final(self).KKT.nzval@, old(self).map.A@, A.nzval@),
        is_update(old(self).ldlsolver.copy(), final(self).ldlsolver.copy(), old(self).map.A@, A.nzval@),
//@post
        proof {
            assert(idx_disjoint(self.map.A@, self.map.P@));
            lemma_update_gather(old(self).KKT.nzval@, self.KKT.nzval@, self.map.A@, A.nzval@, self.map.P@);
            lemma_update_gather(old(self).ldlsolver.copy(), self.ldlsolver.copy(), self.map.A@, A.nzval@, self.map.P@);
        }
//@end
}

// x' = 1*x + 1*d entry by entry (the arithmetic of `dx.axpby(one, x, one)`)
pub open spec fn axpy1(x: Seq<F>, d: Seq<F>, y: Seq<F>) -> bool {
    y.len() == x.len() && forall|i: int| 0 <= i < x.len() ==> #[trigger] y[i] == f_add(f_mul(f_one(), x[i]), f_mul(f_one(), d[i]))
}
// one refinement step with the engine `eng`: the correction d is what the engine returns for the error e = b - Kx
pub open spec fn refine_step(eng: BoxedDirectLDLSolver<F>, K: CscMatrix<F>, b: Seq<F>, x: Seq<F>, xn: Seq<F>) -> bool {
    exists|e: Seq<F>, d: Seq<F>| #[trigger] resid_of(K, b, x, e) && #[trigger] eng.solves(e, d) && axpy1(x, d, xn)
}
pub open spec fn refine_chain(eng: BoxedDirectLDLSolver<F>, K: CscMatrix<F>, b: Seq<F>, xs: Seq<Seq<F>>) -> bool {
    forall|i: int| 0 <= i < xs.len() - 1 ==> refine_step(eng, K, b, #[trigger] xs[i], xs[i + 1])
}
// a trial iterate is kept iff the error ratio reaches the stop ratio or is at least an improvement
pub open spec fn ir_accepts(last: F, new: F, stop: F) -> bool {
    !f_lt(f_div(last, new), stop) || f_lt(f_one(), f_div(last, new))
}
// F-real reading of norm_inf (ASSUMED, part of the F-real model of the vector kernels, as in unit info_update): a norm is >= 0
pub broadcast proof fn ax_norm_inf_nonneg(a: Seq<F>) ensures #[trigger] vm_norm_inf(a).v() >= 0real { admit(); }
// with a stop ratio >= 1 a kept iterate is never worse than the one it replaces (real arithmetic)
pub proof fn lemma_accept_not_worse(last: F, new: F, stop: F)
    requires ir_accepts(last, new, stop), stop.v() >= 1real, last.v() >= 0real, new.v() >= 0real,
    ensures new.v() <= last.v(),
{
    broadcast use real_arith;
    if new.v() != 0real {
        let q = f_div(last, new).v();
        assert(q == last.v() / new.v());
        assert(q >= 1real);
        assert(last.v() >= new.v()) by(nonlinear_arith) requires q == last.v() / new.v(), q >= 1real, new.v() > 0real;
    }
}

// the history of a refinement: accepted iterates xs[0] = the engine's first answer, ..., xs.last() = the vector returned;
// each one is the previous plus the engine's answer to its residual; at most `maxiter` of them were added
pub open spec fn ir_history(eng: BoxedDirectLDLSolver<F>, K: CscMatrix<F>, b: Seq<F>, x0: Seq<F>, x1: Seq<F>, xs: Seq<Seq<F>>, maxiter: int) -> bool {
    1 <= xs.len() <= maxiter + 1 && xs[0] == x0 && xs[xs.len() - 1] == x1 && refine_chain(eng, K, b, xs)
}
// the residual norm of x1 is not larger than that of x0 (real arithmetic)
pub open spec fn not_worse(K: CscMatrix<F>, b: Seq<F>, x0: Seq<F>, x1: Seq<F>) -> bool {
    exists|e0: Seq<F>, e1: Seq<F>| #[trigger] resid_of(K, b, x0, e0) && #[trigger] resid_of(K, b, x1, e1) && vm_norm_inf(e1).v() <= vm_norm_inf(e0).v()
}
// a refinement history with one engine is a history with any engine that holds the same factors
pub proof fn lemma_chain_engine(a: BoxedDirectLDLSolver<F>, c: BoxedDirectLDLSolver<F>, K: CscMatrix<F>, b: Seq<F>, xs: Seq<Seq<F>>)
    requires eng_same_factor(a, c), refine_chain(a, K, b, xs),
    ensures refine_chain(c, K, b, xs),
{
    assert forall|i: int| 0 <= i < xs.len() - 1 implies refine_step(c, K, b, #[trigger] xs[i], xs[i + 1]) by {
        assert(refine_step(a, K, b, xs[i], xs[i + 1]));
        let (e, d) = choose|e: Seq<F>, d: Seq<F>| #[trigger] resid_of(K, b, xs[i], e) && #[trigger] a.solves(e, d) && axpy1(xs[i], d, xs[i + 1]);
        assert(a.solves(e, d) == c.solves(e, d));
    }
}

pub proof fn lemma_chain_push(eng: BoxedDirectLDLSolver<F>, K: CscMatrix<F>, b: Seq<F>, xs: Seq<Seq<F>>, xn: Seq<F>)
    requires xs.len() >= 1, refine_chain(eng, K, b, xs), refine_step(eng, K, b, xs[xs.len() - 1], xn),
    ensures refine_chain(eng, K, b, xs.push(xn)),
{
    let ys = xs.push(xn);
    assert forall|i: int| 0 <= i < ys.len() - 1 implies refine_step(eng, K, b, #[trigger] ys[i], ys[i + 1]) by {
        if i < xs.len() - 1 { assert(ys[i] == xs[i] && ys[i + 1] == xs[i + 1]); }
    }
}

impl DirectLDLKKTSolver<F> {
//@fn file=src/solver/core/kktsolvers/direct/quasidef/directldlkktsolver.rs in="impl<T> DirectLDLKKTSolver<T>" name=getlhs rules=R1
//@contract
    requires self.n + self.m <= self.x@.len(), opt_len(lhsx, self.n as nat), opt_len(lhsz, self.m as nat),
    ensures
        // x = the first n entries of the solution work vector, z = the next m; an absent output is skipped
        (match lhsx { Some(v) => final(v)@ == self.x@.subrange(0, self.n as int), None => true }),
        (match lhsz { Some(v) => final(v)@ == self.x@.subrange(self.n as int, self.n + self.m), None => true }),
//@pre
        proof { assert(self.x@.len() == self.x.len()); }
//@end
//@fn file=src/solver/core/kktsolvers/direct/quasidef/directldlkktsolver.rs in="impl<T> DirectLDLKKTSolver<T>" name=iterative_refinement rules=R1,retbrk ret=r
//@contract
    requires old(self).wf(), old(self).ldlsolver.ready(),
    ensures
        final(self).wf(),
        // only the solution vector, the two work vectors and the engine's solve counter change: the KKT matrix, the maps, the
        // right-hand side, the engine's copy and its factors are what they were
        *final(self) == (DirectLDLKKTSolver::<F> { x: final(self).x, work1: final(self).work1, work2: final(self).work2, ldlsolver: final(self).ldlsolver, ..*old(self) }),
        eng_same_factor(final(self).ldlsolver, old(self).ldlsolver), final(self).ldlsolver.copy() == old(self).ldlsolver.copy(),
        // at most max_iter refinement solves
        final(self).ldlsolver.nsolves() <= old(self).ldlsolver.nsolves() + settings.iterative_refinement_max_iter,
        // C12: success means that the vector returned has a finite residual norm; C11: the residual is b - sym(KKT) x for the KKT
        // matrix held by the solver (which carries no regularisation: regularize_and_refactor restores it, unit kkt_reg)
        r ==> refined_ok(old(self).KKT, old(self).b@, final(self).x@),
        // the vector returned is the last ACCEPTED iterate of the refinement
        r ==> exists|xs: Seq<Seq<F>>| #[trigger] ir_history(old(self).ldlsolver, old(self).KKT, old(self).b@, old(self).x@, final(self).x@, xs, settings.iterative_refinement_max_iter as int),
        // ... and with a stop ratio >= 1 it is not worse than the vector the refinement started from
        r && settings.iterative_refinement_stop_ratio.v() >= 1real ==> not_worse(old(self).KKT, old(self).b@, old(self).x@, final(self).x@),
        // refinement is skipped altogether only when the engine's answer is already within tolerance (abstol + reltol |b|)
        r && settings.iterative_refinement_max_iter > 0 && final(self).ldlsolver.nsolves() == old(self).ldlsolver.nsolves() ==>
            final(self).x@ == old(self).x@ && resid_of(old(self).KKT, old(self).b@, final(self).x@, final(self).work1@)
            && f_le(vm_norm_inf(final(self).work1@), f_add(settings.iterative_refinement_abstol, f_mul(settings.iterative_refinement_reltol, vm_norm_inf(old(self).b@)))),
        // failure: the last residual computed (of the current iterate or of the trial) has a norm that is not finite
        !r ==> !f_is_finite(vm_norm_inf(final(self).work1@))
            && (resid_of(old(self).KKT, old(self).b@, final(self).x@, final(self).work1@) || resid_of(old(self).KKT, old(self).b@, final(self).work2@, final(self).work1@)),
//@pre
        let ghost eng0 = self.ldlsolver;
        let ghost x0 = self.x@;
        let ghost n0 = self.ldlsolver.nsolves();
        let ghost nn = (self.n + self.m + self.p) as nat;
//@after "let mut norme = _get_refine_error(e, b, K, x);"
        let ghost e0 = e@;
        let ghost mut ew = e@;
        let ghost mut xs: Seq<Seq<F>> = seq![x0];
        let ghost mut ex: int = 0;   // how the loop was left: 0 = ran to the end, 1 = within tolerance, 2 = insufficient improvement
        proof { assert(refine_chain(eng0, *K, b@, xs)); }
//@iter 1
it
//@loop 1
            invariant_except_break
                rb_ret1 is None, ex == 0, e@ == ew, norme == vm_norm_inf(e@),
                self.ldlsolver.nsolves() == n0 + it.index@, xs.len() <= it.index@ + 1,
            invariant
                // an early `return false` (rule retbrk: carried out of the loop by `break`): the residual of the trial is not finite
                rb_ret1 is Some ==> rb_ret1 == Some(false) && !f_is_finite(vm_norm_inf(e@)) && resid_of(*K, b@, dx@, e@),
                old(self).wf(), eng0 == old(self).ldlsolver, n0 == eng0.nsolves(), x0 == old(self).x@, nn == old(self).n + old(self).m + old(self).p,
                self.map == old(self).map, self.n == old(self).n, self.m == old(self).m, self.p == old(self).p, self.dsigns == old(self).dsigns,
                self.diagonal_regularizer == old(self).diagonal_regularizer, self.KKT == old(self).KKT, self.b == old(self).b,
                maxiter == settings.iterative_refinement_max_iter, stopratio == settings.iterative_refinement_stop_ratio,
                abstol == settings.iterative_refinement_abstol, reltol == settings.iterative_refinement_reltol, normb == vm_norm_inf(b@),
                0 <= ex <= 2, ex == 1 ==> xs.len() == 1 || self.ldlsolver.nsolves() > n0,
                ex == 1 ==> resid_of(*K, b@, x@, e@) && f_le(vm_norm_inf(e@), f_add(abstol, f_mul(reltol, normb))),
                ex == 2 ==> self.ldlsolver.nsolves() > n0, rb_ret1 is Some ==> self.ldlsolver.nsolves() > n0,
                *K == old(self).KKT, b@ == old(self).b@, K.colptr_ok(), K.n == K.m, K.n == nn, rows_below(*K, K.n as int),
                x@.len() == nn, e@.len() == nn, dx@.len() == nn, b@.len() == nn,
                self.ldlsolver.wf(), self.ldlsolver.ready(), self.ldlsolver.dim() == nn,
                eng_same_factor(self.ldlsolver, eng0), self.ldlsolver.copy() == eng0.copy(),
                self.ldlsolver.nsolves() <= n0 + maxiter,
                resid_of(*K, b@, x@, ew), f_is_finite(vm_norm_inf(ew)),
                resid_of(*K, b@, x0, e0),
                stopratio.v() >= 1real ==> vm_norm_inf(ew).v() <= vm_norm_inf(e0).v(),
                1 <= xs.len() <= maxiter + 1, xs[0] == x0, xs[xs.len() - 1] == x@, refine_chain(eng0, *K, b@, xs),
            ensures rb_ret1 is Some || ex != 0 || self.ldlsolver.nsolves() == n0 + maxiter,
//@before "break;" #1
                proof { ex = 1; }
//@before "break;" #3
                proof { ex = 2; }
//@after "let lastnorme = norme;"
            let ghost eprev = e@;
            let ghost xprev = x@;
            let ghost engk = self.ldlsolver;
//@after "self.ldlsolver.solve(K, dx"
            let ghost d = dx@;
            proof {
                assert(eng_same_factor(self.ldlsolver, eng0)) by {
                    assert forall|r: Seq<F>, y: Seq<F>| #[trigger] self.ldlsolver.solves(r, y) == eng0.solves(r, y) by {
                        assert(self.ldlsolver.solves(r, y) == engk.solves(r, y)); assert(engk.solves(r, y) == eng0.solves(r, y));
                    }
                }
                assert(it.index@ < maxiter);
            }
//@after "norme = _get_refine_error(e, b, K, dx);"
            proof {
                assert(eng0.solves(eprev, d)) by { assert(engk.solves(eprev, d)); }
                assert(axpy1(xprev, d, dx@));
                assert(refine_step(eng0, *K, b@, xprev, dx@));
            }
//@after "std::mem::swap(x, dx);" #1
                    proof {
                        broadcast use ax_norm_inf_nonneg;
                        assert(ir_accepts(lastnorme, norme, stopratio));
                        if stopratio.v() >= 1real { lemma_accept_not_worse(lastnorme, norme, stopratio); }
                        lemma_chain_push(eng0, *K, b@, xs, x@);
                        xs = xs.push(x@);
                        ew = e@;
                    }
//@after "std::mem::swap(x, dx);" #2
            proof {
                broadcast use ax_norm_inf_nonneg;
                assert(ir_accepts(lastnorme, norme, stopratio));
                if stopratio.v() >= 1real { lemma_accept_not_worse(lastnorme, norme, stopratio); }
                lemma_chain_push(eng0, *K, b@, xs, x@);
                xs = xs.push(x@);
                ew = e@;
            }
//@before "true"
        proof {
            assert(ir_history(eng0, old(self).KKT, old(self).b@, x0, x@, xs, settings.iterative_refinement_max_iter as int));
            if settings.iterative_refinement_stop_ratio.v() >= 1real { assert(resid_of(old(self).KKT, old(self).b@, x0, e0) && resid_of(old(self).KKT, old(self).b@, x@, ew)); }
        }
//@end
}

// ------------------------------------------------------------------ DefaultKKTSystem (implementations/default/kktsystem.rs)
//@enum file=src/solver/core/solver.rs name=StepDirection derive="PartialEq, Eq, Clone, Copy, Structural"
//@struct file=src/solver/implementations/default/variables.rs name=DefaultVariables rules=R2
//@struct file=src/solver/implementations/default/problemdata.rs name=DefaultProblemData keep=P,q,A,b,n,m
//@trait file=src/solver/core/traits.rs name=Settings header="pub trait Settings" rules=R1 keep=core
//@extra
    spec fn core_spec(&self) -> DefaultSettings<F>;
//@sig core
ret=r
    ensures *r == self.core_spec()
//@end
impl Settings for DefaultSettings<F> {
    open spec fn core_spec(&self) -> DefaultSettings<F> { *self }
//@fn file=src/solver/implementations/default/settings.rs in="Settings<T> for DefaultSettings<T>" name=core rules=R1
//@end
}
// stand-in for `type BoxedKKTSolver<T> = Box<dyn KKTSolver<T> + Send + Sync>` (trait object).  ASSUMED: dynamic dispatch lands in
// an implementation that honours the contracts written on the trait declaration (DirectLDLKKTSolver above is verified against them,
// except for `update`)
pub struct BoxedKKTSolver<T> { pub _p: Option<T> }
impl KKTSolver for BoxedKKTSolver<F> {
    uninterp spec fn wf(&self) -> bool;
    uninterp spec fn ready(&self) -> bool;
    uninterp spec fn dim_n(&self) -> nat;
    uninterp spec fn dim_m(&self) -> nat;
    uninterp spec fn rhs_set(&self) -> bool;
    uninterp spec fn rhs_x(&self) -> Seq<F>;
    uninterp spec fn rhs_z(&self) -> Seq<F>;
    uninterp spec fn sol_x(&self) -> Seq<F>;
    uninterp spec fn sol_z(&self) -> Seq<F>;
    uninterp spec fn sol_ok(&self, settings: &CoreSettings<F>) -> bool;
    uninterp spec fn kkt_P(&self) -> Seq<F>;
    uninterp spec fn kkt_A(&self) -> Seq<F>;
    uninterp spec fn eng_P(&self) -> Seq<F>;
    uninterp spec fn eng_A(&self) -> Seq<F>;
    #[verifier::external_body] fn update(&mut self, cones: &CompositeCone<F>, settings: &CoreSettings<F>) -> (r: bool) { unimplemented!() }
    #[verifier::external_body] fn setrhs(&mut self, x: &[F], z: &[F]) { unimplemented!() }
    #[verifier::external_body] fn solve(&mut self, x: Option<&mut [F]>, z: Option<&mut [F]>, settings: &CoreSettings<F>) -> (r: bool) { unimplemented!() }
    #[verifier::external_body] fn update_P(&mut self, P: &CscMatrix<F>) { unimplemented!() }
    #[verifier::external_body] fn update_A(&mut self, A: &CscMatrix<F>) { unimplemented!() }
}
// the linear system (dimensions, data blocks in both copies, readiness) is the same
pub open spec fn ks_same_system(a: BoxedKKTSolver<F>, b: BoxedKKTSolver<F>) -> bool {
    &&& a.dim_n() == b.dim_n() && a.dim_m() == b.dim_m() && a.ready() == b.ready()
    &&& a.kkt_P() == b.kkt_P() && a.kkt_A() == b.kkt_A() && a.eng_P() == b.eng_P() && a.eng_A() == b.eng_A()
}
// the cone operations used by the step equations: ASSUMED contracts over uninterpreted symbols.  `scaling` names the state of
// the cones that Hs and the offset term depend on; neither operation changes it.
pub uninterp spec fn cone_hs_mul(scaling: int, x: Seq<F>) -> Seq<F>;                      // Hs x  (Hs = W'W, resp. mu H(z))
pub uninterp spec fn cone_ds_offset(scaling: int, ds: Seq<F>, z: Seq<F>) -> Seq<F>;       // the constant term of  Hs dz + ds = -c
impl CompositeCone<F> {
    pub uninterp spec fn scaling(&self) -> int;
    pub uninterp spec fn numel(&self) -> nat;
    #[verifier::external_body]
    pub fn mul_Hs(&mut self, y: &mut [F], x: &[F], work: &mut [F])
        requires old(y)@.len() == old(self).numel(), x@.len() == old(self).numel(), old(work)@.len() == old(self).numel(),
        ensures final(self).scaling() == old(self).scaling(), final(self).numel() == old(self).numel(),
            final(y)@.len() == old(y)@.len(), final(work)@.len() == old(work)@.len(),
            final(y)@ == cone_hs_mul(old(self).scaling(), x@),
    { unimplemented!() }
    #[verifier::external_body]
    pub fn Deltas_from_Deltaz_offset(&mut self, out: &mut [F], ds: &[F], work: &mut [F], z: &[F])
        requires old(out)@.len() == old(self).numel(), ds@.len() == old(self).numel(), old(work)@.len() == old(self).numel(), z@.len() == old(self).numel(),
        ensures final(self).scaling() == old(self).scaling(), final(self).numel() == old(self).numel(),
            final(out)@.len() == old(out)@.len(), final(work)@.len() == old(work)@.len(),
            final(out)@ == cone_ds_offset(old(self).scaling(), ds@, z@),
    { unimplemented!() }
}
// quadratic form  y' sym(M) x  of an upper-triangular M  (definitions of units/csc_math.rs, verbatim)
pub open spec fn qf_entry(M: CscMatrix<F>, y: Seq<F>, x: Seq<F>, c: int, k: int) -> real {
    let r = M.rowval@[k] as int; let mv = M.nzval@[k].v();
    if r == c { mv * x[c].v() * y[c].v() } else { mv * x[r].v() * y[c].v() + mv * y[r].v() * x[c].v() }
}
pub open spec fn qf_col(M: CscMatrix<F>, y: Seq<F>, x: Seq<F>, c: int, hi: int) -> real decreases hi - M.colptr@[c] {
    if hi <= M.colptr@[c] { 0real } else { qf_col(M, y, x, c, hi - 1) + qf_entry(M, y, x, c, hi - 1) }
}
pub open spec fn qf_total(M: CscMatrix<F>, y: Seq<F>, x: Seq<F>, j: int) -> real decreases j {
    if j <= 0 { 0real } else { qf_total(M, y, x, j - 1) + qf_col(M, y, x, j - 1, M.colptr@[j] as int) }
}
// ASSUMED here, PROVED in unit csc_math (`_csc_quad_form`), contract text verbatim
#[verifier::external_body]
fn _csc_quad_form(M: &CscMatrix<F>, y: &[F], x: &[F]) -> (r: F)
    requires
        M.colptr_ok(), M.n == M.m, x@.len() == M.n, y@.len() == M.n,
        forall|c: int, k: int| #[trigger] M.in_col(k, c) ==> M.rowval@[k] <= c,
    ensures r.v() == qf_total(*M, y@, x@, M.n as int),
{ unimplemented!() }
impl CscMatrix<F> {
//@fn file=src/algebra/csc/matrix_math.rs in="MatrixMath<T> for CscMatrix<T>" name=quad_form rules=R1 ret=r
//@contract
    requires
        self.colptr_ok(), self.n == self.m, x@.len() == self.n, y@.len() == self.n,
        forall|c: int, k: int| #[trigger] self.in_col(k, c) ==> self.rowval@[k] <= c,
    ensures r.v() == qf_total(*self, y@, x@, self.n as int),
//@end
}
//@struct file=src/solver/implementations/default/kktsystem.rs name=DefaultKKTSystem

impl CscMatrix<F> {
//@fn file=src/algebra/csc/core.rs in="impl<T> CscMatrix<T>" name=nnz rules=R1 ret=r
//@contract
    requires self.colptr@.len() == self.n + 1,
    ensures r == self.colptr@[self.n as int],
//@end
}
// the solver state `ks` belongs to the same linear system as `k0`, holds the right-hand side (bx, bz) and a solution it accepted for it
pub open spec fn solved_for(ks: BoxedKKTSolver<F>, k0: BoxedKKTSolver<F>, st: &CoreSettings<F>, bx: Seq<F>, bz: Seq<F>) -> bool {
    ks_same_system(ks, k0) && ks.rhs_set() && ks.rhs_x() == bx && ks.rhs_z() == bz && ks.sol_ok(st)
}
pub open spec fn all_eq(v: Seq<F>, c: F) -> bool { forall|i: int| 0 <= i < v.len() ==> #[trigger] v[i] == c }
pub open spec fn is_neg_of(v: Seq<F>, w: Seq<F>) -> bool { v.len() == w.len() && forall|i: int| 0 <= i < v.len() ==> #[trigger] v[i] == f_neg(w[i]) }
pub open spec fn neg_v(v: Seq<F>, w: Seq<F>) -> bool { v.len() == w.len() && forall|i: int| 0 <= i < v.len() ==> (#[trigger] v[i]).v() == -w[i].v() }
pub open spec fn vars_dims(v: DefaultVariables<F>, n: nat, m: nat) -> bool { v.x@.len() == n && v.s@.len() == m && v.z@.len() == m }
// the LP branch of the initial point: (x, -s) from the right-hand side (0, b)
pub open spec fn lp_first(ks: BoxedKKTSolver<F>, k0: BoxedKKTSolver<F>, st: &CoreSettings<F>, b: Seq<F>, x: Seq<F>, s: Seq<F>) -> bool {
    ks_same_system(ks, k0) && ks.rhs_set() && all_eq(ks.rhs_x(), f_zero()) && ks.rhs_z() == b && ks.sol_ok(st) && x == ks.sol_x() && is_neg_of(s, ks.sol_z())
}
// the documented step equations (kktsystem.rs, comments of `solve`), in real arithmetic; xi = x / tau, w = xi - x2
pub open spec fn tau_num_of(rhs: DefaultVariables<F>, v: DefaultVariables<F>, d: DefaultProblemData<F>, x1: Seq<F>, z1: Seq<F>, xi: Seq<F>) -> real {
    rhs.tau.v() - rhs.kappa.v() / v.tau.v() + vm_dot(d.q@, x1).v() + vm_dot(d.b@, z1).v() + 2real * qf_total(d.P, xi, x1, d.P.n as int)
}
pub open spec fn tau_den_of(v: DefaultVariables<F>, d: DefaultProblemData<F>, x2: Seq<F>, z2: Seq<F>, w: Seq<F>) -> real {
    v.kappa.v() / v.tau.v() - vm_dot(d.q@, x2).v() - vm_dot(d.b@, z2).v() + qf_total(d.P, w, w, d.P.n as int) - qf_total(d.P, x2, x2, d.P.n as int)
}
pub open spec fn dtau_ok(dtau: F, rhs: DefaultVariables<F>, v: DefaultVariables<F>, d: DefaultProblemData<F>, x1: Seq<F>, z1: Seq<F>, x2: Seq<F>, z2: Seq<F>, w: Seq<F>, xi: Seq<F>) -> bool {
    &&& xi.len() == v.x@.len() && w.len() == v.x@.len()
    &&& forall|i: int| 0 <= i < xi.len() ==> (#[trigger] xi[i]).v() == v.x@[i].v() / v.tau.v()
    &&& forall|i: int| 0 <= i < w.len() ==> (#[trigger] w[i]).v() == xi[i].v() - x2[i].v()
    &&& (tau_den_of(v, d, x2, z2, w) != 0real ==> dtau.v() == tau_num_of(rhs, v, d, x1, z1, xi) / tau_den_of(v, d, x2, z2, w))
}
pub open spec fn data_dims(d: DefaultProblemData<F>, n: nat, m: nat) -> bool {
    &&& d.q@.len() == n && d.b@.len() == m
    &&& d.P.colptr_ok() && d.P.n == n && d.P.m == n && (forall|c: int, k: int| #[trigger] d.P.in_col(k, c) ==> d.P.rowval@[k] <= c)
}

impl DirectLDLKKTSolver<F> {
    // NOT under contract (KKT assembly + engine construction through a constructor table): ASSUMED to deliver an object that
    // satisfies the solver invariant for the requested dimensions.  The pieces of the assembly are under contract in unit csc_utils.
    #[verifier::external_body]
    pub fn new(P: &CscMatrix<F>, A: &CscMatrix<F>, cones: &CompositeCone<F>, m: usize, n: usize, settings: &CoreSettings<F>) -> (r: Self)
        ensures r.wf(), r.n == n, r.m == m, r.kkt_P().len() == P.nzval@.len(), r.kkt_A().len() == A.nzval@.len(),
    { unimplemented!() }
}
// `Box::new(x)` in `DefaultKKTSystem::new`, where the result is coerced to Box<dyn KKTSolver<T> + Send + Sync>: stand-in for the
// boxing + unsizing coercion.  ASSUMED: the trait object is the object (every view of the trait reads the same).
pub struct Box { }
impl Box {
    #[verifier::external_body]
    pub fn new(k: DirectLDLKKTSolver<F>) -> (r: BoxedKKTSolver<F>)
        ensures r.wf() == k.wf(), r.ready() == k.ready(), r.dim_n() == k.dim_n(), r.dim_m() == k.dim_m(),
            r.kkt_P() == k.kkt_P(), r.kkt_A() == k.kkt_A(), r.eng_P() == k.eng_P(), r.eng_A() == k.eng_A(),
    { unimplemented!() }
}

impl DefaultKKTSystem<F> {
    // the vectors are sized like the solver's blocks (established by `new`)
    pub open spec fn wf(&self) -> bool {
        let n = self.kktsolver.dim_n(); let m = self.kktsolver.dim_m();
        &&& self.kktsolver.wf()
        &&& self.x1@.len() == n && self.x2@.len() == n && self.workx@.len() == n
        &&& self.z1@.len() == m && self.z2@.len() == m && self.workz@.len() == m && self.work_conic@.len() == m
    }
//@fn file=src/solver/implementations/default/kktsystem.rs in="impl<T> DefaultKKTSystem<T>" name=update_P rules=R1
//@contract
    requires old(self).wf(), P.nzval@.len() == old(self).kktsolver.kkt_P().len(),
    ensures final(self).wf(),
        // C08: the wrapper forwards: the new values of P reach the KKT matrix and the engine's copy, A stays
        final(self).kktsolver.kkt_P() == P.nzval@, final(self).kktsolver.eng_P() == P.nzval@,
        final(self).kktsolver.kkt_A() == old(self).kktsolver.kkt_A(), final(self).kktsolver.eng_A() == old(self).kktsolver.eng_A(),
        final(self).kktsolver.ready() == old(self).kktsolver.ready(),
        *final(self) == (DefaultKKTSystem::<F> { kktsolver: final(self).kktsolver, ..*old(self) }),
//@end
//@fn file=src/solver/implementations/default/kktsystem.rs in="impl<T> DefaultKKTSystem<T>" name=update_A rules=R1
//@contract
    requires old(self).wf(), A.nzval@.len() == old(self).kktsolver.kkt_A().len(),
    ensures final(self).wf(),
        final(self).kktsolver.kkt_A() == A.nzval@, final(self).kktsolver.eng_A() == A.nzval@,
        final(self).kktsolver.kkt_P() == old(self).kktsolver.kkt_P(), final(self).kktsolver.eng_P() == old(self).kktsolver.eng_P(),
        final(self).kktsolver.ready() == old(self).kktsolver.ready(),
        *final(self) == (DefaultKKTSystem::<F> { kktsolver: final(self).kktsolver, ..*old(self) }),
//@end
//@fn file=src/solver/implementations/default/kktsystem.rs in="impl<T> DefaultKKTSystem<T>" name=solve_constant_rhs rules=R1 ret=r
//@contract
    requires old(self).wf(), old(self).kktsolver.ready(), data.q@.len() == old(self).kktsolver.dim_n(), data.b@.len() == old(self).kktsolver.dim_m(),
    ensures final(self).wf(), ks_same_system(final(self).kktsolver, old(self).kktsolver),
        // only the solver, workx and (on success) x2, z2 change
        *final(self) == (DefaultKKTSystem::<F> { kktsolver: final(self).kktsolver, workx: final(self).workx, x2: final(self).x2, z2: final(self).z2, ..*old(self) }),
        // the right-hand side loaded is (-q, b)
        forall|i: int| 0 <= i < data.q@.len() ==> (#[trigger] final(self).workx@[i]).v() == -data.q@[i].v(),
        final(self).kktsolver.rhs_set(), final(self).kktsolver.rhs_x() == final(self).workx@, final(self).kktsolver.rhs_z() == data.b@,
        // C12: success is the solver's verdict; then (x2, z2) is the solution it accepted, otherwise they are left alone
        r ==> final(self).kktsolver.sol_ok(settings) && final(self).x2@ == final(self).kktsolver.sol_x() && final(self).z2@ == final(self).kktsolver.sol_z(),
        !r ==> final(self).x2@ == old(self).x2@ && final(self).z2@ == old(self).z2@,
//@pre
        broadcast use real_arith;
//@end
//@fn file=src/solver/implementations/default/kktsystem.rs in="KKTSystem<T> for DefaultKKTSystem<T>" name=update rules=R1 ret=r
//@contract
    requires old(self).wf(), data.q@.len() == old(self).kktsolver.dim_n(), data.b@.len() == old(self).kktsolver.dim_m(),
    ensures final(self).wf(), final(self).kktsolver.ready(),
        final(self).kktsolver.dim_n() == old(self).kktsolver.dim_n(), final(self).kktsolver.dim_m() == old(self).kktsolver.dim_m(),
        final(self).x1 == old(self).x1, final(self).z1 == old(self).z1, final(self).workz == old(self).workz, final(self).work_conic == old(self).work_conic,
        // C12: a failed solver update or a failed constant solve is reported; on success (x2, z2) solves for (-q, b)
        r ==> final(self).kktsolver.sol_ok(&settings.core_spec()) && final(self).x2@ == final(self).kktsolver.sol_x() && final(self).z2@ == final(self).kktsolver.sol_z()
            && final(self).kktsolver.rhs_z() == data.b@ && final(self).kktsolver.rhs_x() == final(self).workx@
            && forall|i: int| 0 <= i < data.q@.len() ==> (#[trigger] final(self).workx@[i]).v() == -data.q@[i].v(),
        !r ==> final(self).x2@ == old(self).x2@ && final(self).z2@ == old(self).z2@,
//@end
//@fn file=src/solver/implementations/default/kktsystem.rs in="KKTSystem<T> for DefaultKKTSystem<T>" name=solve_initial_point rules=R1 ret=r
//@contract
    requires old(self).wf(), old(self).kktsolver.ready(), data_dims(*data, old(self).kktsolver.dim_n(), old(self).kktsolver.dim_m()),
        vars_dims(*old(variables), old(self).kktsolver.dim_n(), old(self).kktsolver.dim_m()),
    ensures final(self).wf(), ks_same_system(final(self).kktsolver, old(self).kktsolver),
        vars_dims(*final(variables), old(self).kktsolver.dim_n(), old(self).kktsolver.dim_m()),
        final(variables).tau == old(variables).tau, final(variables).kappa == old(variables).kappa,
        final(self).x1 == old(self).x1, final(self).z1 == old(self).z1, final(self).x2 == old(self).x2, final(self).z2 == old(self).z2, final(self).work_conic == old(self).work_conic,
        // LP (P has no entries): (x, -s) solves for (0, b), then z solves for (-q, 0)
        data.P.colptr@[data.P.n as int] == 0 && r ==> {
            &&& exists|ks: BoxedKKTSolver<F>| #[trigger] lp_first(ks, old(self).kktsolver, &settings.core_spec(), data.b@, final(variables).x@, final(variables).s@)
            &&& solved_for(final(self).kktsolver, old(self).kktsolver, &settings.core_spec(), final(self).workx@, final(self).workz@)
            &&& neg_v(final(self).workx@, data.q@) && all_eq(final(self).workz@, f_zero()) && final(variables).z@ == final(self).kktsolver.sol_z()
        },
        // QP: (x, z) solves for (-q, b), s = -z
        data.P.colptr@[data.P.n as int] != 0 && r ==> {
            &&& solved_for(final(self).kktsolver, old(self).kktsolver, &settings.core_spec(), final(self).workx@, data.b@)
            &&& is_neg_of(final(self).workx@, data.q@)
            &&& final(variables).x@ == final(self).kktsolver.sol_x() && final(variables).z@ == final(self).kktsolver.sol_z()
        },
        data.P.colptr@[data.P.n as int] != 0 ==> is_neg_of(final(variables).s@, final(variables).z@),
        // C12: a failed solve is reported and leaves z alone
        !r ==> final(variables).z@ == old(variables).z@,
//@pre
        broadcast use real_arith;
        let ghost k0 = self.kktsolver;
//@closure 1
F
(q_r: F) ensures q_r == f_neg(q)
//@closure 2
F
(z_r: F) ensures z_r == f_neg(z)
//@before "if !is_success"
            let ghost k1 = self.kktsolver;
            proof { if is_success { assert(lp_first(k1, k0, &settings.core_spec(), data.b@, variables.x@, variables.s@)); } }
//@end
//@fn file=src/solver/implementations/default/kktsystem.rs in="KKTSystem<T> for DefaultKKTSystem<T>" name=solve rules=R1,R2 ret=r
//@contract
    requires old(self).wf(), old(self).kktsolver.ready(), data_dims(*data, old(self).kktsolver.dim_n(), old(self).kktsolver.dim_m()),
        vars_dims(*old(lhs), old(self).kktsolver.dim_n(), old(self).kktsolver.dim_m()), vars_dims(*rhs, old(self).kktsolver.dim_n(), old(self).kktsolver.dim_m()),
        vars_dims(*variables, old(self).kktsolver.dim_n(), old(self).kktsolver.dim_m()), old(cones).numel() == old(self).kktsolver.dim_m(),
        variables.tau.v() != 0real,
    ensures final(self).wf(), ks_same_system(final(self).kktsolver, old(self).kktsolver),
        final(cones).scaling() == old(cones).scaling(), final(cones).numel() == old(cones).numel(),
        vars_dims(*final(lhs), old(self).kktsolver.dim_n(), old(self).kktsolver.dim_m()),
        // the constant solve (x2, z2) is only read
        final(self).x2 == old(self).x2, final(self).z2 == old(self).z2,
        // the constant term c of  Hs dz + ds = -c  (kept in work_conic): s in the affine case, the cones' offset term otherwise
        step_direction == StepDirection::Affine ==> final(self).work_conic@ == variables.s@,
        step_direction == StepDirection::Combined ==> final(self).work_conic@ == cone_ds_offset(old(cones).scaling(), rhs.s@, variables.z@),
        // C12: the result is the verdict of the reduced solve, nothing after it is checked; on failure the step is not written
        // (dz has been used as scratch space by the cones in the combined case)
        !r ==> final(lhs).x@ == old(lhs).x@ && final(lhs).s@ == old(lhs).s@ && final(lhs).tau == old(lhs).tau && final(lhs).kappa == old(lhs).kappa
            && final(self).x1@ == old(self).x1@ && final(self).z1@ == old(self).z1@ && (step_direction == StepDirection::Affine ==> final(lhs).z@ == old(lhs).z@),
        // C01: (x1, z1) is the solver's accepted solution of the reduced system with right-hand side (rhs.x, c - rhs.z)
        r ==> final(self).kktsolver.rhs_set() && final(self).kktsolver.rhs_x() == rhs.x@ && final(self).kktsolver.sol_ok(&settings.core_spec())
            && final(self).x1@ == final(self).kktsolver.sol_x() && final(self).z1@ == final(self).kktsolver.sol_z()
            && final(self).kktsolver.rhs_z().len() == rhs.z@.len()
            && forall|i: int| 0 <= i < rhs.z@.len() ==> (#[trigger] final(self).kktsolver.rhs_z()[i]).v() == final(self).work_conic@[i].v() - rhs.z@[i].v(),
        // C01: the step, as the documented expressions (real arithmetic)
        //   dtau = tau_num / tau_den
        r ==> exists|xi: Seq<F>| #[trigger] dtau_ok(final(lhs).tau, *rhs, *variables, *data, final(self).x1@, final(self).z1@, old(self).x2@, old(self).z2@, final(self).workx@, xi),
        //   dx = x1 + dtau x2,  dz = z1 + dtau z2
        r ==> forall|i: int| 0 <= i < final(lhs).x@.len() ==> (#[trigger] final(lhs).x@[i]).v() == final(self).x1@[i].v() + final(lhs).tau.v() * old(self).x2@[i].v(),
        r ==> forall|i: int| 0 <= i < final(lhs).z@.len() ==> (#[trigger] final(lhs).z@[i]).v() == final(self).z1@[i].v() + final(lhs).tau.v() * old(self).z2@[i].v(),
        //   ds = -(Hs dz + c)
        r ==> forall|i: int| 0 <= i < final(lhs).s@.len() ==> (#[trigger] final(lhs).s@[i]).v()
                == -(cone_hs_mul(old(cones).scaling(), final(lhs).z@)[i].v() + final(self).work_conic@[i].v()),
        //   dkappa = -(rhs.kappa + kappa dtau) / tau
        r ==> final(lhs).kappa.v() == -(rhs.kappa.v() + variables.kappa.v() * final(lhs).tau.v()) / variables.tau.v(),
//@pre
        broadcast use real_arith;
//@after "xi.axpby(F::recip(variables.tau), &variables.x, F::zero());"
        let ghost gxi = xi@;
        proof {
            assert forall|i: int| 0 <= i < gxi.len() implies (#[trigger] gxi[i]).v() == variables.x@[i].v() / variables.tau.v() by {
                let t = variables.tau.v(); let xv = variables.x@[i].v();
                assert((1real / t) * xv == xv / t) by(nonlinear_arith) requires t != 0real;
            }
        }
//@before "lhs.tau = tau_num / tau_den;"
        proof {
            assert(tau_num.v() == tau_num_of(*rhs, *variables, *data, x1@, z1@, gxi));
            assert(tau_den.v() == tau_den_of(*variables, *data, x2@, z2@, xi_minus_x2@));
        }
//@after "lhs.tau = tau_num / tau_den;"
        proof { assert(dtau_ok(lhs.tau, *rhs, *variables, *data, x1@, z1@, x2@, z2@, xi_minus_x2@, gxi)); }
//@after "lhs.kappa ="
        proof { assert(dtau_ok(lhs.tau, *rhs, *variables, *data, self.x1@, self.z1@, old(self).x2@, old(self).z2@, self.workx@, gxi)); }
//@end
//@fn file=src/solver/implementations/default/kktsystem.rs in="impl<T> DefaultKKTSystem<T>" name=new rules=R1 ret=r
//@contract
    requires
        // documented panic otherwise ("Indirect and other solve strategies not yet supported.")
        settings.direct_kkt_solver,
    ensures r.wf(), r.kktsolver.dim_n() == data.n, r.kktsolver.dim_m() == data.m,
        r.kktsolver.kkt_P().len() == data.P.nzval@.len(), r.kktsolver.kkt_A().len() == data.A.nzval@.len(),
        // x1, x2, workx have n entries, z1, z2, workz, work_conic have m entries, all zero
        r.x1@.len() == data.n && r.x2@.len() == data.n && r.workx@.len() == data.n,
        r.z1@.len() == data.m && r.z2@.len() == data.m && r.workz@.len() == data.m && r.work_conic@.len() == data.m,
        all_eq(r.x1@, f_zero()) && all_eq(r.x2@, f_zero()) && all_eq(r.workx@, f_zero()),
        all_eq(r.z1@, f_zero()) && all_eq(r.z2@, f_zero()) && all_eq(r.workz@, f_zero()) && all_eq(r.work_conic@, f_zero()),
//@end
}

} // verus!
fn main() {}
