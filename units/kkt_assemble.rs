// unit `kkt_assemble` (C11): the parts of the KKT assembly that orchestrate over the cone list – what unit csc_utils left open.
//
// PROVED (bodies extracted from /repo, never retyped):
//   * CscMatrix::colcount_dense_triangle      colptr[initcol + k] += k + 1 (Triu) / blockcols - k (Tril), nothing else (rules R31, R17, R14 range leaf)
//   * CscMatrix::colcount_diag, count_diagonal_entries, new, spalloc, nnz, nrows   (same contracts and invariants as in csc_utils / units/inc)
//   * impl SparseExpansionMapTrait for SOCExpansionMap / GenPowExpansionMap / Vec<SparseExpansionMap>   pdim, nnz_vec, Dsigns (the Vec sums are the left
//     folds maps_pdim / maps_nnz; Dsigns of the Vec is unreachable!() and proved unreachable under its contract)
//   * _fill_signs                              +1 on 0..n, -1 on n..n+m, then Dsigns() of every sparse map in order at offset m + n + (pdim of the maps before), +1 behind
//   * allocate_kkt_Hsblocks                    length = end of the last block range, or 0   (extracted with both type parameters, see FloatT below)
//   * LDLDataMap::new (R22)                    |P| = nnz(P), |A| = nnz(A), |diagP| = n, |Hsblocks| as above, |diag_full| = m + n + sum of pdim, and maps_match: the i-th
//     sparse-expandable cone owns the i-th sparse map, of its kind and size (SOCExpansionMap::new, GenPowExpansionMap::new, the two expansion_map)
//   * assemble_kkt_matrix  [statement slice `let nnz_diagP =` .. `let mut K = ..spalloc(..)`, as kkt_alloc_slice]   no underflow in `n - nnz_diagP`; K is
//     (m+n+p) x (m+n+p) with nnz_kkt(..) slots and zero counts.   DROPPED: LDLDataMap::new call, the two assembly calls, the returned pair
//   * SecondOrderCone::numel / is_sparse_expandable / Hs_is_diagonal, GenPowerCone::numel / dim / dim1 / dim2 / is_sparse_expandable / Hs_is_diagonal,
//     SupportedCone::to_sparse_expansion (Some exactly for the two sparse-expandable variants), CompositeCone::iter
//   * _kkt_assemble_colcounts  [statement slice `let mut pcol = m + n;` .. end of the cone loop, as kkt_count_cone_loop]  (STAGE 2)
//     from any counts, column c grows by exactly cones_cnt(x, #cones, c) = the left fold over the cone list of hs_cnt + sx_cnt; nothing else changes.
//     DROPPED: `K.colptr.fill(0)` and the P / A arm before it (arm under contract in csc_utils)
//   * _kkt_assemble_fill       [statement slice `let mut pcol = m + n;` .. end of the cone loop, as kkt_fill_cone_loop]   (STAGE 3)
//     under the cursor hand-over condition kf_room: every helper precondition holds (lemma_hs_pre, lemma_sx_pre = "lemma_counts_give_cone_pre" per helper),
//     cursors advance by cones_cnt, only slots between old and new cursor of a column change (step_frame), map.P / A / diagP / diag_full untouched, and
//     along a ghost chain of states the contract of each helper holds cone by cone (kf_chain: Hs block slots recorded in map.Hsblocks[rng_blocks[k]],
//     sparse expansion recorded in the k-th sparse map).  lemma_counts_give_cone_pre: counts + colcount_to_colptr + arm advance => kf_room.
//     lemma_chain_persist: a slot below the cursor of its column after a helper has, in final(K), the content it had then (so every recorded slot
//     holds the stated entry at the end of the loop).
//     DROPPED: colcount_to_colptr and the P / A fill arm before, backshift_colptrs and the diagonal-map arm after (each under contract in csc_utils)
//
// ASSUMED (listed with the reason):
//   * CscMatrix::fill_diag, fill_dense_triangle, SecondOrderCone / GenPowerCone ::csc_colcount_sparsecone / csc_fill_sparsecone: external_body stubs whose
//     contracts are VERBATIM COPIES of the contracts these real functions are proved against in unit csc_utils (modular use; a drift of the text would be
//     unsound – the orchestrator may want to move them to units/inc).  Consequence of a gap there: fill_dense_triangle does not promise K.m / K.n unchanged,
//     so the loop contract cannot either.
//   * enum_dispatch: the generated forwarding `match` of SparseExpansionMap (pdim / nnz_vec / Dsigns), SparseExpansionCone (csc_colcount_sparsecone /
//     csc_fill_sparsecone) and SupportedCone (numel / is_sparse_expandable / Hs_is_diagonal) is macro output, not source text: written by hand here
//     (HAND-WRITTEN STAND-IN) and verified against the per-variant contracts.
//   * SupportedCone<T>: hand-written stand-in with the real variants SecondOrderCone, GenPowerCone and ONE variant OtherCone{numel, hs_diag} for ZeroCone,
//     NonnegativeCone, ExponentialCone, PowerCone (PSDTriangleCone is cfg'd off); assumed by inspection: their is_sparse_expandable() is `false`.
//   * trait Zero (num_traits): stand-in with `zero()` only; trait FloatT: marker stand-in.   Range<T>::clone returns an equal range (assume_specification).
//   * SparseExpansionCone / SupportedCone::expansion_map / to_sparse_expansion: see enum_dispatch above (to_sparse_expansion is real text).
//   * well-formedness taken as `requires`, established by code outside the unit: kc_pre (cone ranges inside the m rows, K has m + n + p columns, the i-th
//     sparse-expandable cone owns the i-th sparse map of its own kind and size: maps_match, the postcondition of LDLDataMap::new), rb_ok (rng_blocks as
//     make_rng_blocks builds them), sizes fit usize in kkt_alloc_slice (nothing in the real code checks it).
//   * prelude/std_assumed.rs (<[T]>::fill), vstd's iterator model for slice::Iter / IterMut (`remaining()`, `final()` of handed-out &mut).
//
// NOT DONE: per-kind restatements of the content clauses on final(K) (they are one lemma_chain_persist call per clause away); make_rng_cones / make_rng_blocks
//   (rb_ok and the cone-range part of kc_pre stay `requires`); the composition of the slices with the arms of csc_utils inside one function body
//   (kkt_triu_post of csc_utils does not state that the cursors of the columns >= n + m are unchanged, which lemma_counts_give_cone_pre needs as arm(c) = 0).
//
// New extractor rules (additive, tools/extract.py): R31 (inline a group of immutable let-bound iterator expressions into the arms of the `match` that
// follows, each arm using each exactly once, first), R14 zip leaf `A..B` / `(A..B).rev()` over usize (element A + i / B - 1 - i, B - A elements),
// R15r:X (X[E] -> X.as_mut_slice()[E] for a Range-valued index expression that is not a range literal).
use vstd::prelude::*;
use core::ops::Range;
use vstd::std_specs::iter::IteratorSpec;
verus! {
//@include prelude/float_opaque.rs
//@include prelude/std_assumed.rs
//@struct file=src/algebra/csc/core.rs name=CscMatrix
//@include units/inc/csc_colcount_specs.rs
//@enum file=src/algebra/matrix_types.rs name=MatrixShape rules=R12 derive="PartialEq, Eq, Clone, Copy, Structural"
//@enum file=src/algebra/matrix_types.rs name=MatrixTriangle rules=R12 derive="PartialEq, Eq, Clone, Copy, Structural"

// entries a dense triangle of size blockcols placed at column initcol adds to column c
pub open spec fn dtri_cnt(shape: MatrixTriangle, initcol: int, blockcols: int, c: int) -> int {
    if initcol <= c < initcol + blockcols { if shape == MatrixTriangle::Triu { c - initcol + 1 } else { blockcols - (c - initcol) } } else { 0 }
}

impl CscMatrix<F> {
//@fn file=src/algebra/csc/utils.rs in="impl<T> CscMatrix<T>" name=colcount_dense_triangle rules=R1,R31,R17,zipidx:*
//@contract
    requires
        initcol + blockcols <= old(self).colptr@.len(), blockcols < usize::MAX,
        forall|c: int| initcol <= c < initcol + blockcols ==> #[trigger] old(self).colptr@[c] + dtri_cnt(shape, initcol as int, blockcols as int, c) <= usize::MAX,
    ensures
        // C11: column initcol + k of a dense triangle block is counted with k + 1 entries (upper) resp. blockcols - k (lower)
        final(self).colptr@.len() == old(self).colptr@.len(), final(self).m == old(self).m, final(self).n == old(self).n,
        forall|c: int| 0 <= c < old(self).colptr@.len() ==> #[trigger] final(self).colptr@[c]
            == old(self).colptr@[c] + dtri_cnt(shape, initcol as int, blockcols as int, c),
        final(self).rowval@ == old(self).rowval@, final(self).nzval@ == old(self).nzval@,
//@pre
        proof { assert(self.colptr@.len() == self.colptr.len()); }
//@loop 1
        invariant
            shape == MatrixTriangle::Triu,
            r14_lo1_0 == initcol, r14_hi1_0 == initcol + blockcols, r14_lo1_1 == 1, r14_hi1_1 == blockcols + 1, r14_n1 == blockcols, r14_hi1_0 <= self.colptr@.len(),
            self.colptr@.len() == old(self).colptr@.len(), self.m == old(self).m, self.n == old(self).n,
            forall|c: int| initcol <= c < initcol + blockcols ==> #[trigger] old(self).colptr@[c] + dtri_cnt(shape, initcol as int, blockcols as int, c) <= usize::MAX,
            forall|c: int| 0 <= c < old(self).colptr@.len() ==> #[trigger] self.colptr@[c]
                == old(self).colptr@[c] + dtri_cnt(shape, initcol as int, r14_i1 as int, c),
            self.rowval@ == old(self).rowval@, self.nzval@ == old(self).nzval@,
//@loop 2
        invariant
            shape == MatrixTriangle::Tril,
            r14_lo2_0 == initcol, r14_hi2_0 == initcol + blockcols, r14_lo2_1 == 1, r14_hi2_1 == blockcols + 1, r14_n2 == blockcols, r14_hi2_0 <= self.colptr@.len(),
            self.colptr@.len() == old(self).colptr@.len(), self.m == old(self).m, self.n == old(self).n,
            forall|c: int| initcol <= c < initcol + blockcols ==> #[trigger] old(self).colptr@[c] + dtri_cnt(shape, initcol as int, blockcols as int, c) <= usize::MAX,
            forall|c: int| 0 <= c < old(self).colptr@.len() ==> #[trigger] self.colptr@[c]
                == old(self).colptr@[c] + (if initcol <= c < initcol + r14_i2 { blockcols - (c - initcol) } else { 0int }),
            self.rowval@ == old(self).rowval@, self.nzval@ == old(self).nzval@,
//@end
}

// ---- the sparse-expansion maps and their (enum_dispatch) trait ----
//@struct file=src/solver/core/kktsolvers/direct/quasidef/datamaps.rs name=SOCExpansionMap
//@struct file=src/solver/core/kktsolvers/direct/quasidef/datamaps.rs name=GenPowExpansionMap
//@enum file=src/solver/core/kktsolvers/direct/quasidef/datamaps.rs name=SparseExpansionMap rules=R12
//@struct file=src/solver/core/kktsolvers/direct/quasidef/datamaps.rs name=LDLDataMap
//@trait file=src/solver/core/kktsolvers/direct/quasidef/datamaps.rs name=SparseExpansionMapTrait header="pub trait SparseExpansionMapTrait"
//@extra
    // abstract reading: number of auxiliary variables, number of off-diagonal entries, expected signs of D; `pdim_ok` / `nnz_ok`:
    // the sums computed do not overflow; `has_dsigns`: Dsigns() is defined (it is `unreachable!()` for the Vec)
    spec fn pdim_s(&self) -> int;
    spec fn nnz_vec_s(&self) -> int;
    spec fn dsigns_s(&self) -> Seq<i8>;
    spec fn pdim_ok(&self) -> bool;
    spec fn nnz_ok(&self) -> bool;
    spec fn has_dsigns(&self) -> bool;
//@sig pdim
ret=r
    requires self.pdim_ok(),
    ensures r == self.pdim_s(),
//@sig nnz_vec
ret=r
    requires self.nnz_ok(),
    ensures r == self.nnz_vec_s(),
//@sig Dsigns
ret=r
    requires self.has_dsigns(),
    ensures r@ == self.dsigns_s(),
//@end

impl SparseExpansionMapTrait for SOCExpansionMap {
    open spec fn pdim_s(&self) -> int { 2 }
    open spec fn nnz_vec_s(&self) -> int { 2 * (self.v@.len() as int) }
    open spec fn dsigns_s(&self) -> Seq<i8> { seq![-1i8, 1i8] }
    open spec fn pdim_ok(&self) -> bool { true }
    open spec fn nnz_ok(&self) -> bool { 2 * self.v@.len() <= usize::MAX }
    open spec fn has_dsigns(&self) -> bool { true }
//@fn file=src/solver/core/kktsolvers/direct/quasidef/datamaps.rs in="SparseExpansionMapTrait for SOCExpansionMap" name=pdim
//@end
//@fn file=src/solver/core/kktsolvers/direct/quasidef/datamaps.rs in="SparseExpansionMapTrait for SOCExpansionMap" name=nnz_vec
//@end
//@fn file=src/solver/core/kktsolvers/direct/quasidef/datamaps.rs in="SparseExpansionMapTrait for SOCExpansionMap" name=Dsigns
//@end
}

impl SparseExpansionMapTrait for GenPowExpansionMap {
    open spec fn pdim_s(&self) -> int { 3 }
    open spec fn nnz_vec_s(&self) -> int { (self.p@.len() + self.q@.len() + self.r@.len()) as int }
    open spec fn dsigns_s(&self) -> Seq<i8> { seq![-1i8, -1i8, 1i8] }
    open spec fn pdim_ok(&self) -> bool { true }
    open spec fn nnz_ok(&self) -> bool { self.p@.len() + self.q@.len() + self.r@.len() <= usize::MAX }
    open spec fn has_dsigns(&self) -> bool { true }
//@fn file=src/solver/core/kktsolvers/direct/quasidef/datamaps.rs in="SparseExpansionMapTrait for GenPowExpansionMap" name=pdim
//@end
//@fn file=src/solver/core/kktsolvers/direct/quasidef/datamaps.rs in="SparseExpansionMapTrait for GenPowExpansionMap" name=nnz_vec
//@end
//@fn file=src/solver/core/kktsolvers/direct/quasidef/datamaps.rs in="SparseExpansionMapTrait for GenPowExpansionMap" name=Dsigns
//@end
}
// HAND-WRITTEN STAND-IN for the code `#[enum_dispatch(SparseExpansionMapTrait)]` generates for the enum: every method
// matches on the variant and forwards to the payload.  The bodies are verified against the trait contract.
impl SparseExpansionMapTrait for SparseExpansionMap {
    open spec fn pdim_s(&self) -> int { match self { SparseExpansionMap::SOCExpansionMap(m) => m.pdim_s(), SparseExpansionMap::GenPowExpansionMap(m) => m.pdim_s() } }
    open spec fn nnz_vec_s(&self) -> int { match self { SparseExpansionMap::SOCExpansionMap(m) => m.nnz_vec_s(), SparseExpansionMap::GenPowExpansionMap(m) => m.nnz_vec_s() } }
    open spec fn dsigns_s(&self) -> Seq<i8> { match self { SparseExpansionMap::SOCExpansionMap(m) => m.dsigns_s(), SparseExpansionMap::GenPowExpansionMap(m) => m.dsigns_s() } }
    open spec fn pdim_ok(&self) -> bool { true }
    open spec fn nnz_ok(&self) -> bool { match self { SparseExpansionMap::SOCExpansionMap(m) => m.nnz_ok(), SparseExpansionMap::GenPowExpansionMap(m) => m.nnz_ok() } }
    open spec fn has_dsigns(&self) -> bool { true }
    fn pdim(&self) -> usize { match self { SparseExpansionMap::SOCExpansionMap(inner) => inner.pdim(), SparseExpansionMap::GenPowExpansionMap(inner) => inner.pdim() } }
    fn nnz_vec(&self) -> usize { match self { SparseExpansionMap::SOCExpansionMap(inner) => inner.nnz_vec(), SparseExpansionMap::GenPowExpansionMap(inner) => inner.nnz_vec() } }
    fn Dsigns(&self) -> &[i8] { match self { SparseExpansionMap::SOCExpansionMap(inner) => inner.Dsigns(), SparseExpansionMap::GenPowExpansionMap(inner) => inner.Dsigns() } }
}
// the ghost sequence of a slice iterator holds references to the elements of the slice
pub open spec fn refs_of<T>(r: Seq<&T>, v: Seq<T>) -> bool { r.len() == v.len() && forall|q: int| 0 <= q < r.len() ==> *(#[trigger] r[q]) == v[q] }
// a slice iterator that has not been advanced yet (what `<[T]>::iter` returns, in the vocabulary of vstd's iterator model)
#[verifier::prophetic]
pub open spec fn fresh_iter<'a, T>(r: core::slice::Iter<'a, T>, v: Seq<T>) -> bool {
    refs_of(r.remaining(), v) && r.obeys_prophetic_iter_laws() && r.decrease() is Some
}
// the list of maps: the sums the real `impl SparseExpansionMapTrait for Vec<SparseExpansionMap>` folds, as left folds
pub open spec fn maps_pdim(s: Seq<SparseExpansionMap>, k: int) -> int decreases k { if k <= 0 { 0 } else { maps_pdim(s, k - 1) + s[k - 1].pdim_s() } }
pub open spec fn maps_nnz(s: Seq<SparseExpansionMap>, k: int) -> int decreases k { if k <= 0 { 0 } else { maps_nnz(s, k - 1) + s[k - 1].nnz_vec_s() } }
pub proof fn lemma_maps_mono(s: Seq<SparseExpansionMap>, a: int, b: int)
    requires 0 <= a <= b <= s.len(),
    ensures 0 <= maps_pdim(s, a) <= maps_pdim(s, b), 0 <= maps_nnz(s, a) <= maps_nnz(s, b), maps_pdim(s, b) <= 3 * b,
    decreases b,
{
    if a < b { lemma_maps_mono(s, a, b - 1); } else if b > 0 { lemma_maps_mono(s, a - 1, b - 1); }
}
impl SparseExpansionMapTrait for Vec<SparseExpansionMap> {
    open spec fn pdim_s(&self) -> int { maps_pdim(self@, self@.len() as int) }
    open spec fn nnz_vec_s(&self) -> int { maps_nnz(self@, self@.len() as int) }
    open spec fn dsigns_s(&self) -> Seq<i8> { Seq::empty() }
    open spec fn pdim_ok(&self) -> bool { maps_pdim(self@, self@.len() as int) <= usize::MAX }
    open spec fn nnz_ok(&self) -> bool {
        maps_nnz(self@, self@.len() as int) <= usize::MAX && forall|k: int| 0 <= k < self@.len() ==> (#[trigger] self@[k]).nnz_ok()
    }
    open spec fn has_dsigns(&self) -> bool { false }
//@fn file=src/solver/core/kktsolvers/direct/quasidef/datamaps.rs in="SparseExpansionMapTrait for Vec<SparseExpansionMap>" name=pdim rules=R24
//@iter 1
it
//@loop 1
            invariant refs_of(it.seq(), self@), self.pdim_ok(), pdim == maps_pdim(self@, it.index@ as int),
//@body_start 1
            proof { lemma_maps_mono(self@, it.index@ + 1, self@.len() as int); }
//@end
//@fn file=src/solver/core/kktsolvers/direct/quasidef/datamaps.rs in="SparseExpansionMapTrait for Vec<SparseExpansionMap>" name=nnz_vec rules=R24
//@iter 1
it
//@loop 1
            invariant refs_of(it.seq(), self@), self.nnz_ok(), nnz == maps_nnz(self@, it.index@ as int),
//@body_start 1
            proof { lemma_maps_mono(self@, it.index@ + 1, self@.len() as int); }
//@end
//@fn file=src/solver/core/kktsolvers/direct/quasidef/datamaps.rs in="SparseExpansionMapTrait for Vec<SparseExpansionMap>" name=Dsigns
//@end
}

// ---- expected signs of D (C11/C12: the factorisation is told which pivots are negative) ----
// named trigger: sign slot j of sparse map k
pub open spec fn sgslot(k: int, j: int) -> bool { true }
//@fn file=src/solver/core/kktsolvers/direct/quasidef/directldlkktsolver.rs name=_fill_signs rules=R17,zipidx:1
//@contract
    requires
        m + n <= usize::MAX,
        old(signs)@.len() >= m + n + maps_pdim(map.sparse_maps@, map.sparse_maps@.len() as int),
    ensures
        final(signs)@.len() == old(signs)@.len(),
        // +1 for the n primal variables, -1 for the m constraint rows
        forall|i: int| 0 <= i < n ==> #[trigger] final(signs)@[i] == 1i8,
        forall|i: int| n <= i < n + m ==> #[trigger] final(signs)@[i] == -1i8,
        // then the D signs of every sparse expansion, in the order of the maps, at the running offset
        forall|k: int, j: int| 0 <= k < map.sparse_maps@.len() && 0 <= j < map.sparse_maps@[k].pdim_s() && #[trigger] sgslot(k, j)
            ==> final(signs)@[m + n + maps_pdim(map.sparse_maps@, k) + j] == map.sparse_maps@[k].dsigns_s()[j],
        // nothing else: what lies behind the last expansion keeps the +1 of the initial fill
        forall|i: int| m + n + maps_pdim(map.sparse_maps@, map.sparse_maps@.len() as int) <= i < old(signs)@.len() ==> #[trigger] final(signs)@[i] == 1i8,
//@pre
    let ghost ms = map.sparse_maps@;
    let ghost nm = ms.len() as int;
    proof { lemma_maps_mono(ms, 0, nm); assert(signs@.len() == signs.len()); }
//@loop 1
        invariant
            r14_lo1_0 == n, r14_hi1_0 == n + m, r14_n1 == m, signs@.len() == old(signs)@.len(), signs@.len() >= m + n,
            forall|i: int| 0 <= i < n ==> #[trigger] signs@[i] == 1i8,
            forall|i: int| n <= i < n + r14_i1 ==> #[trigger] signs@[i] == -1i8,
            forall|i: int| n + r14_i1 <= i < signs@.len() ==> #[trigger] signs@[i] == 1i8,
//@iter 2
it
//@loop 2
        invariant
            refs_of(it.seq(), ms), ms == map.sparse_maps@, nm == ms.len(),
            signs@.len() == old(signs)@.len(), signs@.len() >= m + n + maps_pdim(ms, nm), m + n <= usize::MAX,
            p == m + n + maps_pdim(ms, it.index@ as int),
            forall|i: int| 0 <= i < n ==> #[trigger] signs@[i] == 1i8,
            forall|i: int| n <= i < n + m ==> #[trigger] signs@[i] == -1i8,
            forall|k: int, j: int| 0 <= k < it.index@ && 0 <= j < ms[k].pdim_s() && #[trigger] sgslot(k, j)
                ==> signs@[m + n + maps_pdim(ms, k) + j] == ms[k].dsigns_s()[j],
            forall|i: int| p <= i < signs@.len() ==> #[trigger] signs@[i] == 1i8,
//@body_start 2
        let ghost gk = it.index@ as int;
        let ghost sg0 = signs@;
        proof { lemma_maps_mono(ms, gk + 1, nm); lemma_maps_mono(ms, 0, gk); assert(*thismap == ms[gk]);
                assert(maps_pdim(ms, gk + 1) == maps_pdim(ms, gk) + ms[gk].pdim_s()); assert(signs@.len() == signs.len()); }
//@body_end 2
        proof {
            let gp = m + n + maps_pdim(ms, gk);
            assert(signs@.len() == sg0.len());
            assert(forall|i: int| 0 <= i < gp ==> signs@[i] == sg0[i]);
            assert(forall|i: int| gp + ms[gk].pdim_s() <= i < sg0.len() ==> signs@[i] == sg0[i]);
            assert(forall|j: int| 0 <= j < ms[gk].pdim_s() ==> signs@[gp + j] == ms[gk].dsigns_s()[j]);
            assert forall|k: int, j: int| 0 <= k < gk + 1 && 0 <= j < ms[k].pdim_s() && #[trigger] sgslot(k, j)
                implies signs@[m + n + maps_pdim(ms, k) + j] == ms[k].dsigns_s()[j] by {
                if k < gk {
                    lemma_maps_mono(ms, k + 1, gk); lemma_maps_mono(ms, k, k); assert(maps_pdim(ms, k + 1) == maps_pdim(ms, k) + ms[k].pdim_s());
                    assert(sgslot(k, j)); assert(sg0[m + n + maps_pdim(ms, k) + j] == ms[k].dsigns_s()[j]);
                } else { assert(signs@[gp + j] == ms[gk].dsigns_s()[j]); }
            }
        }
//@end

// ---- cones: the two sparse-expandable cone types are the real structs; the rest of the enum_dispatch enum is a stand-in ----
//@struct file=src/solver/core/cones/socone.rs name=SecondOrderConeSparseData keep=d
//@struct file=src/solver/core/cones/socone.rs name=SecondOrderCone keep=dim,sparse_data
//@struct file=src/solver/core/cones/genpowcone.rs name=GenPowerCone keep=α,dim2 rules=R2
//@enum file=src/solver/core/kktsolvers/direct/quasidef/datamaps.rs name=SparseExpansionCone rules=R12
impl SecondOrderCone<F> {
//@fn file=src/solver/core/cones/socone.rs in="Cone<T> for SecondOrderCone<T>" name=numel rules=R1 ret=r
//@contract
    ensures r == self.dim
//@end
//@fn file=src/solver/core/cones/socone.rs in="Cone<T> for SecondOrderCone<T>" name=is_sparse_expandable rules=R1 ret=r
//@contract
    ensures r == (self.sparse_data is Some)
//@end
//@fn file=src/solver/core/cones/socone.rs in="Cone<T> for SecondOrderCone<T>" name=Hs_is_diagonal rules=R1 ret=r
//@contract
    ensures r == (self.sparse_data is Some)
//@end
}
impl GenPowerCone<F> {
//@fn file=src/solver/core/cones/genpowcone.rs in="impl<T> GenPowerCone<T>" name=dim1 rules=R1,R2 ret=r
//@contract
    ensures r == self.alpha@.len()
//@end
//@fn file=src/solver/core/cones/genpowcone.rs in="impl<T> GenPowerCone<T>" name=dim2 rules=R1,R2 ret=r
//@contract
    ensures r == self.dim2
//@end
//@fn file=src/solver/core/cones/genpowcone.rs in="impl<T> GenPowerCone<T>" name=dim rules=R1,R2 ret=r
//@contract
    requires self.alpha@.len() + self.dim2 <= usize::MAX,
    ensures r == self.alpha@.len() + self.dim2
//@end
//@fn file=src/solver/core/cones/genpowcone.rs in="Cone<T> for GenPowerCone<T>" name=numel rules=R1,R2 ret=r
//@contract
    requires self.alpha@.len() + self.dim2 <= usize::MAX,
    ensures r == self.alpha@.len() + self.dim2
//@end
//@fn file=src/solver/core/cones/genpowcone.rs in="Cone<T> for GenPowerCone<T>" name=is_sparse_expandable rules=R1,R2 ret=r
//@contract
    ensures r
//@end
//@fn file=src/solver/core/cones/genpowcone.rs in="Cone<T> for GenPowerCone<T>" name=Hs_is_diagonal rules=R1,R2 ret=r
//@contract
    ensures r
//@end
}
// HAND-WRITTEN STAND-IN for the four cone types without a sparse expansion (ZeroCone, NonnegativeCone, ExponentialCone,
// PowerCone; PSDTriangleCone is cfg'd off): only their size and whether their Hs block is diagonal matter to the assembly.
// ASSUMED (by inspection of the four `impl Cone<T>`): `is_sparse_expandable()` is `false` for each of them.
pub struct OtherCone { pub numel: usize, pub hs_diag: bool }
impl OtherCone {
    pub fn numel(&self) -> (r: usize) ensures r == self.numel { self.numel }
    pub fn is_sparse_expandable(&self) -> (r: bool) ensures !r { false }
    pub fn Hs_is_diagonal(&self) -> (r: bool) ensures r == self.hs_diag { self.hs_diag }
}
// HAND-WRITTEN STAND-IN for `#[enum_dispatch(Cone<T>)] pub enum SupportedCone<T>`: the real variants SecondOrderCone and
// GenPowerCone, the others collapsed into OtherCone; the three `Cone<T>` methods the assembly calls are the forwarding
// `match` enum_dispatch generates (bodies verified against the real per-variant methods above).
pub enum SupportedCone<T> { SecondOrderCone(SecondOrderCone<T>), GenPowerCone(GenPowerCone<T>), OtherCone(OtherCone) }
impl SupportedCone<F> {
    pub open spec fn wf(&self) -> bool { match self { SupportedCone::GenPowerCone(g) => g.alpha@.len() + g.dim2 <= usize::MAX, _ => true } }
    pub open spec fn numel_s(&self) -> int {
        match self { SupportedCone::SecondOrderCone(c) => c.dim as int, SupportedCone::GenPowerCone(g) => g.alpha@.len() + g.dim2, SupportedCone::OtherCone(o) => o.numel as int }
    }
    pub open spec fn hs_diag_s(&self) -> bool {
        match self { SupportedCone::SecondOrderCone(c) => c.sparse_data is Some, SupportedCone::GenPowerCone(g) => true, SupportedCone::OtherCone(o) => o.hs_diag }
    }
    pub open spec fn sparse_s(&self) -> bool {
        match self { SupportedCone::SecondOrderCone(c) => c.sparse_data is Some, SupportedCone::GenPowerCone(g) => true, SupportedCone::OtherCone(o) => false }
    }
    // auxiliary variables the cone's sparse expansion adds (0 if it has none)
    pub open spec fn pdim_s(&self) -> int {
        if !self.sparse_s() { 0 } else { match self { SupportedCone::SecondOrderCone(c) => 2, SupportedCone::GenPowerCone(g) => 3, SupportedCone::OtherCone(o) => 0 } }
    }
    pub fn numel(&self) -> (r: usize) requires self.wf(), ensures r == self.numel_s(),
    { match self { SupportedCone::SecondOrderCone(inner) => inner.numel(), SupportedCone::GenPowerCone(inner) => inner.numel(), SupportedCone::OtherCone(inner) => inner.numel() } }
    pub fn is_sparse_expandable(&self) -> (r: bool) ensures r == self.sparse_s(),
    { match self { SupportedCone::SecondOrderCone(inner) => inner.is_sparse_expandable(), SupportedCone::GenPowerCone(inner) => inner.is_sparse_expandable(), SupportedCone::OtherCone(inner) => inner.is_sparse_expandable() } }
    pub fn Hs_is_diagonal(&self) -> (r: bool) ensures r == self.hs_diag_s(),
    { match self { SupportedCone::SecondOrderCone(inner) => inner.Hs_is_diagonal(), SupportedCone::GenPowerCone(inner) => inner.Hs_is_diagonal(), SupportedCone::OtherCone(inner) => inner.Hs_is_diagonal() } }
//@fn file=src/solver/core/kktsolvers/direct/quasidef/datamaps.rs in="impl<T> SupportedCone<T>" name=to_sparse_expansion rules=R1 ret=r
//@contract
    ensures
        // exactly the second-order and generalized power cones have an expansion object (so `unwrap()` cannot fail on a sparse-expandable cone)
        match *self {
            SupportedCone::SecondOrderCone(c) => r matches Some(SparseExpansionCone::SecondOrderCone(x)) && *x == c,
            SupportedCone::GenPowerCone(g) => r matches Some(SparseExpansionCone::GenPowerCone(x)) && *x == g,
            SupportedCone::OtherCone(o) => r is None,
        },
//@end
}
//@struct file=src/solver/core/cones/compositecone.rs name=CompositeCone keep=cones,rng_cones,rng_blocks
impl CompositeCone<F> {
//@fn file=src/solver/core/cones/compositecone.rs in="impl<T> CompositeCone<T>" name=iter rules=R1 ret=r
//@contract
    ensures fresh_iter(r, self.cones@),
//@end
}

// HAND-WRITTEN STAND-INS for num_traits::Zero (only `zero()` is used) and for the bound FloatT (a marker here: allocate_kkt_Hsblocks is
// extracted with BOTH its type parameters, so that the real call `allocate_kkt_Hsblocks::<T, usize>(cones)` in LDLDataMap::new type-checks)
pub trait Zero: Sized { fn zero() -> Self; }
impl Zero for usize { fn zero() -> (r: usize) ensures r == 0 { 0 } }
pub trait FloatT { }
impl FloatT for F { }
//@fn file=src/solver/core/kktsolvers/direct/quasidef/kkt_assembly.rs name=allocate_kkt_Hsblocks ret=r
//@contract
    ensures
        // one slot per Hs entry: the block ranges are consecutive, so the total is where the last one ends
        r@.len() == (if cones.rng_blocks@.len() == 0 { 0 } else { cones.rng_blocks@[cones.rng_blocks@.len() - 1].end as int }),
//@end

// ---- assemble_kkt_matrix: the size arithmetic of the allocation ----
pub open spec fn has_diag(M: CscMatrix<F>, i: int, triu: bool) -> bool {
    M.colptr@[i + 1] != M.colptr@[i] && (if triu { M.rowval@[M.colptr@[i + 1] - 1] == i } else { M.rowval@[M.colptr@[i] as int] == i })
}
pub open spec fn count_diag(M: CscMatrix<F>, n: int, triu: bool) -> int
    decreases n,
{
    if n <= 0 { 0 } else { count_diag(M, n - 1, triu) + (if has_diag(M, n - 1, triu) { 1int } else { 0int }) }
}
pub proof fn lemma_count_diag_le(M: CscMatrix<F>, n: int, triu: bool)
    requires n >= 0,
    ensures 0 <= count_diag(M, n, triu) <= n,
    decreases n,
{ if n > 0 { lemma_count_diag_le(M, n - 1, triu); } }
impl CscMatrix<F> {
//@include units/inc/csc_alloc.rs
// (proved here and in csc_utils, same contract and invariants)
//@fn file=src/algebra/csc/utils.rs in="impl<T> CscMatrix<T>" name=count_diagonal_entries rules=R1 ret=r
//@contract
    requires self.colptr@.len() == self.n + 1,
        forall|i: int| 0 <= i < self.n ==> self.colptr@[i] <= #[trigger] self.colptr@[i + 1] <= self.rowval@.len(),
    ensures
        // Triu: columns whose last entry is on the diagonal; Tril: columns whose first entry is
        shape == MatrixTriangle::Triu ==> r == count_diag(*self, self.n as int, true),
        shape == MatrixTriangle::Tril ==> r == count_diag(*self, self.n as int, false),
//@loop 1
                    invariant self.colptr@.len() == self.n + 1, count == count_diag(*self, i as int, true), count <= i,
                        forall|k: int| 0 <= k < self.n ==> self.colptr@[k] <= #[trigger] self.colptr@[k + 1] <= self.rowval@.len(),
//@loop 2
                    invariant self.colptr@.len() == self.n + 1, count == count_diag(*self, i as int, false), count <= i,
                        forall|k: int| 0 <= k < self.n ==> self.colptr@[k] <= #[trigger] self.colptr@[k + 1] <= self.rowval@.len(),
//@end
}
// number of slots of the KKT matrix: P, a full diagonal in the top-left block (minus the entries P already has there), A,
// the Hs blocks, the off-diagonal vectors of the sparse expansions and their p diagonal entries
pub open spec fn nnz_kkt(P: CscMatrix<F>, A: CscMatrix<F>, map: LDLDataMap, n: int, p: int) -> int {
    P.colptr@[P.n as int] + n - count_diag(P, P.n as int, true) + A.colptr@[A.n as int] + map.Hsblocks@.len()
        + maps_nnz(map.sparse_maps@, map.sparse_maps@.len() as int) + p
}
//@fn file=src/solver/core/kktsolvers/direct/quasidef/kkt_assembly.rs name=assemble_kkt_matrix as=kkt_alloc_slice rules=R1 from="let nnz_diagP =" to="let mut K = CscMatrix::<T>::spalloc(" header="fn assemble_kkt_matrix<T: FloatT>(P: &CscMatrix<T>, A: &CscMatrix<T>, map: &LDLDataMap, m: usize, n: usize, p: usize)"
//@contract
    requires
        // P is n x n, A is m x n, both with well-formed column pointers (what the problem constructor hands over)
        P.n == n, P.colptr@.len() == P.n + 1, A.colptr@.len() == A.n + 1,
        forall|i: int| 0 <= i < P.n ==> P.colptr@[i] <= #[trigger] P.colptr@[i + 1] <= P.rowval@.len(),
        map.sparse_maps.nnz_ok(),
        // ASSUMED well-formedness: the sizes fit the machine word (nothing in the real code checks it; it holds for every problem
        // whose data fit in memory except for the bare dimensions n and p)
        P.colptr@[P.n as int] + n + A.colptr@[A.n as int] + map.Hsblocks@.len() + maps_nnz(map.sparse_maps@, map.sparse_maps@.len() as int) + p <= usize::MAX,
        m + n + p < usize::MAX,
//@pre
    proof { lemma_count_diag_le(*P, P.n as int, true); lemma_maps_mono(map.sparse_maps@, 0, map.sparse_maps@.len() as int); }
//@after "let mut K ="
    proof {
        // C11: no underflow in `n - nnz_diagP` (an obligation of the statement above), and K is (m+n+p) x (m+n+p) with nnzKKT slots, all counts zero
        assert(nnz_diagP <= n);
        assert(nnzKKT == nnz_kkt(*P, *A, *map, n as int, p as int));
        assert(K.m == m + n + p && K.n == m + n + p && K.colptr@.len() == m + n + p + 1);
        assert(K.rowval@.len() == nnzKKT && K.nzval@.len() == nnzKKT);
        assert(forall|c: int| 0 <= c < m + n + p ==> #[trigger] K.colptr@[c] == 0);
    }
//@end

// =====================================================================================================================
// STAGE 2: the cone loop of _kkt_assemble_colcounts
// =====================================================================================================================
// (spec vocabulary copied from csc_utils) entries the expansion of a second-order / generalized power cone adds to column c
pub open spec fn soc_cnt(shape: MatrixTriangle, row: int, col: int, nvars: int, c: int) -> int {
    (if col <= c < col + 2 { 1int } else { 0int })
    + (if shape == MatrixTriangle::Triu { if col <= c < col + 2 { nvars } else { 0int } } else { if row <= c < row + nvars { 2int } else { 0int } })
}
pub open spec fn gp_cnt(shape: MatrixTriangle, row: int, col: int, d1: int, d2: int, c: int) -> int {
    (if col <= c < col + 3 { 1int } else { 0int })
    + (if shape == MatrixTriangle::Triu { (if c == col { d1 } else { 0int }) + (if c == col + 1 { d2 } else { 0int }) + (if c == col + 2 { d1 + d2 } else { 0int }) }
       else { (if row <= c < row + d1 { 1int } else { 0int }) + (if row + d1 <= c < row + d1 + d2 { 1int } else { 0int }) + (if row <= c < row + d1 + d2 { 1int } else { 0int }) })
}
impl CscMatrix<F> {
// (proved here and in csc_utils, same contract and invariants)
//@fn file=src/algebra/csc/utils.rs in="impl<T> CscMatrix<T>" name=colcount_diag rules=R1,R19,R17,zipidx:*
//@contract
    requires
        initcol + blockcols <= old(self).colptr@.len(),
        forall|c: int| initcol <= c < initcol + blockcols ==> #[trigger] old(self).colptr@[c] < usize::MAX,
    ensures
        // C11: one diagonal entry is counted in each of the blockcols columns starting at initcol, nothing else changes
        final(self).colptr@.len() == old(self).colptr@.len(), final(self).m == old(self).m, final(self).n == old(self).n,
        forall|c: int| 0 <= c < old(self).colptr@.len() ==> #[trigger] final(self).colptr@[c]
            == old(self).colptr@[c] + (if initcol <= c < initcol + blockcols { 1int } else { 0int }),
        final(self).rowval@ == old(self).rowval@, final(self).nzval@ == old(self).nzval@,
//@pre
        proof { assert(self.colptr@.len() == self.colptr.len()); }
//@loop 1
        invariant
            r14_lo1_0 == initcol, r14_hi1_0 == initcol + blockcols, r14_n1 == blockcols, r14_hi1_0 <= self.colptr@.len(),
            self.colptr@.len() == old(self).colptr@.len(), self.m == old(self).m, self.n == old(self).n,
            forall|c: int| initcol <= c < initcol + blockcols ==> #[trigger] old(self).colptr@[c] < usize::MAX,
            forall|c: int| 0 <= c < old(self).colptr@.len() ==> #[trigger] self.colptr@[c]
                == old(self).colptr@[c] + (if initcol <= c < initcol + r14_i1 { 1int } else { 0int }),
            self.rowval@ == old(self).rowval@, self.nzval@ == old(self).nzval@,
//@end
}
// ASSUMED HERE, PROVED IN UNIT csc_utils (contracts copied verbatim from there; the real bodies are verified there against
// exactly this text): the counting halves of the two sparse expansions
impl SecondOrderCone<F> {
    #[verifier::external_body]
    pub fn csc_colcount_sparsecone(&self, map: &SparseExpansionMap, K: &mut CscMatrix<F>, row: usize, col: usize, shape: MatrixTriangle)
        requires
            col + 2 <= old(K).colptr@.len(), shape == MatrixTriangle::Tril ==> row + self.dim <= old(K).colptr@.len(),
            forall|c: int| 0 <= c < old(K).colptr@.len() ==> #[trigger] old(K).colptr@[c] + soc_cnt(shape, row as int, col as int, self.dim as int, c) <= usize::MAX,
        ensures
            final(K).colptr@.len() == old(K).colptr@.len(),
            forall|c: int| 0 <= c < old(K).colptr@.len() ==> #[trigger] final(K).colptr@[c] == old(K).colptr@[c] + soc_cnt(shape, row as int, col as int, self.dim as int, c),
            final(K).rowval@ == old(K).rowval@, final(K).nzval@ == old(K).nzval@, final(K).m == old(K).m, final(K).n == old(K).n,
    { unimplemented!() }
}
impl GenPowerCone<F> {
    #[verifier::external_body]
    pub fn csc_colcount_sparsecone(&self, map: &SparseExpansionMap, K: &mut CscMatrix<F>, row: usize, col: usize, shape: MatrixTriangle)
        requires
            self.alpha@.len() + self.dim2 <= usize::MAX, row + self.alpha@.len() + self.dim2 <= usize::MAX,
            col + 3 <= old(K).colptr@.len(), shape == MatrixTriangle::Tril ==> row + self.alpha@.len() + self.dim2 <= old(K).colptr@.len(),
            forall|c: int| 0 <= c < old(K).colptr@.len() ==> #[trigger] old(K).colptr@[c] + gp_cnt(shape, row as int, col as int, self.alpha@.len() as int, self.dim2 as int, c) <= usize::MAX,
        ensures
            final(K).colptr@.len() == old(K).colptr@.len(),
            forall|c: int| 0 <= c < old(K).colptr@.len() ==> #[trigger] final(K).colptr@[c] == old(K).colptr@[c] + gp_cnt(shape, row as int, col as int, self.alpha@.len() as int, self.dim2 as int, c),
            final(K).rowval@ == old(K).rowval@, final(K).nzval@ == old(K).nzval@, final(K).m == old(K).m, final(K).n == old(K).n,
    { unimplemented!() }
}
// HAND-WRITTEN STAND-IN for the forwarding `match` that `#[enum_dispatch(SparseExpansionConeTrait<T>)]` generates for
// `SparseExpansionCone`; verified against the contracts of the two cone types
impl<'a> SparseExpansionCone<'a, F> {
    pub open spec fn nvars(&self) -> int { match self { SparseExpansionCone::SecondOrderCone(s) => s.dim as int, SparseExpansionCone::GenPowerCone(g) => g.alpha@.len() + g.dim2 } }
    pub open spec fn pdim_s(&self) -> int { match self { SparseExpansionCone::SecondOrderCone(s) => 2, SparseExpansionCone::GenPowerCone(g) => 3 } }
    pub open spec fn cnt(&self, shape: MatrixTriangle, row: int, col: int, c: int) -> int {
        match self {
            SparseExpansionCone::SecondOrderCone(s) => soc_cnt(shape, row, col, s.dim as int, c),
            SparseExpansionCone::GenPowerCone(g) => gp_cnt(shape, row, col, g.alpha@.len() as int, g.dim2 as int, c),
        }
    }
    pub fn csc_colcount_sparsecone(&self, map: &SparseExpansionMap, K: &mut CscMatrix<F>, row: usize, col: usize, shape: MatrixTriangle)
        requires
            row + self.nvars() <= usize::MAX, col + self.pdim_s() <= old(K).colptr@.len(),
            shape == MatrixTriangle::Tril ==> row + self.nvars() <= old(K).colptr@.len(),
            forall|c: int| 0 <= c < old(K).colptr@.len() ==> #[trigger] old(K).colptr@[c] + self.cnt(shape, row as int, col as int, c) <= usize::MAX,
        ensures
            final(K).colptr@.len() == old(K).colptr@.len(),
            forall|c: int| 0 <= c < old(K).colptr@.len() ==> #[trigger] final(K).colptr@[c] == old(K).colptr@[c] + self.cnt(shape, row as int, col as int, c),
            final(K).rowval@ == old(K).rowval@, final(K).nzval@ == old(K).nzval@, final(K).m == old(K).m, final(K).n == old(K).n,
    {
        match self {
            SparseExpansionCone::SecondOrderCone(inner) => inner.csc_colcount_sparsecone(map, K, row, col, shape),
            SparseExpansionCone::GenPowerCone(inner) => inner.csc_colcount_sparsecone(map, K, row, col, shape),
        }
    }
}
impl SupportedCone<F> {
    // entries the sparse expansion of this cone adds to column c when the cone sits at `row` and its auxiliary columns at `col`
    pub open spec fn sx_cnt(&self, shape: MatrixTriangle, row: int, col: int, c: int) -> int {
        match self {
            SupportedCone::SecondOrderCone(s) => soc_cnt(shape, row, col, s.dim as int, c),
            SupportedCone::GenPowerCone(g) => gp_cnt(shape, row, col, g.alpha@.len() as int, g.dim2 as int, c),
            SupportedCone::OtherCone(o) => 0,
        }
    }
}
// entries of the Hs block of a cone at `row`: a diagonal, or a dense triangle
pub open spec fn hs_cnt(cone: SupportedCone<F>, shape: MatrixTriangle, row: int, c: int) -> int {
    if cone.hs_diag_s() { if row <= c < row + cone.numel_s() { 1int } else { 0int } } else { dtri_cnt(shape, row, cone.numel_s(), c) }
}
// everything one cone contributes to column c
pub open spec fn cone_cnt(cone: SupportedCone<F>, shape: MatrixTriangle, row: int, pcol: int, c: int) -> int {
    hs_cnt(cone, shape, row, c) + (if cone.sparse_s() { cone.sx_cnt(shape, row, pcol, c) } else { 0int })
}
// the fixed data of the cone loop: the cone list, the cone ranges, the layout, n and m + n
pub struct KCtx { pub cs: Seq<SupportedCone<F>>, pub rng: Seq<Range<usize>>, pub shape: MatrixTriangle, pub n: int, pub mn: int }
// auxiliary columns used by the first k cones; cone k's expansion starts at column mn + cones_pdim(cs, k)
pub open spec fn cones_pdim(cs: Seq<SupportedCone<F>>, k: int) -> int decreases k { if k <= 0 { 0 } else { cones_pdim(cs, k - 1) + cs[k - 1].pdim_s() } }
// number of sparse-expandable cones among the first k (= index of cone k's map in the list of sparse maps)
pub open spec fn sparse_before(cs: Seq<SupportedCone<F>>, k: int) -> int decreases k { if k <= 0 { 0 } else { sparse_before(cs, k - 1) + (if cs[k - 1].sparse_s() { 1int } else { 0int }) } }
pub open spec fn row_of(x: KCtx, i: int) -> int { x.rng[i].start + x.n }
// C11: what the first k cones contribute to column c, as the left fold the loop performs
pub open spec fn cones_cnt(x: KCtx, k: int, c: int) -> int decreases k {
    if k <= 0 { 0 } else { cones_cnt(x, k - 1, c) + cone_cnt(x.cs[k - 1], x.shape, row_of(x, k - 1), x.mn + cones_pdim(x.cs, k - 1), c) }
}
// the i-th sparse-expandable cone owns the i-th sparse map, of its own kind (what LDLDataMap::new builds)
pub open spec fn map_matches(cone: SupportedCone<F>, map: SparseExpansionMap) -> bool {
    match cone {
        SupportedCone::SecondOrderCone(c) => map matches SparseExpansionMap::SOCExpansionMap(mm) && mm.u@.len() == c.dim && mm.v@.len() == c.dim,
        SupportedCone::GenPowerCone(g) => map matches SparseExpansionMap::GenPowExpansionMap(mm)
            && mm.p@.len() == g.alpha@.len() + g.dim2 && mm.q@.len() == g.alpha@.len() && mm.r@.len() == g.dim2,
        SupportedCone::OtherCone(o) => false,
    }
}
pub open spec fn maps_match(cs: Seq<SupportedCone<F>>, maps: Seq<SparseExpansionMap>) -> bool {
    &&& maps.len() == sparse_before(cs, cs.len() as int)
    &&& forall|i: int| 0 <= i < cs.len() && (#[trigger] cs[i]).sparse_s() ==> map_matches(cs[i], maps[sparse_before(cs, i)])
}
pub proof fn lemma_cone_cnt_nonneg(cone: SupportedCone<F>, shape: MatrixTriangle, row: int, pcol: int, c: int)
    ensures 0 <= hs_cnt(cone, shape, row, c), 0 <= cone.sx_cnt(shape, row, pcol, c), 0 <= cone_cnt(cone, shape, row, pcol, c),
{ }
pub proof fn lemma_cones_cnt_mono(x: KCtx, a: int, b: int, c: int)
    requires 0 <= a <= b,
    ensures 0 <= cones_cnt(x, a, c) <= cones_cnt(x, b, c),
    decreases b,
{
    if a < b { lemma_cones_cnt_mono(x, a, b - 1, c); lemma_cone_cnt_nonneg(x.cs[b - 1], x.shape, row_of(x, b - 1), x.mn + cones_pdim(x.cs, b - 1), c); }
    else if b > 0 { lemma_cones_cnt_mono(x, a - 1, b - 1, c); lemma_cone_cnt_nonneg(x.cs[b - 1], x.shape, row_of(x, b - 1), x.mn + cones_pdim(x.cs, b - 1), c); }
}
pub proof fn lemma_cones_pdim_mono(cs: Seq<SupportedCone<F>>, a: int, b: int)
    requires 0 <= a <= b,
    ensures 0 <= cones_pdim(cs, a) <= cones_pdim(cs, b), 0 <= sparse_before(cs, a) <= sparse_before(cs, b), sparse_before(cs, b) <= b,
    decreases b,
{
    if a < b { lemma_cones_pdim_mono(cs, a, b - 1); } else if b > 0 { lemma_cones_pdim_mono(cs, a - 1, b - 1); }
}
// the ghost sequence of a partially consumed slice iterator: the elements from position `off` on
#[verifier::prophetic]
pub open spec fn refs_from<T>(r: Seq<&T>, v: Seq<T>, off: int) -> bool { r.len() == v.len() - off && forall|q: int| 0 <= q < r.len() ==> *(#[trigger] r[q]) == v[off + q] }
// well-formedness the real call site (assemble_kkt_matrix) establishes for the cone loops
pub open spec fn kc_pre(x: KCtx, maps: Seq<SparseExpansionMap>, ncols1: int) -> bool {
    &&& x.cs.len() == x.rng.len() && 0 <= x.n <= x.mn
    &&& forall|i: int| 0 <= i < x.cs.len() ==> (#[trigger] x.cs[i]).wf()
    // every cone's rows lie inside the m constraint rows, behind the n variables
    &&& forall|i: int| 0 <= i < x.cs.len() ==> (#[trigger] x.rng[i]).start + x.n + x.cs[i].numel_s() <= x.mn
    // K has m + n + p columns (ncols1 = K.colptr.len() = m + n + p + 1)
    &&& x.mn + cones_pdim(x.cs, x.cs.len() as int) < ncols1
    &&& maps_match(x.cs, maps)
}

//@fn file=src/solver/core/kktsolvers/direct/quasidef/kkt_assembly.rs name=_kkt_assemble_colcounts as=kkt_count_cone_loop rules=R1,R3 from="let mut pcol =" to="for (i, cone) in cones.iter().enumerate()" header="fn _kkt_assemble_colcounts<T: FloatT>(K: &mut CscMatrix<T>, cones: &CompositeCone<T>, map: &LDLDataMap, shape: MatrixTriangle, m: usize, n: usize)"
//@contract
    requires
        ({ let x = KCtx { cs: cones.cones@, rng: cones.rng_cones@, shape: shape, n: n as int, mn: m + n };
           &&& kc_pre(x, map.sparse_maps@, old(K).colptr@.len() as int)
           // the counts stay inside the machine word (they sum to nnzKKT, a usize)
           &&& forall|c: int| 0 <= c < old(K).colptr@.len() ==> #[trigger] old(K).colptr@[c] + cones_cnt(x, x.cs.len() as int, c) <= usize::MAX }),
    ensures
        // C11: starting from any counts, column c has grown by exactly the contribution of the cones (cone i: its Hs block at
        // (row_i, row_i), diagonal or dense triangle; its sparse expansion, if any, with the auxiliary columns at
        // m + n + (pdim of the sparse cones before it)); nothing else changes
        final(K).colptr@.len() == old(K).colptr@.len(), final(K).m == old(K).m, final(K).n == old(K).n,
        final(K).rowval@ == old(K).rowval@, final(K).nzval@ == old(K).nzval@,
        forall|c: int| 0 <= c < old(K).colptr@.len() ==> #[trigger] final(K).colptr@[c]
            == old(K).colptr@[c] + cones_cnt(KCtx { cs: cones.cones@, rng: cones.rng_cones@, shape: shape, n: n as int, mn: m + n }, cones.cones@.len() as int, c),
//@pre
    let ghost x = KCtx { cs: cones.cones@, rng: cones.rng_cones@, shape: shape, n: n as int, mn: m + n };
    let ghost nc = x.cs.len() as int;
    let ghost maps = map.sparse_maps@;
    let ghost K0 = *K;
    proof { lemma_cones_pdim_mono(x.cs, 0, nc); assert(K.colptr@.len() == K.colptr.len()); assert(cones.cones@.len() == cones.cones.len()); }
//@iter 1
it
//@loop 1
        invariant
            refs_of(it.seq(), x.cs), i_ctr == it.index@, nc == x.cs.len(), nc <= usize::MAX,
            x == (KCtx { cs: cones.cones@, rng: cones.rng_cones@, shape: shape, n: n as int, mn: m + n }), maps == map.sparse_maps@,
            kc_pre(x, maps, K0.colptr@.len() as int), K0.colptr@.len() <= usize::MAX,
            forall|c: int| 0 <= c < K0.colptr@.len() ==> #[trigger] K0.colptr@[c] + cones_cnt(x, nc, c) <= usize::MAX,
            K.colptr@.len() == K0.colptr@.len(), K.m == K0.m, K.n == K0.n, K.rowval@ == K0.rowval@, K.nzval@ == K0.nzval@,
            forall|c: int| 0 <= c < K0.colptr@.len() ==> #[trigger] K.colptr@[c] == K0.colptr@[c] + cones_cnt(x, it.index@ as int, c),
            pcol == x.mn + cones_pdim(x.cs, it.index@ as int),
            sparse_map_iter.obeys_prophetic_iter_laws(), refs_from(sparse_map_iter.remaining(), maps, sparse_before(x.cs, it.index@ as int)),
//@body_start 1
        let ghost gi = it.index@ as int;
        let ghost K1 = *K;
        let ghost grow = row_of(x, gi);
        let ghost gp = x.mn + cones_pdim(x.cs, gi);
        proof {
            assert(*cone == x.cs[gi]);
            assert(x.cs[gi].wf());
            assert(x.rng[gi].start + x.n + x.cs[gi].numel_s() <= x.mn);
            lemma_cones_pdim_mono(x.cs, gi + 1, nc); lemma_cones_pdim_mono(x.cs, 0, gi);
            assert forall|c: int| 0 <= c < K0.colptr@.len() implies #[trigger] K1.colptr@[c] + cone_cnt(x.cs[gi], x.shape, grow, gp, c) <= usize::MAX by {
                lemma_cones_cnt_mono(x, gi + 1, nc, c);
                assert(K0.colptr@[c] + cones_cnt(x, nc, c) <= usize::MAX);
            }
            assert forall|c: int| 0 <= c < K0.colptr@.len() implies #[trigger] K1.colptr@[c] + hs_cnt(x.cs[gi], x.shape, grow, c) <= usize::MAX by {
                lemma_cone_cnt_nonneg(x.cs[gi], x.shape, grow, gp, c);
                assert(K1.colptr@[c] + cone_cnt(x.cs[gi], x.shape, grow, gp, c) <= usize::MAX);
            }
        }
//@before "if cone.is_sparse_expandable()"
        let ghost K2 = *K;
        proof {
            assert forall|c: int| 0 <= c < K0.colptr@.len() implies #[trigger] K2.colptr@[c] == K1.colptr@[c] + hs_cnt(x.cs[gi], x.shape, grow, c) by { }
            if x.cs[gi].sparse_s() {
                assert(map_matches(x.cs[gi], maps[sparse_before(x.cs, gi)]));
                assert(sparse_before(x.cs, gi + 1) == sparse_before(x.cs, gi) + 1);
                assert(cones_pdim(x.cs, gi + 1) == cones_pdim(x.cs, gi) + x.cs[gi].pdim_s());
                assert forall|c: int| 0 <= c < K0.colptr@.len() implies #[trigger] K2.colptr@[c] + x.cs[gi].sx_cnt(x.shape, grow, gp, c) <= usize::MAX by {
                    assert(K1.colptr@[c] + cone_cnt(x.cs[gi], x.shape, grow, gp, c) <= usize::MAX);
                }
            }
        }
//@body_end 1
        proof {
            assert(cones_pdim(x.cs, gi + 1) == cones_pdim(x.cs, gi) + x.cs[gi].pdim_s());
            assert(sparse_before(x.cs, gi + 1) == sparse_before(x.cs, gi) + (if x.cs[gi].sparse_s() { 1int } else { 0int }));
            assert forall|c: int| 0 <= c < K0.colptr@.len() implies #[trigger] K.colptr@[c] == K0.colptr@[c] + cones_cnt(x, gi + 1, c) by {
                assert(K2.colptr@[c] == K1.colptr@[c] + hs_cnt(x.cs[gi], x.shape, grow, c));
                assert(cones_cnt(x, gi + 1, c) == cones_cnt(x, gi, c) + cone_cnt(x.cs[gi], x.shape, grow, gp, c));
            }
        }
//@end

// =====================================================================================================================
// STAGE 3: the cone loop of _kkt_assemble_fill
// =====================================================================================================================
// ---- spec vocabulary copied verbatim from csc_utils (frames, dense triangles, sparse expansions) ----
pub open spec fn colptr_same_except(a: Seq<usize>, b: Seq<usize>, lo: int, hi: int) -> bool {
    a.len() == b.len() && forall|c: int| 0 <= c < a.len() && !(lo <= c < hi) ==> a[c] == b[c]
}
pub open spec fn untouched(cur: Seq<usize>, lo: int, hi: int, s: int) -> bool {
    forall|c: int| lo <= c < hi ==> #[trigger] cur[c] != s
}
impl CscMatrix<F> {
    pub open spec fn arrays_ok(&self) -> bool { self.rowval@.len() == self.nzval@.len() }
}
pub open spec fn tri(j: int) -> int decreases j { if j <= 0 { 0 } else { tri(j - 1) + j } }
pub open spec fn tri_cnt(j: int, jj: int, ii: int) -> int { if 0 <= j < jj { j + 1 } else if j == jj { ii } else { 0 } }
pub open spec fn tri_done(j: int, i: int, jj: int, ii: int, blockdim: int) -> bool { 0 <= i <= j < blockdim && (j < jj || (j == jj && i < ii)) }
pub open spec fn tri_free(c0: Seq<usize>, offset: int, blockdim: int, jj: int, ii: int, s: int) -> bool {
    forall|j: int| 0 <= j < blockdim ==> !(#[trigger] c0[offset + j] <= s < c0[offset + j] + tri_cnt(j, jj, ii))
}
pub open spec fn tri_pre(K0: CscMatrix<F>, offset: int, blockdim: int, maplen: int) -> bool {
    &&& K0.arrays_ok() && 0 <= offset && 0 <= blockdim && offset + blockdim <= K0.colptr@.len() && maplen >= tri(blockdim)
    &&& forall|j: int| 0 <= j < blockdim ==> #[trigger] K0.colptr@[offset + j] + j + 1 <= K0.rowval@.len()
    &&& forall|j1: int, j2: int| 0 <= j1 < j2 < blockdim ==> #[trigger] K0.colptr@[offset + j1] + j1 + 1 <= #[trigger] K0.colptr@[offset + j2]
}
pub open spec fn triu_state(K0: CscMatrix<F>, K: CscMatrix<F>, map0: Seq<usize>, map: Seq<usize>, offset: int, blockdim: int, jj: int, ii: int) -> bool {
    &&& K.arrays_ok() && K.rowval@.len() == K0.rowval@.len() && K.colptr@.len() == K0.colptr@.len() && map.len() == map0.len()
    &&& forall|c: int| 0 <= c < K0.colptr@.len() ==> #[trigger] K.colptr@[c] == K0.colptr@[c] + tri_cnt(c - offset, jj, ii)
    &&& forall|j: int, i: int| #[trigger] tri_done(j, i, jj, ii, blockdim) ==> {
            let d = K0.colptr@[offset + j] + i;
            K.rowval@[d] == offset + i && K.nzval@[d] == f_zero() && map[tri(j) + i] == d }
    &&& forall|s: int| 0 <= s < K0.rowval@.len() && #[trigger] tri_free(K0.colptr@, offset, blockdim, jj, ii, s)
            ==> K.rowval@[s] == K0.rowval@[s] && K.nzval@[s] == K0.nzval@[s]
    &&& forall|k: int| tri(jj) + ii <= k < map0.len() ==> #[trigger] map[k] == map0[k]
}
pub open spec fn tril_cnt(j: int, rr: int, jj: int) -> int { (if 0 <= j < rr { rr - j } else { 0 }) + (if 0 <= j < jj && j <= rr { 1int } else { 0 }) }
pub open spec fn tril_free(c0: Seq<usize>, offset: int, blockdim: int, rr: int, jj: int, s: int) -> bool {
    forall|j: int| 0 <= j < blockdim ==> !(#[trigger] c0[offset + j] <= s < c0[offset + j] + tril_cnt(j, rr, jj))
}
pub open spec fn tril_pre(K0: CscMatrix<F>, offset: int, blockdim: int, maplen: int) -> bool {
    &&& K0.arrays_ok() && 0 <= offset && 0 <= blockdim && offset + blockdim <= K0.colptr@.len() && maplen >= tri(blockdim)
    &&& forall|j: int| 0 <= j < blockdim ==> #[trigger] K0.colptr@[offset + j] + (blockdim - j) <= K0.rowval@.len()
    &&& forall|j1: int, j2: int| 0 <= j1 < j2 < blockdim ==> #[trigger] K0.colptr@[offset + j1] + (blockdim - j1) <= #[trigger] K0.colptr@[offset + j2]
}
pub open spec fn tril_state(K0: CscMatrix<F>, K: CscMatrix<F>, map0: Seq<usize>, map: Seq<usize>, offset: int, blockdim: int, rr: int, jj: int) -> bool {
    &&& K.arrays_ok() && K.rowval@.len() == K0.rowval@.len() && K.colptr@.len() == K0.colptr@.len() && map.len() == map0.len()
    &&& forall|c: int| 0 <= c < K0.colptr@.len() ==> #[trigger] K.colptr@[c] == K0.colptr@[c] + tril_cnt(c - offset, rr, jj)
    &&& forall|r: int, j: int| #[trigger] tri_done(r, j, rr, jj, blockdim) ==> {
            let d = K0.colptr@[offset + j] + (r - j);
            K.rowval@[d] == offset + r && K.nzval@[d] == f_zero() && map[tri(r) + j] == d }
    &&& forall|s: int| 0 <= s < K0.rowval@.len() && #[trigger] tril_free(K0.colptr@, offset, blockdim, rr, jj, s)
            ==> K.rowval@[s] == K0.rowval@[s] && K.nzval@[s] == K0.nzval@[s]
    &&& forall|k: int| tri(rr) + jj <= k < map0.len() ==> #[trigger] map[k] == map0[k]
}
pub open spec fn sx_room(K: CscMatrix<F>, need: spec_fn(int) -> int) -> bool {
    &&& forall|c: int| 0 <= c < K.colptr@.len() ==> need(c) >= 0 && #[trigger] K.colptr@[c] + need(c) <= K.rowval@.len()
    &&& forall|a: int, b: int| 0 <= a < b < K.colptr@.len() ==> #[trigger] K.colptr@[a] + need(a) <= #[trigger] K.colptr@[b]
}
pub open spec fn sx_free(K: CscMatrix<F>, need: spec_fn(int) -> int, s: int) -> bool {
    forall|c: int| 0 <= c < K.colptr@.len() ==> !(#[trigger] K.colptr@[c] <= s < K.colptr@[c] + need(c))
}
pub open spec fn soc_fill_post(K0: CscMatrix<F>, K: CscMatrix<F>, v: Seq<usize>, u: Seq<usize>, D: Seq<usize>, shape: MatrixTriangle, row: int, col: int, n: int) -> bool {
    let need = |c: int| soc_cnt(shape, row, col, n, c);
    &&& u.len() == n && v.len() == n && D.len() == 2
    &&& forall|c: int| 0 <= c < K0.colptr@.len() ==> #[trigger] K.colptr@[c] == K0.colptr@[c] + soc_cnt(shape, row, col, n, c)
    &&& shape == MatrixTriangle::Triu ==> {
        let c0 = K0.colptr@[col] as int; let c1 = K0.colptr@[col + 1] as int;
        &&& forall|i: int| 0 <= i < n ==> #[trigger] v[i] == c0 + i && K.rowval@[c0 + i] == row + i && K.nzval@[c0 + i] == f_zero()
        &&& forall|i: int| 0 <= i < n ==> #[trigger] u[i] == c1 + i && K.rowval@[c1 + i] == row + i && K.nzval@[c1 + i] == f_zero()
        &&& D[0] == c0 + n && K.rowval@[c0 + n] == col && K.nzval@[c0 + n] == f_zero()
        &&& D[1] == c1 + n && K.rowval@[c1 + n] == col + 1 && K.nzval@[c1 + n] == f_zero()
    }
    &&& shape == MatrixTriangle::Tril ==> {
        &&& forall|i: int| 0 <= i < n ==> #[trigger] v[i] == K0.colptr@[row + i] && K.rowval@[K0.colptr@[row + i] as int] == col && K.nzval@[K0.colptr@[row + i] as int] == f_zero()
        &&& forall|i: int| 0 <= i < n ==> #[trigger] u[i] == K0.colptr@[row + i] + 1 && K.rowval@[K0.colptr@[row + i] + 1] == col + 1 && K.nzval@[K0.colptr@[row + i] + 1] == f_zero()
        &&& D[0] == K0.colptr@[col] && K.rowval@[K0.colptr@[col] as int] == col && K.nzval@[K0.colptr@[col] as int] == f_zero()
        &&& D[1] == K0.colptr@[col + 1] && K.rowval@[K0.colptr@[col + 1] as int] == col + 1 && K.nzval@[K0.colptr@[col + 1] as int] == f_zero()
    }
    &&& forall|s: int| 0 <= s < K0.rowval@.len() && #[trigger] sx_free(K0, need, s) ==> K.rowval@[s] == K0.rowval@[s] && K.nzval@[s] == K0.nzval@[s]
}
pub open spec fn gp_fill_post(K0: CscMatrix<F>, K: CscMatrix<F>, q: Seq<usize>, r: Seq<usize>, p: Seq<usize>, D: Seq<usize>, shape: MatrixTriangle, row: int, col: int, d1: int, d2: int) -> bool {
    let need = |c: int| gp_cnt(shape, row, col, d1, d2, c);
    &&& q.len() == d1 && r.len() == d2 && p.len() == d1 + d2 && D.len() == 3
    &&& forall|c: int| 0 <= c < K0.colptr@.len() ==> #[trigger] K.colptr@[c] == K0.colptr@[c] + gp_cnt(shape, row, col, d1, d2, c)
    &&& shape == MatrixTriangle::Triu ==> {
        let c0 = K0.colptr@[col] as int; let c1 = K0.colptr@[col + 1] as int; let c2 = K0.colptr@[col + 2] as int;
        &&& forall|i: int| 0 <= i < d1 ==> #[trigger] q[i] == c0 + i && K.rowval@[c0 + i] == row + i && K.nzval@[c0 + i] == f_zero()
        &&& forall|i: int| 0 <= i < d2 ==> #[trigger] r[i] == c1 + i && K.rowval@[c1 + i] == row + d1 + i && K.nzval@[c1 + i] == f_zero()
        &&& forall|i: int| 0 <= i < d1 + d2 ==> #[trigger] p[i] == c2 + i && K.rowval@[c2 + i] == row + i && K.nzval@[c2 + i] == f_zero()
        &&& D[0] == c0 + d1 && K.rowval@[c0 + d1] == col && K.nzval@[c0 + d1] == f_zero()
        &&& D[1] == c1 + d2 && K.rowval@[c1 + d2] == col + 1 && K.nzval@[c1 + d2] == f_zero()
        &&& D[2] == c2 + d1 + d2 && K.rowval@[c2 + d1 + d2] == col + 2 && K.nzval@[c2 + d1 + d2] == f_zero()
    }
    &&& shape == MatrixTriangle::Tril ==> {
        &&& forall|i: int| 0 <= i < d1 ==> #[trigger] q[i] == K0.colptr@[row + i] && K.rowval@[K0.colptr@[row + i] as int] == col && K.nzval@[K0.colptr@[row + i] as int] == f_zero()
        &&& forall|i: int| 0 <= i < d2 ==> #[trigger] r[i] == K0.colptr@[row + d1 + i] && K.rowval@[K0.colptr@[row + d1 + i] as int] == col + 1 && K.nzval@[K0.colptr@[row + d1 + i] as int] == f_zero()
        &&& forall|i: int| 0 <= i < d1 + d2 ==> #[trigger] p[i] == K0.colptr@[row + i] + 1 && K.rowval@[K0.colptr@[row + i] + 1] == col + 2 && K.nzval@[K0.colptr@[row + i] + 1] == f_zero()
        &&& forall|k: int| 0 <= k < 3 ==> #[trigger] D[k] == K0.colptr@[col + k] && K.rowval@[K0.colptr@[col + k] as int] == col + k && K.nzval@[K0.colptr@[col + k] as int] == f_zero()
    }
    &&& forall|s: int| 0 <= s < K0.rowval@.len() && #[trigger] sx_free(K0, need, s) ==> K.rowval@[s] == K0.rowval@[s] && K.nzval@[s] == K0.nzval@[s]
}
// what fill_diag guarantees, as a predicate (csc_utils: diag_filled, plus the untouched tail of the map)
pub open spec fn diag_filled(Ka: CscMatrix<F>, Kb: CscMatrix<F>, D0: Seq<usize>, D: Seq<usize>, offset: int, blockdim: int) -> bool {
    &&& Kb.arrays_ok() && Kb.rowval@.len() == Ka.rowval@.len() && Kb.colptr@.len() == Ka.colptr@.len() && Kb.m == Ka.m && Kb.n == Ka.n && D.len() == D0.len()
    &&& colptr_same_except(Kb.colptr@, Ka.colptr@, offset, offset + blockdim)
    &&& forall|c: int| offset <= c < offset + blockdim ==> {
            let dest = #[trigger] Ka.colptr@[c] as int;
            D[c - offset] == dest && Kb.colptr@[c] == dest + 1 && Kb.rowval@[dest] == c && Kb.nzval@[dest] == f_zero() }
    &&& forall|s: int| 0 <= s < Ka.rowval@.len() && #[trigger] untouched(Ka.colptr@, offset, offset + blockdim, s) ==> Kb.rowval@[s] == Ka.rowval@[s] && Kb.nzval@[s] == Ka.nzval@[s]
    &&& forall|i: int| blockdim <= i < D0.len() ==> #[trigger] D[i] == D0[i]
}
// ASSUMED HERE, PROVED IN UNIT csc_utils (contracts copied verbatim from there): the fill helpers the loop calls
impl CscMatrix<F> {
    #[verifier::external_body]
    pub fn fill_diag(&mut self, diagtoKKT: &mut [usize], offset: usize, blockdim: usize)
        requires
            old(self).arrays_ok(), offset + blockdim <= old(self).colptr@.len(), old(diagtoKKT)@.len() >= blockdim,
            forall|c: int| offset <= c < offset + blockdim ==> #[trigger] old(self).colptr@[c] < old(self).rowval@.len(),
            forall|c1: int, c2: int| offset <= c1 < c2 < offset + blockdim ==> #[trigger] old(self).colptr@[c1] != #[trigger] old(self).colptr@[c2],
        ensures
            final(self).arrays_ok(), final(self).rowval@.len() == old(self).rowval@.len(), final(diagtoKKT)@.len() == old(diagtoKKT)@.len(),
            final(self).colptr@.len() == old(self).colptr@.len(), final(self).m == old(self).m, final(self).n == old(self).n,
            colptr_same_except(final(self).colptr@, old(self).colptr@, offset as int, offset + blockdim),
            forall|c: int| offset <= c < offset + blockdim ==> {
                let dest = #[trigger] old(self).colptr@[c] as int;
                &&& final(diagtoKKT)@[c - offset] == dest
                &&& final(self).colptr@[c] == dest + 1
                &&& final(self).rowval@[dest] == c
                &&& final(self).nzval@[dest] == f_zero()
            },
            forall|s: int| 0 <= s < old(self).rowval@.len() && #[trigger] untouched(old(self).colptr@, offset as int, offset + blockdim, s)
                ==> final(self).rowval@[s] == old(self).rowval@[s] && final(self).nzval@[s] == old(self).nzval@[s],
            forall|i: int| blockdim <= i < old(diagtoKKT)@.len() ==> #[trigger] final(diagtoKKT)@[i] == old(diagtoKKT)@[i],
    { unimplemented!() }
    #[verifier::external_body]
    pub fn fill_dense_triangle(&mut self, blocktoKKT: &mut [usize], offset: usize, blockdim: usize, shape: MatrixTriangle)
        requires
            shape == MatrixTriangle::Triu ==> tri_pre(*old(self), offset as int, blockdim as int, old(blocktoKKT)@.len() as int),
            shape == MatrixTriangle::Tril ==> tril_pre(*old(self), offset as int, blockdim as int, old(blocktoKKT)@.len() as int),
        ensures
            shape == MatrixTriangle::Triu ==> triu_state(*old(self), *final(self), old(blocktoKKT)@, final(blocktoKKT)@, offset as int, blockdim as int, blockdim as int, 0),
            shape == MatrixTriangle::Tril ==> tril_state(*old(self), *final(self), old(blocktoKKT)@, final(blocktoKKT)@, offset as int, blockdim as int, blockdim as int, 0),
    { unimplemented!() }
}
impl SecondOrderCone<F> {
    #[verifier::external_body]
    pub fn csc_fill_sparsecone(&self, map: &mut SparseExpansionMap, K: &mut CscMatrix<F>, row: usize, col: usize, shape: MatrixTriangle)
        requires
            *old(map) matches SparseExpansionMap::SOCExpansionMap(m) ==> m.u@.len() == self.dim && m.v@.len() == self.dim,
            old(K).arrays_ok(), col + 2 <= old(K).colptr@.len(), row + self.dim <= usize::MAX,
            shape == MatrixTriangle::Tril ==> row + self.dim <= col,
            sx_room(*old(K), |c: int| soc_cnt(shape, row as int, col as int, self.dim as int, c)),
        ensures
            final(K).arrays_ok(), final(K).rowval@.len() == old(K).rowval@.len(), final(K).colptr@.len() == old(K).colptr@.len(),
            final(K).m == old(K).m, final(K).n == old(K).n,
            *final(map) matches SparseExpansionMap::SOCExpansionMap(m) && soc_fill_post(*old(K), *final(K), m.v@, m.u@, m.D@, shape, row as int, col as int, self.dim as int),
    { unimplemented!() }
}
impl GenPowerCone<F> {
    #[verifier::external_body]
    pub fn csc_fill_sparsecone(&self, map: &mut SparseExpansionMap, K: &mut CscMatrix<F>, row: usize, col: usize, shape: MatrixTriangle)
        requires
            *old(map) matches SparseExpansionMap::GenPowExpansionMap(m) ==> m.q@.len() == self.alpha@.len() && m.r@.len() == self.dim2 && m.p@.len() == self.alpha@.len() + self.dim2,
            old(K).arrays_ok(), col + 3 <= old(K).colptr@.len(), row + self.alpha@.len() + self.dim2 <= usize::MAX,
            shape == MatrixTriangle::Tril ==> row + self.alpha@.len() + self.dim2 <= col,
            sx_room(*old(K), |c: int| gp_cnt(shape, row as int, col as int, self.alpha@.len() as int, self.dim2 as int, c)),
        ensures
            final(K).arrays_ok(), final(K).rowval@.len() == old(K).rowval@.len(), final(K).colptr@.len() == old(K).colptr@.len(),
            final(K).m == old(K).m, final(K).n == old(K).n,
            *final(map) matches SparseExpansionMap::GenPowExpansionMap(m)
                && gp_fill_post(*old(K), *final(K), m.q@, m.r@, m.p@, m.D@, shape, row as int, col as int, self.alpha@.len() as int, self.dim2 as int),
    { unimplemented!() }
}
// where the expansion of a sparse cone sits and that its map records it (either kind)
pub open spec fn sx_fill_post(sc: SparseExpansionCone<F>, K0: CscMatrix<F>, K: CscMatrix<F>, fmap: SparseExpansionMap, shape: MatrixTriangle, row: int, col: int) -> bool {
    match sc {
        SparseExpansionCone::SecondOrderCone(s) => fmap matches SparseExpansionMap::SOCExpansionMap(mm) && soc_fill_post(K0, K, mm.v@, mm.u@, mm.D@, shape, row, col, s.dim as int),
        SparseExpansionCone::GenPowerCone(g) => fmap matches SparseExpansionMap::GenPowExpansionMap(mm)
            && gp_fill_post(K0, K, mm.q@, mm.r@, mm.p@, mm.D@, shape, row, col, g.alpha@.len() as int, g.dim2 as int),
    }
}
pub open spec fn sx_map_fits(sc: SparseExpansionCone<F>, map: SparseExpansionMap) -> bool {
    match sc {
        SparseExpansionCone::SecondOrderCone(s) => map matches SparseExpansionMap::SOCExpansionMap(mm) ==> mm.u@.len() == s.dim && mm.v@.len() == s.dim,
        SparseExpansionCone::GenPowerCone(g) => map matches SparseExpansionMap::GenPowExpansionMap(mm) ==> mm.q@.len() == g.alpha@.len() && mm.r@.len() == g.dim2 && mm.p@.len() == g.alpha@.len() + g.dim2,
    }
}
// HAND-WRITTEN STAND-IN for the enum_dispatch forwarding of csc_fill_sparsecone (verified against the two contracts above)
impl<'a> SparseExpansionCone<'a, F> {
    pub fn csc_fill_sparsecone(&self, map: &mut SparseExpansionMap, K: &mut CscMatrix<F>, row: usize, col: usize, shape: MatrixTriangle)
        requires
            sx_map_fits(*self, *old(map)),
            old(K).arrays_ok(), col + self.pdim_s() <= old(K).colptr@.len(), row + self.nvars() <= usize::MAX,
            shape == MatrixTriangle::Tril ==> row + self.nvars() <= col,
            sx_room(*old(K), |c: int| self.cnt(shape, row as int, col as int, c)),
        ensures
            final(K).arrays_ok(), final(K).rowval@.len() == old(K).rowval@.len(), final(K).colptr@.len() == old(K).colptr@.len(),
            final(K).m == old(K).m, final(K).n == old(K).n,
            sx_fill_post(*self, *old(K), *final(K), *final(map), shape, row as int, col as int),
    {
        match self {
            SparseExpansionCone::SecondOrderCone(inner) => {
                proof { assert(sx_room(*K, |c: int| soc_cnt(shape, row as int, col as int, inner.dim as int, c))) by {
                    assert forall|c: int| (|c: int| self.cnt(shape, row as int, col as int, c))(c) == soc_cnt(shape, row as int, col as int, inner.dim as int, c) by { }
                } }
                inner.csc_fill_sparsecone(map, K, row, col, shape)
            }
            SparseExpansionCone::GenPowerCone(inner) => {
                proof { assert(sx_room(*K, |c: int| gp_cnt(shape, row as int, col as int, inner.alpha@.len() as int, inner.dim2 as int, c))) by {
                    assert forall|c: int| (|c: int| self.cnt(shape, row as int, col as int, c))(c) == gp_cnt(shape, row as int, col as int, inner.alpha@.len() as int, inner.dim2 as int, c) by { }
                } }
                inner.csc_fill_sparsecone(map, K, row, col, shape)
            }
        }
    }
}

// ---- the cursor discipline of the whole loop ----
// size of the Hs block of a cone inside map.Hsblocks
pub open spec fn blk_len(cone: SupportedCone<F>) -> int { if cone.hs_diag_s() { cone.numel_s() } else { tri(cone.numel_s()) } }
// the block ranges (CompositeCone::rng_blocks, built by make_rng_blocks): one per cone, of the block's size, inside the map, in order
pub open spec fn rb_ok(cs: Seq<SupportedCone<F>>, rb: Seq<Range<usize>>, hslen: int) -> bool {
    &&& rb.len() == cs.len()
    &&& forall|k: int| 0 <= k < cs.len() ==> (#[trigger] rb[k]).start <= rb[k].end <= hslen && rb[k].end - rb[k].start == blk_len(cs[k])
    &&& forall|k1: int, k2: int| 0 <= k1 < k2 < cs.len() ==> (#[trigger] rb[k1]).end <= (#[trigger] rb[k2]).start
}
// spacing of the cursors handed over by the counting pass (named predicate, as sp_triu in csc_utils)
pub open spec fn sp_cone(x: KCtx, cp0: Seq<usize>, c: int) -> bool { cp0[c] + cones_cnt(x, x.cs.len() as int, c) <= cp0[c + 1] }
// cursor hand-over condition of the cone loop: column c has room for everything the cones will put into it, before the cursor
// of the next column and before the end of the arrays
pub open spec fn kf_room(x: KCtx, K0: CscMatrix<F>) -> bool {
    &&& K0.arrays_ok() && K0.colptr@.len() <= usize::MAX && K0.rowval@.len() <= usize::MAX
    &&& forall|c: int| 0 <= c < K0.colptr@.len() ==> #[trigger] K0.colptr@[c] + cones_cnt(x, x.cs.len() as int, c) <= K0.rowval@.len()
    &&& forall|c: int| 0 <= c < K0.colptr@.len() - 1 ==> #[trigger] sp_cone(x, K0.colptr@, c)
}
pub proof fn lemma_cp_mono(x: KCtx, K0: CscMatrix<F>, a: int, b: int)
    requires kf_room(x, K0), 0 <= a <= b < K0.colptr@.len(),
    ensures K0.colptr@[a] <= K0.colptr@[b], a < b ==> K0.colptr@[a] + cones_cnt(x, x.cs.len() as int, a) <= K0.colptr@[b],
    decreases b - a,
{
    if a < b {
        lemma_cp_mono(x, K0, a, b - 1);
        assert(sp_cone(x, K0.colptr@, b - 1));
        lemma_cones_cnt_mono(x, 0, x.cs.len() as int, b - 1);
    }
}
// from the hand-over condition to the `room` precondition of any helper: cursors `cu` that have not moved back and still leave
// space for `need` inside the column's share satisfy sx_room
#[verifier::spinoff_prover]
pub proof fn lemma_room(x: KCtx, K0: CscMatrix<F>, Kx: CscMatrix<F>, need: spec_fn(int) -> int)
    requires
        kf_room(x, K0), Kx.colptr@.len() == K0.colptr@.len(), Kx.rowval@.len() == K0.rowval@.len(),
        forall|c: int| 0 <= c < K0.colptr@.len() ==> K0.colptr@[c] <= #[trigger] Kx.colptr@[c],
        forall|c: int| 0 <= c < K0.colptr@.len() ==> need(c) >= 0 && (#[trigger] Kx.colptr@[c]) + need(c) <= K0.colptr@[c] + cones_cnt(x, x.cs.len() as int, c),
    ensures sx_room(Kx, need),
{
    assert forall|c: int| 0 <= c < Kx.colptr@.len() implies need(c) >= 0 && #[trigger] Kx.colptr@[c] + need(c) <= Kx.rowval@.len() by {
        assert(K0.colptr@[c] + cones_cnt(x, x.cs.len() as int, c) <= K0.rowval@.len());
        assert(Kx.colptr@[c] >= 0);     // (mentions the trigger term in every case split)
    }
    // (the same fact with need(c) as the trigger: the case `need(c) < 0` of the goal does not mention colptr[c])
    assert forall|c: int| 0 <= c < Kx.colptr@.len() implies #[trigger] need(c) >= 0 by { assert(Kx.colptr@[c] >= 0); }
    assert forall|a: int, b: int| 0 <= a < b < Kx.colptr@.len() implies #[trigger] Kx.colptr@[a] + need(a) <= #[trigger] Kx.colptr@[b] by {
        lemma_cp_mono(x, K0, a, b);
        assert(K0.colptr@[b] <= Kx.colptr@[b]);
    }
}
// uniform frame of a fill step: only slots between the old and the new cursor of some column change
pub open spec fn cur_free(cpa: Seq<usize>, cpb: Seq<usize>, s: int) -> bool { forall|c: int| 0 <= c < cpa.len() ==> !(#[trigger] cpa[c] <= s < cpb[c]) }
#[verifier::opaque]
pub open spec fn step_frame(Ka: CscMatrix<F>, Kb: CscMatrix<F>) -> bool {
    &&& Kb.rowval@.len() == Ka.rowval@.len() && Kb.nzval@.len() == Ka.nzval@.len() && Kb.colptr@.len() == Ka.colptr@.len()
    &&& forall|s: int| 0 <= s < Ka.rowval@.len() && #[trigger] cur_free(Ka.colptr@, Kb.colptr@, s) ==> Kb.rowval@[s] == Ka.rowval@[s] && Kb.nzval@[s] == Ka.nzval@[s]
}
pub proof fn lemma_frame_trans(Ka: CscMatrix<F>, Kb: CscMatrix<F>, Kc: CscMatrix<F>)
    requires step_frame(Ka, Kb), step_frame(Kb, Kc),
        forall|c: int| 0 <= c < Ka.colptr@.len() ==> Ka.colptr@[c] <= #[trigger] Kb.colptr@[c] <= Kc.colptr@[c],
    ensures step_frame(Ka, Kc),
{
    reveal(step_frame);
    assert forall|s: int| 0 <= s < Ka.rowval@.len() && #[trigger] cur_free(Ka.colptr@, Kc.colptr@, s) implies Kc.rowval@[s] == Ka.rowval@[s] && Kc.nzval@[s] == Ka.nzval@[s] by {
        assert(cur_free(Ka.colptr@, Kb.colptr@, s)) by {
            assert forall|c: int| 0 <= c < Ka.colptr@.len() implies !(#[trigger] Ka.colptr@[c] <= s < Kb.colptr@[c]) by { assert(Kb.colptr@[c] <= Kc.colptr@[c]); }
        }
        assert(cur_free(Kb.colptr@, Kc.colptr@, s)) by {
            assert forall|c: int| 0 <= c < Kb.colptr@.len() implies !(#[trigger] Kb.colptr@[c] <= s < Kc.colptr@[c]) by { assert(!(Ka.colptr@[c] <= s < Kc.colptr@[c])); }
        }
    }
}
// one Hs block: the contract of the helper the loop dispatches to, as a predicate over the states before / after
pub open spec fn hs_step(cone: SupportedCone<F>, shape: MatrixTriangle, row: int, Ka: CscMatrix<F>, Kb: CscMatrix<F>, blk0: Seq<usize>, blk: Seq<usize>) -> bool {
    let bd = cone.numel_s();
    if cone.hs_diag_s() { diag_filled(Ka, Kb, blk0, blk, row, bd) }
    else if shape == MatrixTriangle::Triu { triu_state(Ka, Kb, blk0, blk, row, bd, bd, 0) }
    else { tril_state(Ka, Kb, blk0, blk, row, bd, bd, 0) }
}
// the sparse expansion of one cone (nothing happens for a cone without one)
pub open spec fn sx_step(cone: SupportedCone<F>, shape: MatrixTriangle, row: int, pcol: int, Kb: CscMatrix<F>, Kc: CscMatrix<F>, fmap: SparseExpansionMap) -> bool {
    match cone {
        SupportedCone::SecondOrderCone(s) => fmap matches SparseExpansionMap::SOCExpansionMap(mm) && soc_fill_post(Kb, Kc, mm.v@, mm.u@, mm.D@, shape, row, pcol, s.dim as int),
        SupportedCone::GenPowerCone(g) => fmap matches SparseExpansionMap::GenPowExpansionMap(mm)
            && gp_fill_post(Kb, Kc, mm.q@, mm.r@, mm.p@, mm.D@, shape, row, pcol, g.alpha@.len() as int, g.dim2 as int),
        SupportedCone::OtherCone(o) => false,
    }
}
// the Hs step advances the cursors by hs_cnt and changes only the slots in between
#[verifier::spinoff_prover]
pub proof fn lemma_hs_step(cone: SupportedCone<F>, shape: MatrixTriangle, row: int, Ka: CscMatrix<F>, Kb: CscMatrix<F>, blk0: Seq<usize>, blk: Seq<usize>)
    requires hs_step(cone, shape, row, Ka, Kb, blk0, blk), 0 <= row, row + cone.numel_s() <= Ka.colptr@.len(), Ka.arrays_ok(),
    ensures
        step_frame(Ka, Kb), Kb.arrays_ok(), blk.len() == blk0.len(),
        forall|c: int| 0 <= c < Ka.colptr@.len() ==> #[trigger] Kb.colptr@[c] == Ka.colptr@[c] + hs_cnt(cone, shape, row, c),
{
    reveal(step_frame);
    let bd = cone.numel_s();
    if cone.hs_diag_s() {
        assert forall|c: int| 0 <= c < Ka.colptr@.len() implies #[trigger] Kb.colptr@[c] == Ka.colptr@[c] + hs_cnt(cone, shape, row, c) by {
            if row <= c < row + bd { let dest = Ka.colptr@[c] as int; assert(Kb.colptr@[c] == dest + 1); }
        }
        assert forall|s: int| 0 <= s < Ka.rowval@.len() && #[trigger] cur_free(Ka.colptr@, Kb.colptr@, s) implies Kb.rowval@[s] == Ka.rowval@[s] && Kb.nzval@[s] == Ka.nzval@[s] by {
            assert(untouched(Ka.colptr@, row, row + bd, s)) by {
                assert forall|c: int| row <= c < row + bd implies #[trigger] Ka.colptr@[c] != s by { assert(Kb.colptr@[c] == Ka.colptr@[c] + 1); }
            }
        }
    } else if shape == MatrixTriangle::Triu {
        assert forall|c: int| 0 <= c < Ka.colptr@.len() implies #[trigger] Kb.colptr@[c] == Ka.colptr@[c] + hs_cnt(cone, shape, row, c) by {
            assert(Kb.colptr@[c] == Ka.colptr@[c] + tri_cnt(c - row, bd, 0));
        }
        assert forall|s: int| 0 <= s < Ka.rowval@.len() && #[trigger] cur_free(Ka.colptr@, Kb.colptr@, s) implies Kb.rowval@[s] == Ka.rowval@[s] && Kb.nzval@[s] == Ka.nzval@[s] by {
            assert(tri_free(Ka.colptr@, row, bd, bd, 0, s)) by {
                assert forall|j: int| 0 <= j < bd implies !(#[trigger] Ka.colptr@[row + j] <= s < Ka.colptr@[row + j] + tri_cnt(j, bd, 0)) by {
                    assert(Kb.colptr@[row + j] == Ka.colptr@[row + j] + tri_cnt(row + j - row, bd, 0));
                }
            }
        }
    } else {
        assert forall|c: int| 0 <= c < Ka.colptr@.len() implies #[trigger] Kb.colptr@[c] == Ka.colptr@[c] + hs_cnt(cone, shape, row, c) by {
            assert(Kb.colptr@[c] == Ka.colptr@[c] + tril_cnt(c - row, bd, 0));
        }
        assert forall|s: int| 0 <= s < Ka.rowval@.len() && #[trigger] cur_free(Ka.colptr@, Kb.colptr@, s) implies Kb.rowval@[s] == Ka.rowval@[s] && Kb.nzval@[s] == Ka.nzval@[s] by {
            assert(tril_free(Ka.colptr@, row, bd, bd, 0, s)) by {
                assert forall|j: int| 0 <= j < bd implies !(#[trigger] Ka.colptr@[row + j] <= s < Ka.colptr@[row + j] + tril_cnt(j, bd, 0)) by {
                    assert(Kb.colptr@[row + j] == Ka.colptr@[row + j] + tril_cnt(row + j - row, bd, 0));
                }
            }
        }
    }
}
// the sparse step advances the cursors by sx_cnt and changes only the slots in between
#[verifier::spinoff_prover]
pub proof fn lemma_sx_step(cone: SupportedCone<F>, shape: MatrixTriangle, row: int, pcol: int, Kb: CscMatrix<F>, Kc: CscMatrix<F>, fmap: SparseExpansionMap)
    requires sx_step(cone, shape, row, pcol, Kb, Kc, fmap), Kc.rowval@.len() == Kb.rowval@.len(), Kc.nzval@.len() == Kb.nzval@.len(), Kc.colptr@.len() == Kb.colptr@.len(),
    ensures
        step_frame(Kb, Kc),
        forall|c: int| 0 <= c < Kb.colptr@.len() ==> #[trigger] Kc.colptr@[c] == Kb.colptr@[c] + cone.sx_cnt(shape, row, pcol, c),
{
    reveal(step_frame);
    match cone {
        SupportedCone::SecondOrderCone(sc) => {
            let need = |c: int| soc_cnt(shape, row, pcol, sc.dim as int, c);
            assert forall|s: int| 0 <= s < Kb.rowval@.len() && #[trigger] cur_free(Kb.colptr@, Kc.colptr@, s) implies Kc.rowval@[s] == Kb.rowval@[s] && Kc.nzval@[s] == Kb.nzval@[s] by {
                assert(sx_free(Kb, need, s)) by {
                    assert forall|c: int| 0 <= c < Kb.colptr@.len() implies !(#[trigger] Kb.colptr@[c] <= s < Kb.colptr@[c] + need(c)) by { assert(Kc.colptr@[c] == Kb.colptr@[c] + need(c)); }
                }
            }
        }
        SupportedCone::GenPowerCone(g) => {
            let need = |c: int| gp_cnt(shape, row, pcol, g.alpha@.len() as int, g.dim2 as int, c);
            assert forall|s: int| 0 <= s < Kb.rowval@.len() && #[trigger] cur_free(Kb.colptr@, Kc.colptr@, s) implies Kc.rowval@[s] == Kb.rowval@[s] && Kc.nzval@[s] == Kb.nzval@[s] by {
                assert(sx_free(Kb, need, s)) by {
                    assert forall|c: int| 0 <= c < Kb.colptr@.len() implies !(#[trigger] Kb.colptr@[c] <= s < Kb.colptr@[c] + need(c)) by { assert(Kc.colptr@[c] == Kb.colptr@[c] + need(c)); }
                }
            }
        }
        SupportedCone::OtherCone(o) => { }
    }
}

// ---- the loop: a ghost chain of states (start of cone k, after its Hs block, after its sparse expansion) ----
pub open spec fn kstep(k: int) -> bool { true }
// C11: for every finished cone k the two helper contracts hold between consecutive states of the chain, its slice of
// map.Hsblocks holds the recorded slots, its sparse map (if any) the slots of the expansion, and cone k started at the cursors
// K0.colptr[c] + cones_cnt(k, c)
#[verifier::opaque]
pub open spec fn kf_chain(x: KCtx, rb: Seq<Range<usize>>, st: Seq<CscMatrix<F>>, b0: Seq<Seq<usize>>, hsb: Seq<usize>, fmaps: Seq<SparseExpansionMap>, i: int) -> bool {
    &&& st.len() == 2 * i + 1 && b0.len() == i
    &&& forall|k: int| 0 <= k <= i && #[trigger] kstep(k) ==> at_cone(x, st[0], st[2 * k], k)
    &&& forall|k: int| 0 <= k < i && #[trigger] kstep(k) ==> {
        &&& hs_step(x.cs[k], x.shape, row_of(x, k), st[2 * k], st[2 * k + 1], b0[k], hsb.subrange(rb[k].start as int, rb[k].end as int))
        &&& if x.cs[k].sparse_s() { sx_step(x.cs[k], x.shape, row_of(x, k), x.mn + cones_pdim(x.cs, k), st[2 * k + 1], st[2 * k + 2], fmaps[sparse_before(x.cs, k)]) }
            else { st[2 * k + 2] == st[2 * k + 1] }
    }
}
pub assume_specification<T: Clone> [<Range<T> as Clone>::clone] (r: &Range<T>) -> (c: Range<T>)
    ensures c == *r;
// extending the chain by one cone
#[verifier::spinoff_prover]
pub proof fn lemma_chain_push(x: KCtx, maps: Seq<SparseExpansionMap>, K0: CscMatrix<F>, rb: Seq<Range<usize>>, st: Seq<CscMatrix<F>>, b0: Seq<Seq<usize>>, hsb: Seq<usize>, fm: Seq<SparseExpansionMap>, i: int,
                              K2: CscMatrix<F>, K3: CscMatrix<F>, blk0: Seq<usize>, hsb2: Seq<usize>, fm2: Seq<SparseExpansionMap>)
    requires
        kf_chain(x, rb, st, b0, hsb, fm, i), 0 <= i < x.cs.len(), kf_pre(x, maps, K0, rb, hsb.len() as int), hsb2.len() == hsb.len(),
        fm.len() == sparse_before(x.cs, i),
        // the map changed only inside block i
        forall|t: int| 0 <= t < hsb.len() && !(rb[i].start <= t < rb[i].end) ==> #[trigger] hsb2[t] == hsb[t],
        hs_step(x.cs[i], x.shape, row_of(x, i), st[2 * i], K2, blk0, hsb2.subrange(rb[i].start as int, rb[i].end as int)),
        if x.cs[i].sparse_s() { fm2 == fm.push(fm2[sparse_before(x.cs, i)]) && sx_step(x.cs[i], x.shape, row_of(x, i), x.mn + cones_pdim(x.cs, i), K2, K3, fm2[sparse_before(x.cs, i)]) }
        else { K3 == K2 && fm2 == fm },
        at_cone(x, st[0], K3, i + 1),
    ensures kf_chain(x, rb, st.push(K2).push(K3), b0.push(blk0), hsb2, fm2, i + 1),
{
    reveal(kf_chain); reveal(kf_pre);
    let st2 = st.push(K2).push(K3);
    let b2 = b0.push(blk0);
    lemma_cones_pdim_mono(x.cs, 0, i);
    assert forall|k: int| 0 <= k < i + 1 && #[trigger] kstep(k) implies ({
        &&& hs_step(x.cs[k], x.shape, row_of(x, k), st2[2 * k], st2[2 * k + 1], b2[k], hsb2.subrange(rb[k].start as int, rb[k].end as int))
        &&& if x.cs[k].sparse_s() { sx_step(x.cs[k], x.shape, row_of(x, k), x.mn + cones_pdim(x.cs, k), st2[2 * k + 1], st2[2 * k + 2], fm2[sparse_before(x.cs, k)]) }
            else { st2[2 * k + 2] == st2[2 * k + 1] }
    }) by {
        if k < i {
            assert(kstep(k));
            assert(st2[2 * k] == st[2 * k] && st2[2 * k + 1] == st[2 * k + 1] && st2[2 * k + 2] == st[2 * k + 2] && b2[k] == b0[k]);
            assert(rb[k].end <= rb[i].start);
            assert(hsb2.subrange(rb[k].start as int, rb[k].end as int) =~= hsb.subrange(rb[k].start as int, rb[k].end as int));
            if x.cs[k].sparse_s() {
                lemma_cones_pdim_mono(x.cs, k + 1, i); lemma_cones_pdim_mono(x.cs, 0, k);
                assert(sparse_before(x.cs, k + 1) == sparse_before(x.cs, k) + 1);
                assert(fm2[sparse_before(x.cs, k)] == fm[sparse_before(x.cs, k)]);
            }
        } else {
            assert(st2[2 * i] == st[2 * i] && st2[2 * i + 1] == K2 && st2[2 * i + 2] == K3 && b2[i] == blk0);
        }
    }
    assert forall|k: int| 0 <= k <= i + 1 && #[trigger] kstep(k) implies at_cone(x, st2[0], st2[2 * k], k) by {
        assert(st2[0] == st[0]);
        if k <= i { assert(st2[2 * k] == st[2 * k]); } else { assert(st2[2 * (i + 1)] == K3); }
    }
}

// everything the loop assumes about its inputs, as one opaque predicate (the loop body only hands it to the lemmas)
#[verifier::opaque]
pub open spec fn kf_pre(x: KCtx, maps: Seq<SparseExpansionMap>, K0: CscMatrix<F>, rb: Seq<Range<usize>>, hslen: int) -> bool {
    kc_pre(x, maps, K0.colptr@.len() as int) && kf_room(x, K0) && rb_ok(x.cs, rb, hslen)
}
// state at the start of cone i: the cursors have advanced by the contribution of the first i cones
#[verifier::opaque]
pub open spec fn at_cone(x: KCtx, K0: CscMatrix<F>, K1: CscMatrix<F>, i: int) -> bool {
    &&& K1.arrays_ok() && K1.rowval@.len() == K0.rowval@.len() && K1.colptr@.len() == K0.colptr@.len()
    &&& forall|c: int| 0 <= c < K0.colptr@.len() ==> #[trigger] K1.colptr@[c] == K0.colptr@[c] + cones_cnt(x, i, c)
}
// lemma_counts_give_cone_pre, part 1: the cursor hand-over condition gives the precondition of the Hs helper of cone i
#[verifier::spinoff_prover]
pub proof fn lemma_hs_pre(x: KCtx, maps: Seq<SparseExpansionMap>, K0: CscMatrix<F>, K1: CscMatrix<F>, rb: Seq<Range<usize>>, hslen: int, i: int, blklen: int)
    requires kf_pre(x, maps, K0, rb, hslen), at_cone(x, K0, K1, i), 0 <= i < x.cs.len(), blklen == blk_len(x.cs[i]),
    ensures
        x.cs.len() == x.rng.len(), x.cs.len() == rb.len(), x.cs[i].wf(), rb[i].start <= rb[i].end <= hslen, rb[i].end - rb[i].start == blklen,
        K1.arrays_ok(), K1.rowval@.len() == K0.rowval@.len(), K1.colptr@.len() == K0.colptr@.len(), K0.colptr@.len() <= usize::MAX,
        ({ let cone = x.cs[i]; let row = row_of(x, i); let bd = cone.numel_s();
           &&& 0 <= row && row + bd <= K1.colptr@.len() && row + bd <= usize::MAX
           &&& cone.hs_diag_s() ==> (forall|c: int| row <= c < row + bd ==> #[trigger] K1.colptr@[c] < K1.rowval@.len())
                && (forall|c1: int, c2: int| row <= c1 < c2 < row + bd ==> #[trigger] K1.colptr@[c1] != #[trigger] K1.colptr@[c2])
           &&& !cone.hs_diag_s() && x.shape == MatrixTriangle::Triu ==> tri_pre(K1, row, bd, blklen)
           &&& !cone.hs_diag_s() && x.shape == MatrixTriangle::Tril ==> tril_pre(K1, row, bd, blklen) }),
{
    let cone = x.cs[i]; let row = row_of(x, i); let bd = cone.numel_s(); let nc = x.cs.len() as int;
    let gp = x.mn + cones_pdim(x.cs, i);
    let need1 = |c: int| hs_cnt(cone, x.shape, row, c);
    reveal(kf_pre); reveal(at_cone);
    assert(x.cs[i].wf());
    assert(x.rng[i].start + x.n + x.cs[i].numel_s() <= x.mn);
    assert(rb[i].start <= rb[i].end <= hslen && rb[i].end - rb[i].start == blk_len(x.cs[i]));
    lemma_cones_pdim_mono(x.cs, 0, nc);
    assert forall|c: int| 0 <= c < K0.colptr@.len() implies K0.colptr@[c] <= #[trigger] K1.colptr@[c] by { lemma_cones_cnt_mono(x, 0, i, c); }
    assert forall|c: int| 0 <= c < K0.colptr@.len() implies need1(c) >= 0 && (#[trigger] K1.colptr@[c]) + need1(c) <= K0.colptr@[c] + cones_cnt(x, nc, c) by {
        lemma_cone_cnt_nonneg(cone, x.shape, row, gp, c);
        lemma_cones_cnt_mono(x, i + 1, nc, c);
        assert(cones_cnt(x, i + 1, c) == cones_cnt(x, i, c) + cone_cnt(cone, x.shape, row, gp, c));
        assert(K1.colptr@[c] == K0.colptr@[c] + cones_cnt(x, i, c));
    }
    lemma_room(x, K0, K1, need1);
    if cone.hs_diag_s() {
        assert forall|c: int| row <= c < row + bd implies #[trigger] K1.colptr@[c] < K1.rowval@.len() by { assert(need1(c) == 1); }
        assert forall|c1: int, c2: int| row <= c1 < c2 < row + bd implies #[trigger] K1.colptr@[c1] != #[trigger] K1.colptr@[c2] by {
            assert(need1(c1) == 1); assert(K1.colptr@[c1] + need1(c1) <= K1.colptr@[c2]);
        }
    } else if x.shape == MatrixTriangle::Triu {
        assert forall|j: int| 0 <= j < bd implies #[trigger] K1.colptr@[row + j] + j + 1 <= K1.rowval@.len() by { assert(need1(row + j) == j + 1); }
        assert forall|j1: int, j2: int| 0 <= j1 < j2 < bd implies #[trigger] K1.colptr@[row + j1] + j1 + 1 <= #[trigger] K1.colptr@[row + j2] by {
            assert(need1(row + j1) == j1 + 1); assert(K1.colptr@[row + j1] + need1(row + j1) <= K1.colptr@[row + j2]);
        }
    } else {
        assert forall|j: int| 0 <= j < bd implies #[trigger] K1.colptr@[row + j] + (bd - j) <= K1.rowval@.len() by { assert(need1(row + j) == bd - j); }
        assert forall|j1: int, j2: int| 0 <= j1 < j2 < bd implies #[trigger] K1.colptr@[row + j1] + (bd - j1) <= #[trigger] K1.colptr@[row + j2] by {
            assert(need1(row + j1) == bd - j1); assert(K1.colptr@[row + j1] + need1(row + j1) <= K1.colptr@[row + j2]);
        }
    }
}
// lemma_counts_give_cone_pre, part 2: after the Hs block of cone i the cursors leave room for its sparse expansion
#[verifier::spinoff_prover]
pub proof fn lemma_sx_pre(x: KCtx, maps: Seq<SparseExpansionMap>, K0: CscMatrix<F>, K1: CscMatrix<F>, K2: CscMatrix<F>, rb: Seq<Range<usize>>, hslen: int, i: int)
    requires
        kf_pre(x, maps, K0, rb, hslen), at_cone(x, K0, K1, i), 0 <= i < x.cs.len(), x.cs[i].sparse_s(),
        K2.arrays_ok() && K2.rowval@.len() == K0.rowval@.len() && K2.colptr@.len() == K0.colptr@.len(),
        forall|c: int| 0 <= c < K0.colptr@.len() ==> #[trigger] K2.colptr@[c] == K1.colptr@[c] + hs_cnt(x.cs[i], x.shape, row_of(x, i), c),
    ensures
        sx_room(K2, |c: int| x.cs[i].sx_cnt(x.shape, row_of(x, i), x.mn + cones_pdim(x.cs, i), c)),
        map_matches(x.cs[i], maps[sparse_before(x.cs, i)]), 0 <= sparse_before(x.cs, i) < maps.len(),
        x.mn + cones_pdim(x.cs, i) + x.cs[i].pdim_s() <= K0.colptr@.len(), row_of(x, i) + x.cs[i].numel_s() <= x.mn + cones_pdim(x.cs, i),
        x.mn + cones_pdim(x.cs, i) + x.cs[i].pdim_s() <= usize::MAX,
{
    let cone = x.cs[i]; let row = row_of(x, i); let nc = x.cs.len() as int;
    let gp = x.mn + cones_pdim(x.cs, i);
    let need2 = |c: int| cone.sx_cnt(x.shape, row, gp, c);
    reveal(kf_pre); reveal(at_cone);
    assert(x.rng[i].start + x.n + x.cs[i].numel_s() <= x.mn);
    lemma_cones_pdim_mono(x.cs, i + 1, nc); lemma_cones_pdim_mono(x.cs, 0, i);
    assert(sparse_before(x.cs, i + 1) == sparse_before(x.cs, i) + 1);
    assert(cones_pdim(x.cs, i + 1) == cones_pdim(x.cs, i) + cone.pdim_s());
    assert forall|c: int| 0 <= c < K0.colptr@.len() implies K0.colptr@[c] <= #[trigger] K2.colptr@[c] by {
        lemma_cones_cnt_mono(x, 0, i, c); lemma_cone_cnt_nonneg(cone, x.shape, row, gp, c);
        assert(K2.colptr@[c] == K1.colptr@[c] + hs_cnt(cone, x.shape, row, c));
    }
    assert forall|c: int| 0 <= c < K0.colptr@.len() implies need2(c) >= 0 && (#[trigger] K2.colptr@[c]) + need2(c) <= K0.colptr@[c] + cones_cnt(x, nc, c) by {
        lemma_cone_cnt_nonneg(cone, x.shape, row, gp, c);
        lemma_cones_cnt_mono(x, i + 1, nc, c);
        assert(cones_cnt(x, i + 1, c) == cones_cnt(x, i, c) + cone_cnt(cone, x.shape, row, gp, c));
        assert(K2.colptr@[c] == K1.colptr@[c] + hs_cnt(cone, x.shape, row, c));
        assert(K1.colptr@[c] == K0.colptr@[c] + cones_cnt(x, i, c));
    }
    lemma_room(x, K0, K2, need2);
}
// one whole iteration: cursors and frame after cone i
#[verifier::spinoff_prover]
pub proof fn lemma_cone_done(x: KCtx, K0: CscMatrix<F>, K1: CscMatrix<F>, K2: CscMatrix<F>, K3: CscMatrix<F>, i: int)
    requires
        at_cone(x, K0, K1, i), 0 <= i < x.cs.len(), step_frame(K0, K1), step_frame(K1, K2), step_frame(K2, K3),
        K3.arrays_ok(), K3.rowval@.len() == K0.rowval@.len(), K3.colptr@.len() == K0.colptr@.len(),
        forall|c: int| 0 <= c < K0.colptr@.len() ==> #[trigger] K2.colptr@[c] == K1.colptr@[c] + hs_cnt(x.cs[i], x.shape, row_of(x, i), c),
        forall|c: int| 0 <= c < K0.colptr@.len() ==> #[trigger] K3.colptr@[c] == K2.colptr@[c]
            + (if x.cs[i].sparse_s() { x.cs[i].sx_cnt(x.shape, row_of(x, i), x.mn + cones_pdim(x.cs, i), c) } else { 0int }),
    ensures at_cone(x, K0, K3, i + 1), step_frame(K0, K3),
{
    reveal(at_cone);
    let cone = x.cs[i]; let row = row_of(x, i); let gp = x.mn + cones_pdim(x.cs, i);
    assert forall|c: int| 0 <= c < K0.colptr@.len() implies #[trigger] K3.colptr@[c] == K0.colptr@[c] + cones_cnt(x, i + 1, c) by {
        assert(K2.colptr@[c] == K1.colptr@[c] + hs_cnt(cone, x.shape, row, c));
        assert(K1.colptr@[c] == K0.colptr@[c] + cones_cnt(x, i, c));
        assert(cones_cnt(x, i + 1, c) == cones_cnt(x, i, c) + cone_cnt(cone, x.shape, row, gp, c));
    }
    assert forall|c: int| 0 <= c < K1.colptr@.len() implies K1.colptr@[c] <= #[trigger] K2.colptr@[c] <= K3.colptr@[c] by {
        lemma_cone_cnt_nonneg(cone, x.shape, row, gp, c);
        assert(K2.colptr@[c] == K1.colptr@[c] + hs_cnt(cone, x.shape, row, c));
    }
    lemma_frame_trans(K1, K2, K3);
    assert forall|c: int| 0 <= c < K0.colptr@.len() implies K0.colptr@[c] <= #[trigger] K1.colptr@[c] <= K3.colptr@[c] by {
        lemma_cones_cnt_mono(x, 0, i, c); lemma_cone_cnt_nonneg(cone, x.shape, row, gp, c);
        assert(K1.colptr@[c] == K0.colptr@[c] + cones_cnt(x, i, c));
        assert(K2.colptr@[c] == K1.colptr@[c] + hs_cnt(cone, x.shape, row, c));
    }
    lemma_frame_trans(K0, K1, K3);
}

// ---- persistence: what a helper wrote stays until the end of the loop (kind-independent) ----
// a slot below the cursor of its own column is not touched by a step whose cursors stay inside each column's share
pub proof fn lemma_below_free(x: KCtx, K0: CscMatrix<F>, cpa: Seq<usize>, cpb: Seq<usize>, c: int, s: int)
    requires
        kf_room(x, K0), cpa.len() == K0.colptr@.len(), cpb.len() == K0.colptr@.len(), 0 <= c < K0.colptr@.len(),
        forall|q: int| 0 <= q < K0.colptr@.len() ==> K0.colptr@[q] <= #[trigger] cpa[q] <= cpb[q] <= K0.colptr@[q] + cones_cnt(x, x.cs.len() as int, q),
        K0.colptr@[c] <= s < cpa[c],
    ensures cur_free(cpa, cpb, s),
{
    assert forall|q: int| 0 <= q < cpa.len() implies !(#[trigger] cpa[q] <= s < cpb[q]) by {
        assert(K0.colptr@[c] <= cpa[c] <= cpb[c] <= K0.colptr@[c] + cones_cnt(x, x.cs.len() as int, c));
        if q > c { lemma_cp_mono(x, K0, c, q); }
        if q < c { lemma_cp_mono(x, K0, q, c); }
    }
}
// a state of the chain: same sizes as K0, every cursor inside its column's share
pub open spec fn in_share(x: KCtx, K0: CscMatrix<F>, Kt: CscMatrix<F>) -> bool {
    &&& Kt.colptr@.len() == K0.colptr@.len() && Kt.rowval@.len() == K0.rowval@.len() && Kt.nzval@.len() == K0.nzval@.len()
    &&& forall|q: int| 0 <= q < K0.colptr@.len() ==> K0.colptr@[q] <= #[trigger] Kt.colptr@[q] <= K0.colptr@[q] + cones_cnt(x, x.cs.len() as int, q)
}
// the three states of cone k in the chain: frames, ordered cursors inside the shares
#[verifier::spinoff_prover]
pub proof fn lemma_chain_cone(x: KCtx, maps: Seq<SparseExpansionMap>, K0: CscMatrix<F>, rb: Seq<Range<usize>>, st: Seq<CscMatrix<F>>, b0: Seq<Seq<usize>>, hsb: Seq<usize>,
                              fm: Seq<SparseExpansionMap>, k: int)
    requires kf_pre(x, maps, K0, rb, hsb.len() as int), kf_chain(x, rb, st, b0, hsb, fm, x.cs.len() as int), st[0] == K0, 0 <= k < x.cs.len(),
    ensures
        st.len() == 2 * x.cs.len() + 1,
        step_frame(st[2 * k], st[2 * k + 1]), step_frame(st[2 * k + 1], st[2 * k + 2]),
        in_share(x, K0, st[2 * k]), in_share(x, K0, st[2 * k + 1]), in_share(x, K0, st[2 * k + 2]),
        forall|q: int| 0 <= q < K0.colptr@.len() ==> st[2 * k].colptr@[q] <= #[trigger] st[2 * k + 1].colptr@[q] <= st[2 * k + 2].colptr@[q],
{
    reveal(kf_chain); reveal(kf_pre); reveal(at_cone);
    let cone = x.cs[k]; let row = row_of(x, k); let gp = x.mn + cones_pdim(x.cs, k); let nc = x.cs.len() as int;
    let Ka = st[2 * k]; let Kb = st[2 * k + 1]; let Kc = st[2 * k + 2];
    assert(kstep(k)); assert(kstep(k + 1));
    assert(at_cone(x, K0, Ka, k)); assert(at_cone(x, K0, st[2 * (k + 1)], k + 1));
    assert(x.rng[k].start + x.n + x.cs[k].numel_s() <= x.mn);
    lemma_cones_pdim_mono(x.cs, 0, nc);
    let blk = hsb.subrange(rb[k].start as int, rb[k].end as int);
    lemma_hs_step(cone, x.shape, row, Ka, Kb, b0[k], blk);
    assert(Kb.rowval@.len() == Ka.rowval@.len() && Kb.colptr@.len() == Ka.colptr@.len() && Kb.nzval@.len() == Ka.nzval@.len()) by { reveal(step_frame); }
    if cone.sparse_s() { lemma_sx_step(cone, x.shape, row, gp, Kb, Kc, fm[sparse_before(x.cs, k)]); }
    else { assert(step_frame(Kb, Kc)) by { reveal(step_frame); } }
    assert forall|q: int| 0 <= q < K0.colptr@.len() implies
        K0.colptr@[q] <= #[trigger] Ka.colptr@[q] <= Kb.colptr@[q] && Kb.colptr@[q] <= Kc.colptr@[q] && Kc.colptr@[q] <= K0.colptr@[q] + cones_cnt(x, nc, q) by {
        lemma_cones_cnt_mono(x, 0, k, q); lemma_cones_cnt_mono(x, k + 1, nc, q); lemma_cone_cnt_nonneg(cone, x.shape, row, gp, q);
        assert(Ka.colptr@[q] == K0.colptr@[q] + cones_cnt(x, k, q));
        assert(Kc.colptr@[q] == K0.colptr@[q] + cones_cnt(x, k + 1, q));
        assert(Kb.colptr@[q] == Ka.colptr@[q] + hs_cnt(cone, x.shape, row, q));
        assert(cones_cnt(x, k + 1, q) == cones_cnt(x, k, q) + cone_cnt(cone, x.shape, row, gp, q));
    }
    assert forall|q: int| 0 <= q < K0.colptr@.len() implies K0.colptr@[q] <= #[trigger] Kb.colptr@[q] <= K0.colptr@[q] + cones_cnt(x, nc, q) by { assert(K0.colptr@[q] <= Ka.colptr@[q] <= Kb.colptr@[q]); }
    assert forall|q: int| 0 <= q < K0.colptr@.len() implies K0.colptr@[q] <= #[trigger] Kc.colptr@[q] <= K0.colptr@[q] + cones_cnt(x, nc, q) by { assert(K0.colptr@[q] <= Ka.colptr@[q] <= Kb.colptr@[q]); }
    assert forall|q: int| 0 <= q < K0.colptr@.len() implies K0.colptr@[q] <= #[trigger] Ka.colptr@[q] <= K0.colptr@[q] + cones_cnt(x, nc, q) by { assert(K0.colptr@[q] <= Ka.colptr@[q] <= Kb.colptr@[q]); }
    assert forall|q: int| 0 <= q < K0.colptr@.len() implies Ka.colptr@[q] <= #[trigger] Kb.colptr@[q] <= Kc.colptr@[q] by { assert(K0.colptr@[q] <= Ka.colptr@[q] <= Kb.colptr@[q]); }
}
// C11 (final-state reading of kf_chain): a slot that lies below the cursor of its column after the Hs block (w == 1) or the
// sparse expansion (w == 2) of cone k has, in the final matrix st[2 * #cones], the row index and value it had at that moment.
// Every content clause of hs_step / sx_step speaks about such a slot, so each recorded slot holds the stated entry at the end.
pub proof fn lemma_chain_persist(x: KCtx, maps: Seq<SparseExpansionMap>, K0: CscMatrix<F>, rb: Seq<Range<usize>>, st: Seq<CscMatrix<F>>, b0: Seq<Seq<usize>>, hsb: Seq<usize>,
                                 fm: Seq<SparseExpansionMap>, k: int, w: int, c: int, s: int)
    requires
        kf_pre(x, maps, K0, rb, hsb.len() as int), kf_chain(x, rb, st, b0, hsb, fm, x.cs.len() as int), st[0] == K0, 0 <= k < x.cs.len(), 1 <= w <= 2,
        0 <= c < K0.colptr@.len(), K0.colptr@[c] <= s < st[2 * k + w].colptr@[c],
    ensures
        st[2 * (x.cs.len() as int)].rowval@[s] == st[2 * k + w].rowval@[s], st[2 * (x.cs.len() as int)].nzval@[s] == st[2 * k + w].nzval@[s],
    decreases 2 * (x.cs.len() - k) - w,
{
    let nc = x.cs.len() as int;
    lemma_chain_cone(x, maps, K0, rb, st, b0, hsb, fm, k);
    assert(kf_room(x, K0)) by { reveal(kf_pre); }
    if w == 1 {
        let Kb = st[2 * k + 1]; let Kc = st[2 * k + 2];
        assert(K0.colptr@[c] <= Kb.colptr@[c] <= Kc.colptr@[c]) by { assert(st[2 * k].colptr@[c] <= Kb.colptr@[c] <= Kc.colptr@[c]); }
        lemma_below_free(x, K0, Kb.colptr@, Kc.colptr@, c, s);
        assert(Kc.rowval@[s] == Kb.rowval@[s] && Kc.nzval@[s] == Kb.nzval@[s]) by { reveal(step_frame); }
        lemma_chain_persist(x, maps, K0, rb, st, b0, hsb, fm, k, 2, c, s);
    } else if k + 1 < nc {
        lemma_chain_cone(x, maps, K0, rb, st, b0, hsb, fm, k + 1);
        let Ka = st[2 * (k + 1)]; let Kb = st[2 * (k + 1) + 1];
        assert(Ka == st[2 * k + 2]);
        assert(Ka.colptr@[c] <= Kb.colptr@[c]) by { assert(Ka.colptr@[c] <= Kb.colptr@[c] <= st[2 * (k + 1) + 2].colptr@[c]); }
        lemma_below_free(x, K0, Ka.colptr@, Kb.colptr@, c, s);
        assert(Kb.rowval@[s] == Ka.rowval@[s] && Kb.nzval@[s] == Ka.nzval@[s]) by { reveal(step_frame); }
        lemma_chain_persist(x, maps, K0, rb, st, b0, hsb, fm, k + 1, 1, c, s);
    }
}

// lemma_counts_give_cone_pre (the counterpart of lemma_counts_give_triu_pre in csc_utils): counts => cursors => the hand-over
// condition of the cone loop.  Kc = K after the counting pass (P / A arm, then the cone loop of STAGE 2: count(c) = arm(c) +
// cones_cnt(c)); Kp = after colcount_to_colptr (its contract); K0 = after the P / A fill arm, which advances the cursor of
// column c by exactly arm(c); the allocation covers the total count.
#[verifier::spinoff_prover]
pub proof fn lemma_counts_give_cone_pre(x: KCtx, Kc: CscMatrix<F>, Kp: CscMatrix<F>, K0: CscMatrix<F>, arm: spec_fn(int) -> int)
    requires
        forall|c: int| 0 <= c < Kc.colptr@.len() ==> arm(c) >= 0 && #[trigger] Kc.colptr@[c] == arm(c) + cones_cnt(x, x.cs.len() as int, c),
        Kp.colptr@.len() == Kc.colptr@.len(), K0.colptr@.len() == Kc.colptr@.len(),
        forall|c: int| 0 <= c < Kc.colptr@.len() ==> #[trigger] Kp.colptr@[c] == sum_upto(Kc.colptr@, c),
        forall|c: int| 0 <= c < Kc.colptr@.len() ==> #[trigger] K0.colptr@[c] == Kp.colptr@[c] + arm(c),
        sum_upto(Kc.colptr@, Kc.colptr@.len() as int) <= K0.rowval@.len(),
        K0.arrays_ok(), K0.colptr@.len() <= usize::MAX, K0.rowval@.len() <= usize::MAX,
    ensures kf_room(x, K0),
{
    let nc = x.cs.len() as int; let len = Kc.colptr@.len() as int;
    assert forall|c: int| 0 <= c < len implies #[trigger] K0.colptr@[c] + cones_cnt(x, nc, c) <= K0.rowval@.len() by {
        assert(Kp.colptr@[c] == sum_upto(Kc.colptr@, c));
        assert(Kc.colptr@[c] == arm(c) + cones_cnt(x, nc, c));
        assert(sum_upto(Kc.colptr@, c + 1) == sum_upto(Kc.colptr@, c) + Kc.colptr@[c]);
        lemma_sum_mono(Kc.colptr@, c + 1, len);
    }
    assert forall|c: int| 0 <= c < len - 1 implies #[trigger] sp_cone(x, K0.colptr@, c) by {
        assert(Kp.colptr@[c] == sum_upto(Kc.colptr@, c)); assert(Kp.colptr@[c + 1] == sum_upto(Kc.colptr@, c + 1));
        assert(Kc.colptr@[c] == arm(c) + cones_cnt(x, nc, c));
        assert(sum_upto(Kc.colptr@, c + 1) == sum_upto(Kc.colptr@, c) + Kc.colptr@[c]);
        assert(K0.colptr@[c] == Kp.colptr@[c] + arm(c));
        assert(K0.colptr@[c + 1] == Kp.colptr@[c + 1] + arm(c + 1));
        assert(Kc.colptr@[c + 1] == arm(c + 1) + cones_cnt(x, nc, c + 1));
    }
}

//@fn file=src/solver/core/kktsolvers/direct/quasidef/kkt_assembly.rs name=_kkt_assemble_fill as=kkt_fill_cone_loop rules=R1,R3,R15r:map.Hsblocks from="let mut pcol =" to="for (i, cone) in cones.iter().enumerate()" header="fn _kkt_assemble_fill<T: FloatT>(K: &mut CscMatrix<T>, cones: &CompositeCone<T>, map: &mut LDLDataMap, shape: MatrixTriangle, m: usize, n: usize)"
//@contract
    requires
        ({ let x = KCtx { cs: cones.cones@, rng: cones.rng_cones@, shape: shape, n: n as int, mn: m + n };
           &&& kc_pre(x, old(map).sparse_maps@, old(K).colptr@.len() as int)
           // cursor hand-over condition (follows from the counts of the counting pass: lemma_counts_give_cone_pre)
           &&& kf_room(x, *old(K))
           &&& rb_ok(x.cs, cones.rng_blocks@, old(map).Hsblocks@.len() as int) }),
    ensures
        final(K).arrays_ok(), final(K).rowval@.len() == old(K).rowval@.len(), final(K).colptr@.len() == old(K).colptr@.len(),
        // every cursor has advanced by exactly what the counting pass counted for the cones
        forall|c: int| 0 <= c < old(K).colptr@.len() ==> #[trigger] final(K).colptr@[c]
            == old(K).colptr@[c] + cones_cnt(KCtx { cs: cones.cones@, rng: cones.rng_cones@, shape: shape, n: n as int, mn: m + n }, cones.cones@.len() as int, c),
        // nothing else is written: a slot that does not lie between the old and the new cursor of a column keeps its content
        step_frame(*old(K), *final(K)),
        final(map).P@ == old(map).P@, final(map).A@ == old(map).A@, final(map).diagP@ == old(map).diagP@, final(map).diag_full@ == old(map).diag_full@,
        final(map).Hsblocks@.len() == old(map).Hsblocks@.len(), final(map).sparse_maps@.len() == old(map).sparse_maps@.len(),
        // C11: cone by cone, the contracts of the fill helpers hold along a chain of intermediate states from old(K) to final(K)
        exists|st: Seq<CscMatrix<F>>, b0: Seq<Seq<usize>>| {
            &&& #[trigger] kf_chain(KCtx { cs: cones.cones@, rng: cones.rng_cones@, shape: shape, n: n as int, mn: m + n }, cones.rng_blocks@, st, b0,
                         final(map).Hsblocks@, final(map).sparse_maps@, cones.cones@.len() as int)
            &&& st[0] == *old(K) && st[2 * (cones.cones@.len() as int)] == *final(K) },
//@pre
    let ghost x = KCtx { cs: cones.cones@, rng: cones.rng_cones@, shape: shape, n: n as int, mn: m + n };
    let ghost nc = x.cs.len() as int;
    let ghost rb = cones.rng_blocks@;
    let ghost maps0 = map.sparse_maps@;
    let ghost mp0 = *map;
    let ghost K0 = *K;
    let ghost mut st: Seq<CscMatrix<F>> = seq![K0];
    let ghost mut b0: Seq<Seq<usize>> = Seq::empty();
    let ghost mut fm: Seq<SparseExpansionMap> = Seq::empty();
    proof {
        lemma_cones_pdim_mono(x.cs, 0, nc); assert(K.colptr@.len() == K.colptr.len()); assert(cones.cones@.len() == cones.cones.len());
        assert(kf_pre(x, maps0, K0, rb, mp0.Hsblocks@.len() as int)) by { reveal(kf_pre); }
        assert(at_cone(x, K0, K0, 0)) by { reveal(at_cone); }
        assert(step_frame(K0, K0)) by { reveal(step_frame); }
        assert(kf_chain(x, rb, st, b0, map.Hsblocks@, fm, 0)) by { reveal(kf_chain); assert(st[0] == K0); }
        assert(maps0.len() == sparse_before(x.cs, nc));
    }
//@after "let mut sparse_map_iter ="
    let ghost rem0 = sparse_map_iter.remaining();
//@iter 1
it
//@loop 1
        invariant
            refs_of(it.seq(), x.cs), i_ctr == it.index@, nc == x.cs.len(), nc <= usize::MAX, rb == cones.rng_blocks@,
            x == (KCtx { cs: cones.cones@, rng: cones.rng_cones@, shape: shape, n: n as int, mn: m + n }),
            kf_pre(x, maps0, K0, rb, mp0.Hsblocks@.len() as int), maps0.len() == sparse_before(x.cs, nc),
            K.arrays_ok(), K.rowval@.len() == K0.rowval@.len(), K.colptr@.len() == K0.colptr@.len(),
            at_cone(x, K0, *K, it.index@ as int), step_frame(K0, *K),
            pcol == x.mn + cones_pdim(x.cs, it.index@ as int),
            map.P@ == mp0.P@, map.A@ == mp0.A@, map.diagP@ == mp0.diagP@, map.diag_full@ == mp0.diag_full@, map.Hsblocks@.len() == mp0.Hsblocks@.len(),
            // the iterator over the sparse maps: the maps not handed out yet are as at the start; the ones handed out are final
            sparse_map_iter.obeys_prophetic_iter_laws(), rem0.len() == maps0.len(),
            sparse_map_iter.remaining() =~= rem0.skip(sparse_before(x.cs, it.index@ as int)),
            forall|q: int| sparse_before(x.cs, it.index@ as int) <= q < rem0.len() ==> *(#[trigger] rem0[q]) == maps0[q],
            fm.len() == sparse_before(x.cs, it.index@ as int),
            forall|q: int| 0 <= q < fm.len() ==> *final(#[trigger] rem0[q]) == fm[q],
            kf_chain(x, rb, st, b0, map.Hsblocks@, fm, it.index@ as int), st.len() == 2 * it.index@ + 1, st[0] == K0, st[2 * (it.index@ as int)] == *K,
//@body_start 1
        let ghost gi = it.index@ as int;
        let ghost K1 = *K;
        let ghost hsb1 = map.Hsblocks@;
        let ghost grow = row_of(x, gi);
        let ghost gp = x.mn + cones_pdim(x.cs, gi);
        let ghost gcone = x.cs[gi];
        let ghost fm1 = fm;
        proof {
            assert(*cone == x.cs[gi]);
            lemma_hs_pre(x, maps0, K0, K1, rb, hsb1.len() as int, gi, blk_len(gcone));
            lemma_cones_pdim_mono(x.cs, gi + 1, nc); lemma_cones_pdim_mono(x.cs, 0, gi);
        }
//@before "if cone.Hs_is_diagonal()"
        let ghost blk0 = block@;
//@before "if cone.is_sparse_expandable()"
        let ghost K2 = *K;
        let ghost hsb2 = map.Hsblocks@;
        proof {
            assert(hsb2.len() == hsb1.len());
            assert(forall|t: int| 0 <= t < hsb1.len() && !(rb[gi].start <= t < rb[gi].end) ==> #[trigger] hsb2[t] == hsb1[t]);
            assert(hs_step(gcone, x.shape, grow, K1, K2, blk0, hsb2.subrange(rb[gi].start as int, rb[gi].end as int)));
            lemma_hs_step(gcone, x.shape, grow, K1, K2, blk0, hsb2.subrange(rb[gi].start as int, rb[gi].end as int));
            if gcone.sparse_s() { lemma_sx_pre(x, maps0, K0, K1, K2, rb, hsb1.len() as int, gi); }
        }
//@before "sc.csc_fill_sparsecone("
            proof {
                assert(sx_room(*K, |c: int| sc.cnt(shape, row as int, pcol as int, c))) by {
                    assert forall|c: int| #[trigger] sc.cnt(shape, row as int, pcol as int, c) == gcone.sx_cnt(x.shape, grow, gp, c) by { }
                    assert(sx_room(K2, |c: int| gcone.sx_cnt(x.shape, grow, gp, c)));
                }
                assert(*thismap == maps0[sparse_before(x.cs, gi)]);
            }
//@after "sc.csc_fill_sparsecone("
            proof { fm = fm.push(*thismap); }
//@body_end 1
        proof {
            let K3 = *K;
            assert(cones_pdim(x.cs, gi + 1) == cones_pdim(x.cs, gi) + gcone.pdim_s());
            assert(sparse_before(x.cs, gi + 1) == sparse_before(x.cs, gi) + (if gcone.sparse_s() { 1int } else { 0int }));
            if gcone.sparse_s() {
                let fmap = fm[sparse_before(x.cs, gi)];
                assert(sx_step(gcone, x.shape, grow, gp, K2, K3, fmap));
                lemma_sx_step(gcone, x.shape, grow, gp, K2, K3, fmap);
            } else {
                assert(step_frame(K2, K3)) by { reveal(step_frame); }
            }
            lemma_cone_done(x, K0, K1, K2, K3, gi);
            lemma_chain_push(x, maps0, K0, rb, st, b0, hsb1, fm1, gi, K2, K3, blk0, hsb2, fm);
            st = st.push(K2).push(K3);
            b0 = b0.push(blk0);
        }
//@post
    proof {
        reveal(at_cone);
        assert(map.sparse_maps@ =~= fm);
    }
//@end

// =====================================================================================================================
// LDLDataMap::new : sizes of the index maps; one sparse map per sparse-expandable cone, in order, of its kind and size
// =====================================================================================================================
impl SOCExpansionMap {
//@fn file=src/solver/core/kktsolvers/direct/quasidef/datamaps.rs in="impl SOCExpansionMap" name=new rules=R1 ret=r
//@contract
    ensures r.u@.len() == cone.dim, r.v@.len() == cone.dim,
//@end
}
impl GenPowExpansionMap {
//@fn file=src/solver/core/kktsolvers/direct/quasidef/datamaps.rs in="impl GenPowExpansionMap" name=new rules=R1 ret=r
//@contract
    requires cone.alpha@.len() + cone.dim2 <= usize::MAX,
    ensures r.p@.len() == cone.alpha@.len() + cone.dim2, r.q@.len() == cone.alpha@.len(), r.r@.len() == cone.dim2,
//@end
}
impl SecondOrderCone<F> {
//@fn file=src/solver/core/kktsolvers/direct/quasidef/datamaps.rs in="SparseExpansionConeTrait<T> for &'_ SecondOrderCone<T>" name=expansion_map rules=R1 ret=r
//@contract
    ensures r matches SparseExpansionMap::SOCExpansionMap(mm) && mm.u@.len() == self.dim && mm.v@.len() == self.dim,
//@end
}
impl GenPowerCone<F> {
//@fn file=src/solver/core/kktsolvers/direct/quasidef/datamaps.rs in="SparseExpansionConeTrait<T> for &'_ GenPowerCone<T>" name=expansion_map rules=R1 ret=r
//@contract
    requires self.alpha@.len() + self.dim2 <= usize::MAX,
    ensures r matches SparseExpansionMap::GenPowExpansionMap(mm) && mm.p@.len() == self.alpha@.len() + self.dim2 && mm.q@.len() == self.alpha@.len() && mm.r@.len() == self.dim2,
//@end
}
// HAND-WRITTEN STAND-IN for the enum_dispatch forwarding of expansion_map
impl<'a> SparseExpansionCone<'a, F> {
    pub fn expansion_map(&self) -> (r: SparseExpansionMap)
        requires self.nvars() <= usize::MAX,
        ensures match *self {
            SparseExpansionCone::SecondOrderCone(s) => r matches SparseExpansionMap::SOCExpansionMap(mm) && mm.u@.len() == s.dim && mm.v@.len() == s.dim,
            SparseExpansionCone::GenPowerCone(g) => r matches SparseExpansionMap::GenPowExpansionMap(mm) && mm.p@.len() == g.alpha@.len() + g.dim2 && mm.q@.len() == g.alpha@.len() && mm.r@.len() == g.dim2,
        },
    {
        match self {
            SparseExpansionCone::SecondOrderCone(inner) => inner.expansion_map(),
            SparseExpansionCone::GenPowerCone(inner) => inner.expansion_map(),
        }
    }
}
// under maps_match the auxiliary dimensions counted over the maps and over the cones agree
pub proof fn lemma_maps_cones_pdim(cs: Seq<SupportedCone<F>>, maps: Seq<SparseExpansionMap>, k: int)
    requires 0 <= k <= cs.len(), maps.len() >= sparse_before(cs, k),
        forall|i: int| 0 <= i < k && (#[trigger] cs[i]).sparse_s() ==> map_matches(cs[i], maps[sparse_before(cs, i)]),
    ensures maps_pdim(maps, sparse_before(cs, k)) == cones_pdim(cs, k),
    decreases k,
{
    if k > 0 {
        lemma_cones_pdim_mono(cs, k - 1, k); lemma_cones_pdim_mono(cs, 0, k - 1);
        lemma_maps_cones_pdim(cs, maps, k - 1);
        if cs[k - 1].sparse_s() { assert(map_matches(cs[k - 1], maps[sparse_before(cs, k - 1)])); }
    }
}
impl LDLDataMap {
//@fn file=src/solver/core/kktsolvers/direct/quasidef/datamaps.rs in="impl LDLDataMap" name=new rules=R1,R22 ret=r
//@contract
    requires
        Pmat.colptr@.len() == Pmat.n + 1, Amat.colptr@.len() == Amat.n + 1,
        forall|i: int| 0 <= i < cones.cones@.len() ==> (#[trigger] cones.cones@[i]).wf(),
        Amat.m + Pmat.m + cones_pdim(cones.cones@, cones.cones@.len() as int) <= usize::MAX,
    ensures
        // C11: one index slot per entry of P and of A, n diagonal slots, one slot per Hs entry, m + n + p full-diagonal slots, and the
        // i-th sparse-expandable cone owns the i-th sparse map, of its kind and size
        r.P@.len() == Pmat.colptr@[Pmat.n as int], r.A@.len() == Amat.colptr@[Amat.n as int], r.diagP@.len() == Pmat.m,
        r.Hsblocks@.len() == (if cones.rng_blocks@.len() == 0 { 0 } else { cones.rng_blocks@[cones.rng_blocks@.len() - 1].end as int }),
        maps_match(cones.cones@, r.sparse_maps@),
        r.diag_full@.len() == Amat.m + Pmat.m + cones_pdim(cones.cones@, cones.cones@.len() as int),
//@pre
        let ghost cs = cones.cones@;
        let ghost nc = cs.len() as int;
        proof { assert(cones.cones@.len() == cones.cones.len()); }
//@iter 1
it0
//@loop 1
            invariant refs_of(it0.seq(), cs), cs == cones.cones@, nc == cs.len(), nc <= usize::MAX, r22_n1 == sparse_before(cs, it0.index@ as int), r22_n1 <= it0.index@,
//@iter 2
it1
//@loop 2
            invariant
                refs_of(it1.seq(), cs), cs == cones.cones@, nc == cs.len(),
                forall|i: int| 0 <= i < cs.len() ==> (#[trigger] cs[i]).wf(),
                sparse_maps@.len() == sparse_before(cs, it1.index@ as int),
                forall|i: int| 0 <= i < it1.index@ && (#[trigger] cs[i]).sparse_s() ==> map_matches(cs[i], sparse_maps@[sparse_before(cs, i)]),
//@body_start 2
            let ghost gi = it1.index@ as int;
            let ghost sm0 = sparse_maps@;
            proof { assert(*cone == cs[gi]); assert(cs[gi].wf()); lemma_cones_pdim_mono(cs, 0, gi); }
//@body_end 2
            proof {
                assert forall|i: int| 0 <= i < gi + 1 && (#[trigger] cs[i]).sparse_s() implies map_matches(cs[i], sparse_maps@[sparse_before(cs, i)]) by {
                    lemma_cones_pdim_mono(cs, 0, i);
                    if i < gi { lemma_cones_pdim_mono(cs, i + 1, gi); assert(sparse_before(cs, i + 1) == sparse_before(cs, i) + 1); assert(sparse_maps@[sparse_before(cs, i)] == sm0[sparse_before(cs, i)]); }
                }
            }
//@before "let diag_full ="
        proof {
            lemma_maps_cones_pdim(cs, sparse_maps@, nc);
            lemma_maps_mono(sparse_maps@, 0, sparse_maps@.len() as int);
        }
//@end
}

} // verus!
fn main() {}
