//@struct file=src/algebra/csc/core.rs name=CscMatrix

impl CscMatrix<F> {
    // column pointers describe n columns over the stored entries
    pub open spec fn colptr_ok(&self) -> bool {
        &&& self.colptr@.len() == self.n + 1
        &&& self.rowval@.len() == self.nzval@.len()
        &&& self.colptr@[self.n as int] == self.nzval@.len()
        &&& forall|a: int, b: int| 0 <= a <= b <= self.n ==> self.colptr@[a] <= self.colptr@[b]
    }
    pub open spec fn same_pattern(&self, o: &Self) -> bool {
        self.m == o.m && self.n == o.n && self.colptr@ == o.colptr@ && self.rowval@ == o.rowval@ && self.nzval@.len() == o.nzval@.len()
    }
    // column of the stored entry k
    pub open spec fn in_col(&self, k: int, j: int) -> bool { 0 <= j < self.n && self.colptr@[j] <= k < self.colptr@[j + 1] }

//@fn file=src/algebra/csc/matrix_math.rs in="MatrixMathMut<T> for CscMatrix<T>" name=scale rules=R1
//@contract
    ensures final(self).same_pattern(old(self)),
        forall|k: int| 0 <= k < old(self).nzval@.len() ==> #[trigger] final(self).nzval@[k] == f_mul(old(self).nzval@[k], c),
//@end
//@fn file=src/algebra/csc/matrix_math.rs in="MatrixMathMut<T> for CscMatrix<T>" name=negate rules=R1
//@contract
    ensures final(self).same_pattern(old(self)),
        forall|k: int| 0 <= k < old(self).nzval@.len() ==> #[trigger] final(self).nzval@[k] == f_neg(old(self).nzval@[k]),
//@end
//@fn file=src/algebra/csc/matrix_math.rs in="MatrixMathMut<T> for CscMatrix<T>" name=lscale rules=R1,zipidx:*
//@contract
    requires old(self).rowval@.len() == old(self).nzval@.len(),
        forall|k: int| 0 <= k < old(self).rowval@.len() ==> old(self).rowval@[k] < l@.len(),
    ensures final(self).same_pattern(old(self)),
        // C10: A <- diag(l) * A, entry for entry
        forall|k: int| 0 <= k < old(self).nzval@.len() ==> #[trigger] final(self).nzval@[k] == f_mul(old(self).nzval@[k], l@[old(self).rowval@[k] as int]),
//@loop 1
        invariant
            self.same_pattern(old(self)), self.rowval@.len() == self.nzval@.len(), r14_n1 == self.nzval@.len(),
            forall|k: int| 0 <= k < self.rowval@.len() ==> self.rowval@[k] < l@.len(),
            forall|k: int| 0 <= k < r14_i1 ==> #[trigger] self.nzval@[k] == f_mul(old(self).nzval@[k], l@[old(self).rowval@[k] as int]),
            forall|k: int| r14_i1 <= k < r14_n1 ==> #[trigger] self.nzval@[k] == old(self).nzval@[k],
//@end
//@fn file=src/algebra/csc/matrix_math.rs in="MatrixMathMut<T> for CscMatrix<T>" name=rscale rules=R1,R6,R15:vals
//@contract
    requires old(self).colptr_ok(), r@.len() >= old(self).n,
    ensures final(self).same_pattern(old(self)),
        // C10: A <- A * diag(r), entry for entry
        forall|k: int, j: int| #[trigger] old(self).in_col(k, j) ==> final(self).nzval@[k] == f_mul(old(self).nzval@[k], r@[j]),
//@loop 1
        invariant
            old(self).colptr_ok(), r@.len() >= old(self).n, self.n == old(self).n, self.m == old(self).m,
            colptr@ == old(self).colptr@, self.rowval@ == old(self).rowval@,
            vals@.len() == old(self).nzval@.len(),
            forall|k: int, j: int| #[trigger] old(self).in_col(k, j) && j < i ==> vals@[k] == f_mul(old(self).nzval@[k], r@[j]),
            forall|k: int| old(self).colptr@[i as int] <= k < vals@.len() ==> #[trigger] vals@[k] == old(self).nzval@[k],
            forall|k: int| 0 <= k < old(self).colptr@[0] ==> #[trigger] vals@[k] == old(self).nzval@[k],
//@end
//@fn file=src/algebra/csc/matrix_math.rs in="MatrixMathMut<T> for CscMatrix<T>" name=lrscale rules=R1,R3,R6,zipidx:1;2=mi,R15:self.nzval
//@contract
    requires old(self).colptr_ok(), r@.len() <= old(self).n,
        forall|k: int| 0 <= k < old(self).rowval@.len() ==> old(self).rowval@[k] < l@.len(),
    ensures final(self).same_pattern(old(self)),
        // C10: A <- diag(l) * A * diag(r), entry for entry (columns beyond r.len() are left alone: zip semantics)
        forall|k: int, j: int| #[trigger] old(self).in_col(k, j) && j < r@.len() ==>
            final(self).nzval@[k] == f_mul(old(self).nzval@[k], f_mul(l@[old(self).rowval@[k] as int], r@[j])),
        forall|k: int, j: int| #[trigger] old(self).in_col(k, j) && j >= r@.len() ==> final(self).nzval@[k] == old(self).nzval@[k],
//@loop 1
        invariant
            col_ctr == r14_i1, r14_n1 == r@.len(), r@.len() <= old(self).n,
            old(self).colptr_ok(), self.same_pattern(old(self)),
            forall|k: int| 0 <= k < old(self).rowval@.len() ==> old(self).rowval@[k] < l@.len(),
            forall|k: int, j: int| #[trigger] old(self).in_col(k, j) && j < r14_i1 ==>
                self.nzval@[k] == f_mul(old(self).nzval@[k], f_mul(l@[old(self).rowval@[k] as int], r@[j])),
            forall|k: int| old(self).colptr@[r14_i1 as int] <= k < self.nzval@.len() ==> #[trigger] self.nzval@[k] == old(self).nzval@[k],
//@body_start 1
            let ghost nz0 = self.nzval@;
            let ghost jc = r14_i1 as int;
            proof {
                assert(old(self).colptr@[jc] <= old(self).colptr@[jc + 1] <= old(self).colptr@[old(self).n as int]);
            }
//@loop 2
                invariant
                    r14_n2 == last - first, vals@.len() == last - first, rows@.len() == last - first,
                    first == old(self).colptr@[jc], last == old(self).colptr@[jc + 1], last <= old(self).rowval@.len(),
                    forall|t: int| 0 <= t < rows@.len() ==> #[trigger] rows@[t] == old(self).rowval@[first + t],
                    forall|k: int| 0 <= k < old(self).rowval@.len() ==> old(self).rowval@[k] < l@.len(),
                    forall|t: int| 0 <= t < r14_i2 ==> #[trigger] vals@[t] == f_mul(nz0[first + t], f_mul(l@[old(self).rowval@[first + t] as int], ri)),
                    forall|t: int| r14_i2 <= t < vals@.len() ==> #[trigger] vals@[t] == nz0[first + t],
//@body_end 1
            proof {
                assert forall|k: int, j: int| #[trigger] old(self).in_col(k, j) && j < r14_i1 + 1 implies
                    self.nzval@[k] == f_mul(old(self).nzval@[k], f_mul(l@[old(self).rowval@[k] as int], r@[j])) by {
                    if j < jc { assert(old(self).colptr@[j + 1] <= old(self).colptr@[jc]); assert(nz0[k] == self.nzval@[k]); }
                    else { assert(self.nzval@[k] == f_mul(nz0[k], f_mul(l@[old(self).rowval@[k] as int], ri))); }
                }
            }
//@end
}

