// ------------------------------------------------------------------ propagation into the KKT matrix and the LDL engine's copy
// the last writer of slot s among the first n (index, value) pairs wins; untouched slots keep their value
pub open spec fn last_writer(index: Seq<usize>, n: int, k: int) -> bool {
    0 <= k < n && forall|k2: int| k < k2 < n ==> index[k2] != index[k]
}
//@fn file=src/solver/core/kktsolvers/direct/quasidef/directldlkktsolver.rs name=_update_values_KKT rules=R1,zipidx:1=ii
//@contract
    requires forall|k: int| 0 <= k < index@.len() ==> index@[k] < old(KKT).nzval@.len(),
    ensures
        final(KKT).same_pattern(old(KKT)),
        // C08 / C11: KKT.nzval[index[k]] = values[k] (zip stops at the shorter of the two), nothing else is written
        ({ let n = if index@.len() < values@.len() { index@.len() as int } else { values@.len() as int };
           &&& forall|k: int| last_writer(index@, n, k) ==> final(KKT).nzval@[#[trigger] index@[k] as int] == values@[k]
           &&& forall|s: int| 0 <= s < old(KKT).nzval@.len() && (forall|k: int| 0 <= k < n ==> index@[k] != s) ==> #[trigger] final(KKT).nzval@[s] == old(KKT).nzval@[s] }),
//@loop 1
        invariant
            KKT.same_pattern(old(KKT)), r14_n1 <= index@.len(), r14_n1 <= values@.len(),
            forall|k: int| 0 <= k < index@.len() ==> index@[k] < KKT.nzval@.len(),
            forall|k: int| last_writer(index@, r14_i1 as int, k) ==> KKT.nzval@[#[trigger] index@[k] as int] == values@[k],
            forall|s: int| 0 <= s < old(KKT).nzval@.len() && (forall|k: int| 0 <= k < r14_i1 ==> index@[k] != s) ==> #[trigger] KKT.nzval@[s] == old(KKT).nzval@[s],
//@end
//@fn file=src/solver/core/kktsolvers/direct/quasidef/directldlkktsolver.rs name=_scale_values_KKT rules=R1,zipidx:*
//@contract
    requires forall|k: int| 0 <= k < index@.len() ==> index@[k] < old(KKT).nzval@.len(),
        // the recorded diagonal / block maps never repeat a slot (a repeated slot would be scaled twice)
        forall|a: int, b: int| 0 <= a < b < index@.len() ==> index@[a] != index@[b],
    ensures
        final(KKT).same_pattern(old(KKT)),
        forall|k: int| 0 <= k < index@.len() ==> final(KKT).nzval@[#[trigger] index@[k] as int] == f_mul(old(KKT).nzval@[index@[k] as int], scale),
        forall|s: int| 0 <= s < old(KKT).nzval@.len() && (forall|k: int| 0 <= k < index@.len() ==> index@[k] != s) ==> #[trigger] final(KKT).nzval@[s] == old(KKT).nzval@[s],
//@loop 1
        invariant
            KKT.same_pattern(old(KKT)), r14_n1 == index@.len(),
            forall|k: int| 0 <= k < index@.len() ==> index@[k] < KKT.nzval@.len(),
            forall|a: int, b: int| 0 <= a < b < index@.len() ==> index@[a] != index@[b],
            forall|k: int| 0 <= k < r14_i1 ==> KKT.nzval@[#[trigger] index@[k] as int] == f_mul(old(KKT).nzval@[index@[k] as int], scale),
            forall|k: int| r14_i1 <= k < index@.len() ==> KKT.nzval@[#[trigger] index@[k] as int] == old(KKT).nzval@[index@[k] as int],
            forall|s: int| 0 <= s < old(KKT).nzval@.len() && (forall|k: int| 0 <= k < index@.len() ==> index@[k] != s) ==> #[trigger] KKT.nzval@[s] == old(KKT).nzval@[s],
//@end

