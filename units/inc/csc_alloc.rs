// shared by csc_core and csc_utils: the two allocating constructors
//@fn file=src/algebra/csc/core.rs in="impl<T> CscMatrix<T>" name=new rules=R1,R6 ret=r
//@contract
    requires rowval@.len() == nzval@.len(), colptr@.len() == n + 1, colptr@[n as int] == rowval@.len(),
    ensures r.m == m, r.n == n, r.colptr@ == colptr@, r.rowval@ == rowval@, r.nzval@ == nzval@,
//@end

//@fn file=src/algebra/csc/core.rs in="impl<T> CscMatrix<T>" name=spalloc rules=R1 ret=r
//@contract
    requires size.1 < usize::MAX,
    ensures
        r.m == size.0, r.n == size.1, r.colptr@.len() == size.1 + 1, r.rowval@.len() == nnz, r.nzval@.len() == nnz,
        r.colptr@[size.1 as int] == nnz, forall|c: int| 0 <= c < size.1 ==> #[trigger] r.colptr@[c] == 0,
        forall|k: int| 0 <= k < nnz ==> #[trigger] r.rowval@[k] == 0, forall|k: int| 0 <= k < nnz ==> #[trigger] r.nzval@[k] == f_zero(),
//@end

//@fn file=src/algebra/csc/core.rs in="impl<T> CscMatrix<T>" name=nnz rules=R1 ret=r
//@contract
    requires self.colptr@.len() == self.n + 1,
    ensures r == self.colptr@[self.n as int],
//@end

//@fn file=src/algebra/csc/core.rs in="ShapedMatrix for CscMatrix<T>" name=nrows rules=R1 ret=r
//@contract
    ensures r == self.m
//@end
