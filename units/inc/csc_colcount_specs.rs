// shared by csc_utils and csc_core: prefix sums of column counts
pub open spec fn sum_upto(s: Seq<usize>, n: int) -> int decreases n { if n <= 0 { 0 } else { sum_upto(s, n - 1) + s[n - 1] } }
pub proof fn lemma_sum_mono(s: Seq<usize>, a: int, b: int)
    requires 0 <= a <= b <= s.len(),
    ensures sum_upto(s, a) <= sum_upto(s, b),
    decreases b - a,
{ if a < b { lemma_sum_mono(s, a, b - 1); } }
