// shared by csc_utils and csc_core (inside `impl CscMatrix<F>`): column counts <-> column pointers
//@fn file=src/algebra/csc/utils.rs in="impl<T> CscMatrix<T>" name=colptr_to_colcount rules=R1
//@contract
    requires old(self).colptr@.len() == old(self).n + 1,
        forall|i: int| 0 <= i < old(self).n ==> old(self).colptr@[i] <= #[trigger] old(self).colptr@[i + 1],
    ensures final(self).colptr@.len() == old(self).colptr@.len(),
        forall|i: int| 0 <= i < old(self).n ==> #[trigger] final(self).colptr@[i] == old(self).colptr@[i + 1] - old(self).colptr@[i],
        final(self).colptr@[old(self).n as int] == 0,
        final(self).rowval@ == old(self).rowval@, final(self).nzval@ == old(self).nzval@, final(self).n == old(self).n, final(self).m == old(self).m,
//@loop 1
        invariant self.n == old(self).n, self.m == old(self).m, self.colptr@.len() == self.n + 1,
            self.rowval@ == old(self).rowval@, self.nzval@ == old(self).nzval@,
            forall|k: int| 0 <= k < old(self).n ==> old(self).colptr@[k] <= #[trigger] old(self).colptr@[k + 1],
            forall|k: int| 0 <= k < i ==> #[trigger] self.colptr@[k] == old(self).colptr@[k + 1] - old(self).colptr@[k],
            forall|k: int| i <= k <= self.n ==> #[trigger] self.colptr@[k] == old(self).colptr@[k],
//@end

//@fn file=src/algebra/csc/utils.rs in="impl<T> CscMatrix<T>" name=colcount_to_colptr rules=R1,zipidx:1=m
//@contract
    requires sum_upto(old(self).colptr@, old(self).colptr@.len() as int) <= usize::MAX,
    ensures
        final(self).m == old(self).m, final(self).n == old(self).n,
        // colptr[c] becomes the number of entries in the columns before c (exclusive prefix sum of the counts)
        final(self).colptr@.len() == old(self).colptr@.len(),
        forall|c: int| 0 <= c < old(self).colptr@.len() ==> #[trigger] final(self).colptr@[c] == sum_upto(old(self).colptr@, c),
        final(self).rowval@ == old(self).rowval@, final(self).nzval@ == old(self).nzval@,
//@loop 1
        invariant
            r14_n1 == self.colptr@.len(), self.colptr@.len() == old(self).colptr@.len(),
            self.rowval@ == old(self).rowval@, self.nzval@ == old(self).nzval@,
            sum_upto(old(self).colptr@, old(self).colptr@.len() as int) <= usize::MAX,
            currentptr == sum_upto(old(self).colptr@, r14_i1 as int),
            forall|c: int| 0 <= c < r14_i1 ==> #[trigger] self.colptr@[c] == sum_upto(old(self).colptr@, c),
            forall|c: int| r14_i1 <= c < self.colptr@.len() ==> #[trigger] self.colptr@[c] == old(self).colptr@[c],
//@body_start 1
            proof { lemma_sum_mono(old(self).colptr@, r14_i1 as int + 1, old(self).colptr@.len() as int); }
//@end
