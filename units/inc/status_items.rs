// ---------------------------------------------------------------- extracted data types
// opaque stand-in for crate::io::PrintTarget (stdout / file / stream / buffer / sink); its ghost view is the
// iteration column of the progress table written to it so far (C20)
#[verifier::external_body]
pub struct PrintTarget { _p: u8 }
pub uninterp spec fn pt_view(p: PrintTarget) -> Seq<u32>;
//@enum file=src/solver/core/solver.rs name=SolverStatus derive="PartialEq, Eq, Clone, Copy, Structural"
//@struct file=src/solver/implementations/default/info.rs name=DefaultInfo rules=R2,R1f keep=mu,sigma,step_length,iterations,cost_primal,cost_dual,res_primal,res_dual,res_primal_inf,res_dual_inf,gap_abs,gap_rel,ktratio,prev_cost_primal,prev_cost_dual,prev_res_primal,prev_res_dual,prev_gap_abs,prev_gap_rel,solve_time,status,stream
//@struct file=src/solver/implementations/default/residuals.rs name=DefaultResiduals rules=R2 keep=dot_qx,dot_bz,dot_sz,dot_xPx
//@struct file=src/solver/implementations/default/settings.rs name=DefaultSettings rules=R1f

// ---------------------------------------------------------------- specification (from the property statements)
// C01: "relative primal residual and relative dual residual below tol_feas, duality gap below
//       tol_gap_abs or tol_gap_rel"
pub open spec fn solved_test(i: DefaultInfo<F>, tol_gap_abs: F, tol_gap_rel: F, tol_feas: F) -> bool {
    &&& (f_lt(i.gap_abs, tol_gap_abs) || f_lt(i.gap_rel, tol_gap_rel))
    &&& f_lt(i.res_primal, tol_feas)
    &&& f_lt(i.res_dual, tol_feas)
}
// C02: "b'z < 0 and A'z vanishes to the documented relative tolerance"
pub open spec fn pinf_test(i: DefaultInfo<F>, r: DefaultResiduals<F>, tol_abs: F, tol_rel: F) -> bool {
    &&& f_lt(r.dot_bz, f_neg(tol_abs))
    &&& f_lt(i.res_primal_inf, f_mul(f_neg(tol_rel), r.dot_bz))
}
// C02: "q'x < 0 with Px and Ax+s vanishing to tolerance"
pub open spec fn dinf_test(i: DefaultInfo<F>, r: DefaultResiduals<F>, tol_abs: F, tol_rel: F) -> bool {
    &&& f_lt(r.dot_qx, f_neg(tol_abs))
    &&& f_lt(i.res_dual_inf, f_mul(f_neg(tol_rel), r.dot_qx))
}
// the kappa/tau guards of the documented test
pub open spec fn kt_small(i: DefaultInfo<F>) -> bool { f_le(i.ktratio, f_one()) }
pub open spec fn kt_large(i: DefaultInfo<F>, tol_kt: F) -> bool {
    f_lt(f_mul(f_recip(tol_kt), f_lit(1000.0)), i.ktratio)
}
// nothing but the status field differs
pub open spec fn same_figures(a: DefaultInfo<F>, b: DefaultInfo<F>) -> bool {
    a == (DefaultInfo::<F> { status: a.status, ..b })
}
pub open spec fn is_almost(s: SolverStatus) -> bool {
    s == SolverStatus::AlmostSolved || s == SolverStatus::AlmostPrimalInfeasible || s == SolverStatus::AlmostDualInfeasible
}
pub open spec fn is_infeasible_spec(s: SolverStatus) -> bool {
    s == SolverStatus::PrimalInfeasible || s == SolverStatus::DualInfeasible
    || s == SolverStatus::AlmostPrimalInfeasible || s == SolverStatus::AlmostDualInfeasible
}
pub open spec fn is_errored_spec(s: SolverStatus) -> bool {
    s == SolverStatus::NumericalError || s == SolverStatus::InsufficientProgress
}
pub open spec fn is_limit_or_error(s: SolverStatus) -> bool {
    is_errored_spec(s) || s == SolverStatus::MaxIterations || s == SolverStatus::MaxTime
}
// rule R1f: the two f64 fields (solve_time, time_limit) are modelled by F as well; their comparison is f_lt

impl SolverStatus {
//@fn file=src/solver/core/solver.rs in="impl SolverStatus" name=is_infeasible ret=r
//@contract
    ensures r == is_infeasible_spec(*self)
//@end
//@fn file=src/solver/core/solver.rs in="impl SolverStatus" name=is_errored ret=r
//@contract
    ensures r == is_errored_spec(*self)
//@end
}

impl DefaultInfo<F> {
//@fn file=src/solver/implementations/default/info.rs in="impl<T> DefaultInfo<T>" name=is_solved rules=R1 ret=r
//@contract
    ensures r == solved_test(*self, tol_gap_abs, tol_gap_rel, tol_feas)
//@end
//@fn file=src/solver/implementations/default/info.rs in="impl<T> DefaultInfo<T>" name=is_primal_infeasible rules=R1 ret=r
//@contract
    ensures r == pinf_test(*self, *residuals, tol_infeas_abs, tol_infeas_rel)
//@end
//@fn file=src/solver/implementations/default/info.rs in="impl<T> DefaultInfo<T>" name=is_dual_infeasible rules=R1 ret=r
//@contract
    ensures r == dinf_test(*self, *residuals, tol_infeas_abs, tol_infeas_rel)
//@end

//@fn file=src/solver/implementations/default/info.rs in="impl<T> DefaultInfo<T>" name=check_convergence rules=R1
//@contract
    requires solved_status != pinf_status, solved_status != dinf_status, pinf_status != dinf_status,
    ensures
        same_figures(*final(self), *old(self)),
        // the status changes only to one of the three candidate statuses
        final(self).status == old(self).status || final(self).status == solved_status
            || final(self).status == pinf_status || final(self).status == dinf_status,
        // ... and only when the corresponding documented test holds
        final(self).status == solved_status && old(self).status != solved_status ==>
            kt_small(*old(self)) && solved_test(*old(self), tol_gap_abs, tol_gap_rel, tol_feas),
        final(self).status == pinf_status && old(self).status != pinf_status ==>
            kt_large(*old(self), tol_ktratio) && pinf_test(*old(self), *residuals, tol_infeas_abs, tol_infeas_rel),
        final(self).status == dinf_status && old(self).status != dinf_status ==>
            kt_large(*old(self), tol_ktratio) && dinf_test(*old(self), *residuals, tol_infeas_abs, tol_infeas_rel),
        // completeness: a point that passes the optimality test is recognised
        kt_small(*old(self)) && solved_test(*old(self), tol_gap_abs, tol_gap_rel, tol_feas)
            ==> final(self).status == solved_status,
//@end

//@fn file=src/solver/implementations/default/info.rs in="impl<T> DefaultInfo<T>" name=check_convergence_full rules=R1
//@contract
    ensures
        same_figures(*final(self), *old(self)),
        final(self).status == old(self).status || final(self).status == SolverStatus::Solved
            || final(self).status == SolverStatus::PrimalInfeasible || final(self).status == SolverStatus::DualInfeasible,
        final(self).status == SolverStatus::Solved && old(self).status != SolverStatus::Solved ==>
            kt_small(*old(self)) && solved_test(*old(self), settings.tol_gap_abs, settings.tol_gap_rel, settings.tol_feas),
        final(self).status == SolverStatus::PrimalInfeasible && old(self).status != SolverStatus::PrimalInfeasible ==>
            kt_large(*old(self), settings.tol_ktratio) && pinf_test(*old(self), *residuals, settings.tol_infeas_abs, settings.tol_infeas_rel),
        final(self).status == SolverStatus::DualInfeasible && old(self).status != SolverStatus::DualInfeasible ==>
            kt_large(*old(self), settings.tol_ktratio) && dinf_test(*old(self), *residuals, settings.tol_infeas_abs, settings.tol_infeas_rel),
        kt_small(*old(self)) && solved_test(*old(self), settings.tol_gap_abs, settings.tol_gap_rel, settings.tol_feas)
            ==> final(self).status == SolverStatus::Solved,
//@end

//@fn file=src/solver/implementations/default/info.rs in="impl<T> DefaultInfo<T>" name=check_convergence_almost rules=R1
//@contract
    ensures
        same_figures(*final(self), *old(self)),
        final(self).status == old(self).status || is_almost(final(self).status),
        final(self).status == SolverStatus::AlmostSolved && old(self).status != SolverStatus::AlmostSolved ==>
            kt_small(*old(self)) && solved_test(*old(self), settings.reduced_tol_gap_abs, settings.reduced_tol_gap_rel, settings.reduced_tol_feas),
        final(self).status == SolverStatus::AlmostPrimalInfeasible && old(self).status != SolverStatus::AlmostPrimalInfeasible ==>
            kt_large(*old(self), settings.reduced_tol_ktratio) && pinf_test(*old(self), *residuals, settings.reduced_tol_infeas_abs, settings.reduced_tol_infeas_rel),
        final(self).status == SolverStatus::AlmostDualInfeasible && old(self).status != SolverStatus::AlmostDualInfeasible ==>
            kt_large(*old(self), settings.reduced_tol_ktratio) && dinf_test(*old(self), *residuals, settings.reduced_tol_infeas_abs, settings.reduced_tol_infeas_rel),
//@end
}
