// ===== units/inc/chordal_sets.rs (hand written; shared by the units chordal_merge and chordal_snode) =====
// ---- stand-in for indexmap::IndexSet<usize> (ASSUMED; the first six contracts are those of unit chordal_tree) ----
// ghost view `Seq<usize>` = the members in insertion order.  Contracts as documented by indexmap: `insert` appends iff absent and returns
// "was absent"; `shift_remove` removes the member if present, keeps the order of the others and returns "was present"; `sort` sorts the
// members ascending (same members); `iter` yields the members in insertion order (the stand-in hands them out as a slice; rule `setiter`
// writes `for x in &set` as `for x in set.iter()`); `new` / `with_capacity` give an empty set.
// NOT part of the assumed contracts: that the view has no duplicates.  Where that is needed it is a stated precondition, and it is
// PROVED to be preserved from the contracts below (insert appends only if absent).
pub struct VertexSet { pub _p: Vec<usize>, pub elems: Ghost<Seq<usize>> }
impl View for VertexSet { type V = Seq<usize>; open spec fn view(&self) -> Seq<usize> { self.elems@ } }
pub open spec fn ascending(s: Seq<usize>) -> bool { forall|i: int, j: int| 0 <= i < j < s.len() ==> s[i] < s[j] }
pub open spec fn same_members(a: Seq<usize>, b: Seq<usize>) -> bool { a.len() == b.len() && forall|x: usize| a.contains(x) <==> b.contains(x) }
impl VertexSet {
    #[verifier::external_body] pub fn new() -> (r: Self) ensures r@ == Seq::<usize>::empty() { unimplemented!() }
    #[verifier::external_body] pub fn with_capacity(n: usize) -> (r: Self) ensures r@ == Seq::<usize>::empty() { unimplemented!() }
    #[verifier::external_body] pub fn insert(&mut self, v: usize) -> (r: bool)
        ensures r == !old(self)@.contains(v),
            final(self)@ == (if old(self)@.contains(v) { old(self)@ } else { old(self)@.push(v) }),
    { unimplemented!() }
    #[verifier::external_body] pub fn contains(&self, v: &usize) -> (r: bool) ensures r == self@.contains(*v) { unimplemented!() }
    #[verifier::external_body] pub fn len(&self) -> (r: usize) ensures r == self@.len() { unimplemented!() }
    #[verifier::external_body] pub fn is_empty(&self) -> (r: bool) ensures r == (self@.len() == 0) { unimplemented!() }
    #[verifier::external_body] pub fn clear(&mut self) ensures final(self)@ == Seq::<usize>::empty() { unimplemented!() }
    #[verifier::external_body] pub fn iter(&self) -> (r: &[usize]) ensures r@ == self@ { unimplemented!() }
    #[verifier::external_body] pub fn shift_remove(&mut self, v: &usize) -> (r: bool)
        ensures r == old(self)@.contains(*v), final(self)@ == rm(old(self)@, *v),
    { unimplemented!() }
    // a set has no repeated members: for a duplicate-free view "sorted" is strictly ascending
    #[verifier::external_body] pub fn sort(&mut self)
        ensures same_members(final(self)@, old(self)@), old(self)@.no_duplicates() ==> final(self)@.no_duplicates() && ascending(final(self)@),
    { unimplemented!() }
}
// `(0..n).map(|_| VertexSet::new()).collect()` (map + collect are outside Verus): n empty sets
#[verifier::external_body]
fn new_vertex_sets(n: usize) -> (r: Vec<VertexSet>)
    ensures r@.len() == n, forall|i: int| 0 <= i < n ==> (#[trigger] r@[i])@ == Seq::<usize>::empty(),
{ unimplemented!() }

// ---- sequences read as sets (the members of an IndexSet in insertion order) ----
pub open spec fn disjoint(a: Seq<usize>, b: Seq<usize>) -> bool { forall|x: usize| !(a.contains(x) && b.contains(x)) }
// insert the first k members of b into a, one after the other (IndexSet::insert appends iff absent)
pub open spec fn ins_all(a: Seq<usize>, b: Seq<usize>, k: int) -> Seq<usize> decreases k {
    if k <= 0 { a } else { let r = ins_all(a, b, k - 1); if r.contains(b[k - 1]) { r } else { r.push(b[k - 1]) } }
}
pub proof fn lemma_ins_all(a: Seq<usize>, b: Seq<usize>, k: int)
    requires 0 <= k <= b.len(),
    ensures
        forall|x: usize| #[trigger] ins_all(a, b, k).contains(x) <==> a.contains(x) || b.take(k).contains(x),
        a.no_duplicates() ==> ins_all(a, b, k).no_duplicates(),
        b.no_duplicates() && disjoint(a, b) ==> ins_all(a, b, k) == a + b.take(k),
    decreases k,
{
    if k > 0 {
        lemma_ins_all(a, b, k - 1);
        let r = ins_all(a, b, k - 1);
        let cur = ins_all(a, b, k);
        let y = b[k - 1];
        let bk = b.take(k);
        let bk1 = b.take(k - 1);
        assert(bk == bk1.push(y));
        assert forall|x: usize| #[trigger] cur.contains(x) <==> a.contains(x) || bk.contains(x) by {
            if cur.contains(x) {
                if r.contains(x) {
                    if bk1.contains(x) {
                        let j = choose|j: int| 0 <= j < bk1.len() && bk1[j] == x;
                        assert(bk[j] == x);
                    }
                } else {
                    let j = choose|j: int| 0 <= j < cur.len() && cur[j] == x;
                    if j < r.len() { assert(r[j] == x); assert(false); }
                    assert(x == y);
                    assert(bk[k - 1] == y);
                }
            }
            if a.contains(x) { assert(r.contains(x)); let j = choose|j: int| 0 <= j < r.len() && r[j] == x; assert(cur[j] == x); }
            if bk.contains(x) {
                let j = choose|j: int| 0 <= j < bk.len() && bk[j] == x;
                if j < k - 1 {
                    assert(bk1[j] == x);
                    assert(r.contains(x)); let i = choose|i: int| 0 <= i < r.len() && r[i] == x; assert(cur[i] == x);
                } else {
                    assert(x == y);
                    if r.contains(y) { } else { assert(cur[r.len() as int] == y); }
                }
            }
        }
        if a.no_duplicates() {
            if !r.contains(y) {
                assert forall|i: int, j: int| 0 <= i < cur.len() && 0 <= j < cur.len() && i != j implies cur[i] != cur[j] by {
                    if i < r.len() && j < r.len() { assert(r[i] != r[j]); }
                    else if i < r.len() { assert(r.contains(r[i])); }
                    else { assert(r.contains(r[j])); }
                }
            }
        }
        if b.no_duplicates() && disjoint(a, b) {
            assert(r == a + bk1);
            if r.contains(y) {
                assert(b.contains(y));
                if a.contains(y) { assert(false); }
                assert(bk1.contains(y));
                let j = choose|j: int| 0 <= j < bk1.len() && bk1[j] == y;
                assert(b[j] == b[k - 1]);
                assert(false);
            }
            assert(cur =~= a + bk);
        }
    }
}
pub proof fn lemma_ins_all_full(a: Seq<usize>, b: Seq<usize>)
    ensures
        forall|x: usize| #[trigger] ins_all(a, b, b.len() as int).contains(x) <==> a.contains(x) || b.contains(x),
        a.no_duplicates() ==> ins_all(a, b, b.len() as int).no_duplicates(),
        b.no_duplicates() && disjoint(a, b) ==> ins_all(a, b, b.len() as int) == a + b,
{
    lemma_ins_all(a, b, b.len() as int);
    assert(b.take(b.len() as int) == b);
}
pub proof fn lemma_concat_contains(a: Seq<usize>, b: Seq<usize>)
    ensures forall|x: usize| #[trigger] (a + b).contains(x) <==> a.contains(x) || b.contains(x),
{
    assert forall|x: usize| #[trigger] (a + b).contains(x) <==> a.contains(x) || b.contains(x) by {
        if (a + b).contains(x) {
            let j = choose|j: int| 0 <= j < (a + b).len() && (a + b)[j] == x;
            if j < a.len() { assert(a[j] == x); } else { assert(b[j - a.len()] == x); }
        }
        if a.contains(x) { let j = choose|j: int| 0 <= j < a.len() && a[j] == x; assert((a + b)[j] == x); }
        if b.contains(x) { let j = choose|j: int| 0 <= j < b.len() && b[j] == x; assert((a + b)[a.len() + j] == x); }
    }
}
pub proof fn lemma_concat_nodup(a: Seq<usize>, b: Seq<usize>)
    requires a.no_duplicates(), b.no_duplicates(), disjoint(a, b),
    ensures (a + b).no_duplicates(),
{
    assert forall|i: int, j: int| 0 <= i < (a + b).len() && 0 <= j < (a + b).len() && i != j implies (a + b)[i] != (a + b)[j] by {
        if i < a.len() && j < a.len() { }
        else if i >= a.len() && j >= a.len() { assert(b[i - a.len()] != b[j - a.len()]); }
        else if i < a.len() { assert(a.contains(a[i])); assert(b.contains(b[j - a.len()])); }
        else { assert(a.contains(a[j])); assert(b.contains(b[i - a.len()])); }
    }
}
// s without (the first occurrence of) v: IndexSet::shift_remove keeps the order of the other members
pub open spec fn rm(s: Seq<usize>, v: usize) -> Seq<usize> { if s.contains(v) { s.remove(s.index_of(v)) } else { s } }
pub proof fn lemma_rm(s: Seq<usize>, v: usize)
    requires s.no_duplicates(),
    ensures
        rm(s, v).no_duplicates(), !rm(s, v).contains(v),
        forall|x: usize| #[trigger] rm(s, v).contains(x) <==> s.contains(x) && x != v,
        rm(s, v).len() == s.len() - (if s.contains(v) { 1int } else { 0int }),
{
    if s.contains(v) {
        let i = s.index_of(v);
        let r = s.remove(i);
        assert(0 <= i < s.len() && s[i] == v);
        assert forall|a: int, b: int| 0 <= a < r.len() && 0 <= b < r.len() && a != b implies r[a] != r[b] by {
            let a2 = if a < i { a } else { a + 1 };
            let b2 = if b < i { b } else { b + 1 };
            assert(r[a] == s[a2] && r[b] == s[b2]);
        }
        assert forall|x: usize| #[trigger] r.contains(x) <==> s.contains(x) && x != v by {
            if r.contains(x) {
                let a = choose|a: int| 0 <= a < r.len() && r[a] == x;
                let a2 = if a < i { a } else { a + 1 };
                assert(s[a2] == x);
                assert(a2 != i);
            }
            if s.contains(x) && x != v {
                let a = choose|a: int| 0 <= a < s.len() && s[a] == x;
                let a2 = if a < i { a } else { a - 1 };
                assert(r[a2] == x);
            }
        }
    }
}
// a set of distinct members, all of them members of b, has at most |b| members (injection)
pub proof fn lemma_nodup_sub_len(a: Seq<usize>, b: Seq<usize>)
    requires a.no_duplicates(), forall|i: int| 0 <= i < a.len() ==> b.contains(#[trigger] a[i]),
    ensures a.len() <= b.len(),
    decreases b.len(),
{
    if b.len() == 0 {
        if a.len() > 0 { assert(b.contains(a[0])); }
    } else {
        let last = b.last();
        let b2 = b.drop_last();
        lemma_rm(a, last);
        let a2 = rm(a, last);
        assert forall|i: int| 0 <= i < a2.len() implies b2.contains(#[trigger] a2[i]) by {
            assert(a2.contains(a2[i]));
            assert(a.contains(a2[i]) && a2[i] != last);
            let k = choose|k: int| 0 <= k < a.len() && a[k] == a2[i];
            assert(b.contains(a[k]));
            let j = choose|j: int| 0 <= j < b.len() && b[j] == a2[i];
            assert(j < b.len() - 1);
            assert(b2[j] == a2[i]);
        }
        lemma_nodup_sub_len(a2, b2);
    }
}
// distinct members below n: at most n of them (pigeonhole)
pub proof fn lemma_nodup_bounded(a: Seq<usize>, n: int)
    requires a.no_duplicates(), 0 <= n <= usize::MAX, forall|i: int| 0 <= i < a.len() ==> #[trigger] a[i] < n,
    ensures a.len() <= n,
{
    let b = Seq::new(n as nat, |i: int| i as usize);
    assert forall|i: int| 0 <= i < a.len() implies b.contains(#[trigger] a[i]) by { assert(b[a[i] as int] == a[i]); }
    lemma_nodup_sub_len(a, b);
}
// ===== end units/inc/chordal_sets.rs =====
