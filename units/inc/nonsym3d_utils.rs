// ---- units/inc/nonsym3d_utils.rs : included once per 3-dimensional nonsymmetric cone type (inside `impl <Cone><F> { .. }`)
// the blanket implementation `impl<T, C: Nonsymmetric3DCone<T>> Nonsymmetric3DConeUtils<T> for C` (nonsymmetric_common.rs), real text, at C = ExponentialCone<T>
//@fn file=src/solver/core/cones/nonsymmetric_common.rs in="Nonsymmetric3DConeUtils<T> for C" name=use_dual_scaling rules=R1,R2
//@contract
    ensures final(self).H_dual == old(self).H_dual, final(self).grad == old(self).grad, final(self).z == old(self).z, final(self).params_eq(*old(self)),
        dual_scaled(final(self).Hs.data@, old(self).H_dual.data@, mu),
//@end
//@fn file=src/solver/core/cones/nonsymmetric_common.rs in="Nonsymmetric3DConeUtils<T> for C" name=use_primal_dual_scaling rules=R1,R2,tupidx
//@contract
    requires s@.len() == 3, z@.len() == 3, old(self).primal_pre(s@),
    ensures final(self).H_dual == old(self).H_dual, final(self).grad == old(self).grad, final(self).z == old(self).z, final(self).params_eq(*old(self)),
        pd_scaled(final(self).Hs.data@, old(self).H_dual.data@, old(self).grad@, old(self).gradient_primal_spec(s@), s@, z@),
//@pre
        let ghost h = self.H_dual.data@;
        let ghost g = self.grad@;
        let ghost ztS = self.gradient_primal_spec(s@);
        proof { lemma_sym3_table(); lemma_sym3_upper(); }
//@after "let mut_g"
        // the view of `a[..]` is `a@.subrange(0, len)`
        proof { assert(st@.subrange(0, 3) =~= st@); assert(zt@.subrange(0, 3) =~= zt@); }
//@loop 1
            invariant s@.len() == 3, z@.len() == 3, zt@ == ztS, st@ == g,
                forall|k: int| 0 <= k < i ==> #[trigger] deltas@[k] == f_add(s@[k], f_mul(mu, g[k])),
                forall|k: int| 0 <= k < i ==> #[trigger] deltaz@[k] == f_add(z@[k], f_mul(mu, ztS[k])),
//@after "let dot_deltasz"
        proof { assert(deltas@ =~= pd_shift(s@, mu, g)); assert(deltaz@ =~= pd_shift(z@, mu, ztS));
                assert(deltas@.subrange(0, 3) =~= deltas@); assert(deltaz@.subrange(0, 3) =~= deltaz@); }
//@loop 2
                invariant st@ == g,
                    forall|k: int| 0 <= k < i ==> #[trigger] tmp@[k] == pd_tmp(h, g, ztS, mut_g, k),
                    forall|k: int| i <= k < 3 ==> #[trigger] tmp@[k] == m3_rowdot(h, k, ztS),
//@loop 3
                invariant st@ == g, three == lit3(), forall|k: int| 0 <= k < 3 ==> #[trigger] tmp@[k] == pd_tmp(h, g, ztS, mut_g, k),
                    forall|a: int, b: int| 0 <= a <= b < 3 ==> #[trigger] m3(Hs.data@, a, b) ==
                        (if upper_done(i as int, i as int, a, b) { pd_work(h, g, ztS, mut_g, de2, a, b) } else { m3(h, a, b) }),
//@loop 4
                    invariant st@ == g, i < 3, three == lit3(), forall|k: int| 0 <= k < 3 ==> #[trigger] tmp@[k] == pd_tmp(h, g, ztS, mut_g, k),
                        forall|a: int, b: int| 0 <= a <= b < 3 ==> #[trigger] m3(Hs.data@, a, b) ==
                            (if upper_done(i as int, j as int, a, b) { pd_work(h, g, ztS, mut_g, de2, a, b) } else { m3(h, a, b) }),
//@body_start 4
                    proof { lemma_sym3_upper(); }
                    let ghost d_prev = Hs.data@;
//@body_end 4
                    proof {
                        assert(Hs.data@[sym3_idx(i as int, j as int)] == pd_work(h, g, ztS, mut_g, de2, i as int, j as int));
                        assert forall|a: int, b: int| 0 <= a <= b < 3 && !(a == i && b == j) implies #[trigger] m3(Hs.data@, a, b) == m3(d_prev, a, b) by {
                            assert(sym3_idx(a, b) != sym3_idx(i as int, j as int));
                        }
                    }
//@after "let t = mu * Hs.norm_fro();"
            proof { assert(t == pd_t(h, g, ztS, mu, mut_g, de2)); }
//@before "axis_z.normalize();"
            proof { assert(axis_z@ =~= cross3(z@, ztS)); }
//@after "axis_z.normalize();"
            let ghost ax = axis_z@;
            let ghost dsS = deltas@;
//@after_loop 5
            proof {
                assert(mu == pd_mu(s@, z@));
                assert(mut_g == f_div(vm_dot(g, ztS), lit3()));
                assert(de1 == pd_de1(mu, mut_g));
                assert(de2 == pd_de2(h, ztS, mut_g));
                assert(ax =~= normalize_spec(cross3(z@, ztS)));
                assert(dsS =~= pd_shift(s@, mu, g));
                assert(dot_deltasz == vm_dot(pd_shift(s@, mu, g), pd_shift(z@, mu, ztS)));
                assert(pd_cond(de1, de2, dot_sz, dot_deltasz));
                assert(forall|a: int, b: int| 0 <= a <= b < 3 ==> #[trigger] m3(Hs.data@, a, b) == pd_entry(s@, dsS, ax, dot_sz, dot_deltasz, t, a, b));
            }
//@loop 5
                invariant s@.len() == 3, axis_z@ == ax, deltas@ == dsS,
                    forall|a: int, b: int| 0 <= a <= b < 3 ==> #[trigger] m3(Hs.data@, a, b) ==
                        (if upper_done(i as int, i as int, a, b) { pd_entry(s@, dsS, ax, dot_sz, dot_deltasz, t, a, b) } else { pd_work(h, g, ztS, mut_g, de2, a, b) }),
//@body_start 6
                    proof { lemma_sym3_upper(); }
                    let ghost d_prev = Hs.data@;
//@body_end 6
                    proof {
                        assert(Hs.data@[sym3_idx(i as int, j as int)] == pd_entry(s@, dsS, ax, dot_sz, dot_deltasz, t, i as int, j as int));
                        assert forall|a: int, b: int| 0 <= a <= b < 3 && !(a == i && b == j) implies #[trigger] m3(Hs.data@, a, b) == m3(d_prev, a, b) by {
                            assert(sym3_idx(a, b) != sym3_idx(i as int, j as int));
                        }
                    }
//@loop 6
                    invariant s@.len() == 3, axis_z@ == ax, deltas@ == dsS, i < 3,
                        forall|a: int, b: int| 0 <= a <= b < 3 ==> #[trigger] m3(Hs.data@, a, b) ==
                            (if upper_done(i as int, j as int, a, b) { pd_entry(s@, dsS, ax, dot_sz, dot_deltasz, t, a, b) } else { pd_work(h, g, ztS, mut_g, de2, a, b) }),
//@end
//@fn file=src/solver/core/cones/nonsymmetric_common.rs in="Nonsymmetric3DConeUtils<T> for C" name=update_Hs rules=R1,R2
//@contract
    requires s@.len() == 3, z@.len() == 3, scaling_strategy != ScalingStrategy::Dual ==> old(self).primal_pre(s@),
    ensures final(self).H_dual == old(self).H_dual, final(self).grad == old(self).grad, final(self).z == old(self).z, final(self).params_eq(*old(self)),
        // "Dual scaling: Hs = mu*H" with the mu handed in; any other strategy: the primal-dual update (with its own fallback)
        scaling_strategy == ScalingStrategy::Dual ==> dual_scaled(final(self).Hs.data@, old(self).H_dual.data@, mu),
        scaling_strategy != ScalingStrategy::Dual ==>
            pd_scaled(final(self).Hs.data@, old(self).H_dual.data@, old(self).grad@, old(self).gradient_primal_spec(s@), s@, z@),
//@end
