// unit `vecmath_more` : the kernels of algebra/vecmath.rs that unit `vecmath` does not cover, the bounds-checked symmetric
// product and two wrappers of algebra/csc/matrix_math.rs, and two queries of algebra/csc/core.rs.
// float model: F-opaque for the vector kernels (contracts in the float symbols: which operations are applied to which
// elements in which order; reductions DEFINED as the left folds the code performs, as in unit `vecmath`); F-real for
// `_csc_symv_safe` / `quad_form` (the dense meaning of the CSC arrays, same contracts as unit `csc_math`) and for the
// corollary of `clip` (lemma_clip_bounds).
//
// PROVED from the real bodies (extracted, never retyped):
//   impl VectorMath<T> for [T] : clip, sqrt, normalize, select, dot_shifted, dist, norm_one, norm_one_scaled, norm_inf_diff
//     (as methods of the local extension trait `VectorMathMore: VectorMath`; prelude/vecmath_contract.rs is not modified);
//     `select` = zip.filter.map.collect through the new definitional rule R35 (filter + map + collect -> push loop);
//   impl ScalarMath for T : clip (callee of the vector clip);
//   _csc_symv_safe (y <- a*sym(A)*x + b*y: contract identical to `_csc_symv_unsafe` of unit `csc_math`);
//   MatrixMath::quad_form (wrapper), SymMatrixVectorMultiply::symv is in unit `csc_math`;
//   CscMatrix::is_equal_sparsity (true <=> same m, n, colptr, rowval), ShapedMatrix::{shape, size} for CscMatrix.
// ASSUMED:
//   * prelude/vecmath_assumed.rs (scalarop, scale, norm: proved in unit `vecmath`), prelude/std_assumed.rs (vec_eq = element-wise
//     equality of Vec<usize>, rule R16), prelude/float_real_axioms.rs (F-real parts only);
//   * `_csc_quad_form` with the contract PROVED in unit `csc_math` (declared external_body here; spec fns qf_* copied verbatim);
// DROPPED: nothing of the listed functions.  Spec functions sv_*, qf_*, rows_below, lemma_sv_step are copies of those in unit `csc_math`.
use vstd::prelude::*;
verus! {
//@include prelude/float_opaque.rs
//@include prelude/float_real_axioms.rs
//@include prelude/vecmath_assumed.rs
//@include prelude/std_assumed.rs
pub open spec fn range_from(sq: Seq<usize>, lo: int) -> bool { forall|k: int| 0 <= k < sq.len() ==> #[trigger] sq[k] == lo + k }

// ------------------------------------------------------------------ scalar clip (scalarmath.rs), callee of the vector clip
// the two comparisons in the order the code makes them (a NaN argument compares false twice and passes through)
pub open spec fn clip_spec(x: F, lo: F, hi: F) -> F { if f_lt(x, lo) { lo } else if f_lt(hi, x) { hi } else { x } }
pub trait ScalarMath { fn clip(&self, min_thresh: Self, max_thresh: Self) -> Self where Self: Sized; }
impl ScalarMath for F {
//@fn file=src/algebra/scalarmath.rs in="ScalarMath for T" name=clip rules=tparam:Self>F ret=r
//@contract
    ensures r == clip_spec(*self, min_thresh, max_thresh),
//@end
}
// F-real: with lo <= hi the clipped value lies in [lo, hi], and it is the argument whenever that already does
pub proof fn lemma_clip_bounds(x: F, lo: F, hi: F)
    requires lo.v() <= hi.v(),
    ensures lo.v() <= clip_spec(x, lo, hi).v() <= hi.v(), lo.v() <= x.v() <= hi.v() ==> clip_spec(x, lo, hi) == x,
{ broadcast use real_arith; }

// ------------------------------------------------------------------ reductions, defined as the left folds the code performs
pub open spec fn fold_dot_shifted(z: Seq<F>, s: Seq<F>, dz: Seq<F>, ds: Seq<F>, a: F, k: int) -> F decreases k {
    if k <= 0 { f_zero() } else {
        f_add(fold_dot_shifted(z, s, dz, ds, a, k - 1),
              f_mul(f_add(s[k - 1], f_mul(a, ds[k - 1])), f_add(z[k - 1], f_mul(a, dz[k - 1]))))
    }
}
pub open spec fn fold_dist2(a: Seq<F>, b: Seq<F>, k: int) -> F decreases k {
    if k <= 0 { f_zero() } else { f_add(fold_dist2(a, b, k - 1), f_powi(f_sub(a[k - 1], b[k - 1]), 2)) } }
pub open spec fn fold_abs(a: Seq<F>, k: int) -> F decreases k { if k <= 0 { f_zero() } else { f_add(fold_abs(a, k - 1), f_abs(a[k - 1])) } }
pub open spec fn fold_abs2(a: Seq<F>, b: Seq<F>, k: int) -> F decreases k {
    if k <= 0 { f_zero() } else { f_add(fold_abs2(a, b, k - 1), f_abs(f_mul(a[k - 1], b[k - 1]))) } }
pub open spec fn fold_maxdiff(a: Seq<F>, b: Seq<F>, k: int) -> F decreases k {
    if k <= 0 { f_zero() } else { f_max(fold_maxdiff(a, b, k - 1), f_abs(f_sub(a[k - 1], b[k - 1]))) } }
// the elements of a[0..k) whose flag is set, in order
pub open spec fn sel(a: Seq<F>, idx: Seq<bool>, k: int) -> Seq<F> decreases k {
    if k <= 0 { Seq::<F>::empty() } else if idx[k - 1] { sel(a, idx, k - 1).push(a[k - 1]) } else { sel(a, idx, k - 1) } }
// normalize: nothing happens when the norm compares equal to zero, otherwise every entry is multiplied by recip(norm)
pub open spec fn normalized(x1: Seq<F>, x0: Seq<F>, r: F) -> bool {
    let nrm = vm_norm(x0);
    if f_eq(nrm, f_zero()) { r == f_zero() && x1 == x0 }
    else { r == nrm && x1.len() == x0.len() && forall|i: int| 0 <= i < x0.len() ==> #[trigger] x1[i] == f_mul(x0[i], f_recip(nrm)) }
}

pub trait VectorMathMore: VectorMath {
    fn clip(&mut self, min_thresh: F, max_thresh: F) -> (r: &mut Self)
        ensures r.vw().len() == old(self).vw().len(),
            forall|i: int| 0 <= i < old(self).vw().len() ==> #[trigger] r.vw()[i] == clip_spec(old(self).vw()[i], min_thresh, max_thresh),
            final(self).vw() == final(r).vw();
    fn sqrt(&mut self) -> (r: &mut Self)
        ensures r.vw().len() == old(self).vw().len(),
            forall|i: int| 0 <= i < old(self).vw().len() ==> #[trigger] r.vw()[i] == f_sqrt(old(self).vw()[i]),
            final(self).vw() == final(r).vw();
    fn normalize(&mut self) -> (r: F)
        ensures normalized(final(self).vw(), old(self).vw(), r);
    // assert_eq! on the lengths; the selected elements in their order
    fn select(&self, index: &[bool]) -> (r: Vec<F>)
        requires self.vw().len() == index@.len(),
        ensures r@ == sel(self.vw(), index@, self.vw().len() as int);
    // assert_eq! on the lengths
    fn dot_shifted(z: &[F], s: &[F], dz: &[F], ds: &[F], alpha: F) -> (r: F)
        requires z@.len() == s@.len(), z@.len() == dz@.len(), s@.len() == ds@.len(),
        ensures r == fold_dot_shifted(z@, s@, dz@, ds@, alpha, z@.len() as int);
    // zip: silently stops at the shorter operand
    fn dist(&self, y: &Self) -> (r: F) ensures r == f_sqrt(fold_dist2(self.vw(), y.vw(), vm_len2(self.vw(), y.vw())));
    fn norm_one(&self) -> (r: F) ensures r == fold_abs(self.vw(), self.vw().len() as int);
    fn norm_one_scaled(&self, v: &Self) -> (r: F) ensures r == fold_abs2(self.vw(), v.vw(), vm_len2(self.vw(), v.vw()));
    fn norm_inf_diff(&self, b: &Self) -> (r: F) ensures r == fold_maxdiff(self.vw(), b.vw(), vm_len2(self.vw(), b.vw()));
}

impl VectorMathMore for [F] {
//@fn file=src/algebra/vecmath.rs in="VectorMath<T> for [T]" name=clip rules=R1 ret=r
//@closure 1
F
(q: F) ensures q == clip_spec(x, min_thresh, max_thresh)
//@end
//@fn file=src/algebra/vecmath.rs in="VectorMath<T> for [T]" name=sqrt rules=R1 ret=r
//@end
//@fn file=src/algebra/vecmath.rs in="VectorMath<T> for [T]" name=normalize rules=R1 ret=r
//@end
//@fn file=src/algebra/vecmath.rs in="VectorMath<T> for [T]" name=select rules=R1,R6,R35,zipidx:1=ii ret=r
//@iter 1
it
//@loop 1
        invariant
            it.seq().len() == r14_n1, range_from(it.seq(), 0), r14_n1 == self@.len(), self@.len() == index@.len(),
            r35_out1@ == sel(self@, index@, it.index@ as int),
//@end
//@fn file=src/algebra/vecmath.rs in="VectorMath<T> for [T]" name=dot_shifted rules=R1,R2,R6,zipidx:1=iiii ret=r
//@iter 1
it
//@loop 1
        invariant
            it.seq().len() == r14_n1, range_from(it.seq(), 0), r14_n1 == z@.len(),
            z@.len() == s@.len(), z@.len() == dz@.len(), s@.len() == ds@.len(),
            out == fold_dot_shifted(z@, s@, dz@, ds@, alpha, it.index@ as int),
//@end
//@fn file=src/algebra/vecmath.rs in="VectorMath<T> for [T]" name=dist rules=R1,R24,zipidx:1=ii ret=r
//@iter 1
it
//@loop 1
        invariant
            it.seq().len() == r14_n1, range_from(it.seq(), 0), r14_n1 == vm_len2(self@, y@),
            acc == fold_dist2(self@, y@, it.index@ as int),
//@end
//@fn file=src/algebra/vecmath.rs in="VectorMath<T> for [T]" name=norm_one rules=R1,R24,zipidx:1=i ret=r
//@iter 1
it
//@loop 1
        invariant
            it.seq().len() == r14_n1, range_from(it.seq(), 0), r14_n1 == self@.len(),
            acc == fold_abs(self@, it.index@ as int),
//@end
//@fn file=src/algebra/vecmath.rs in="VectorMath<T> for [T]" name=norm_one_scaled rules=R1,R24,zipidx:1=ii ret=r
//@iter 1
it
//@loop 1
        invariant
            it.seq().len() == r14_n1, range_from(it.seq(), 0), r14_n1 == vm_len2(self@, v@),
            acc == fold_abs2(self@, v@, it.index@ as int),
//@end
//@fn file=src/algebra/vecmath.rs in="VectorMath<T> for [T]" name=norm_inf_diff rules=R1,R24,zipidx:1=ii ret=r
//@iter 1
it
//@loop 1
        invariant
            it.seq().len() == r14_n1, range_from(it.seq(), 0), r14_n1 == vm_len2(self@, b@),
            acc == fold_maxdiff(self@, b@, it.index@ as int),
//@end
}

// ------------------------------------------------------------------ CSC matrices: queries of csc/core.rs
//@enum file=src/algebra/matrix_types.rs name=MatrixShape rules=R12 derive="PartialEq, Eq, Clone, Copy, Structural"
//@struct file=src/algebra/csc/core.rs name=CscMatrix
impl CscMatrix<F> {
    // column pointers describe n columns over the stored entries (as in units/inc/csc_scalings.rs)
    pub open spec fn colptr_ok(&self) -> bool {
        &&& self.colptr@.len() == self.n + 1
        &&& self.rowval@.len() == self.nzval@.len()
        &&& self.colptr@[self.n as int] == self.nzval@.len()
        &&& forall|a: int, b: int| 0 <= a <= b <= self.n ==> self.colptr@[a] <= self.colptr@[b]
    }
    // column of the stored entry k
    pub open spec fn in_col(&self, k: int, j: int) -> bool { 0 <= j < self.n && self.colptr@[j] <= k < self.colptr@[j + 1] }

//@fn file=src/algebra/csc/core.rs in="ShapedMatrix for CscMatrix<T>" name=size rules=R1 ret=r
//@contract
    ensures r.0 == self.m, r.1 == self.n,
//@end
//@fn file=src/algebra/csc/core.rs in="ShapedMatrix for CscMatrix<T>" name=shape rules=R1 ret=r
//@contract
    ensures r == MatrixShape::N,
//@end
//@fn file=src/algebra/csc/core.rs in="impl<T> CscMatrix<T>" name=is_equal_sparsity rules=R1,R16:self.colptr~other.colptr|self.rowval~other.rowval ret=r
//@contract
    ensures r == (self.m == other.m && self.n == other.n && self.colptr@ == other.colptr@ && self.rowval@ == other.rowval@),
//@end
}

// ------------------------------------------------------------------ matrix_math.rs (spec functions copied verbatim from unit `csc_math`)
pub open spec fn rows_below(a: CscMatrix<F>, bound: int) -> bool {
    forall|k: int| 0 <= k < a.rowval@.len() ==> a.rowval@[k] < bound
}
// ------------------------------------------------------------------ quadratic form  y' sym(M) x  of an upper-triangular M, F-real
// a stored entry (r, c) of the upper triangle stands for the two dense entries (r, c) and (c, r), the diagonal for one
pub open spec fn qf_entry(M: CscMatrix<F>, y: Seq<F>, x: Seq<F>, c: int, k: int) -> real {
    let r = M.rowval@[k] as int; let mv = M.nzval@[k].v();
    if r == c { mv * x[c].v() * y[c].v() } else { mv * x[r].v() * y[c].v() + mv * y[r].v() * x[c].v() }
}
pub open spec fn qf_col(M: CscMatrix<F>, y: Seq<F>, x: Seq<F>, c: int, hi: int) -> real decreases hi - M.colptr@[c] {
    if hi <= M.colptr@[c] { 0real } else { qf_col(M, y, x, c, hi - 1) + qf_entry(M, y, x, c, hi - 1) }
}
pub open spec fn qf_total(M: CscMatrix<F>, y: Seq<F>, x: Seq<F>, j: int) -> real decreases j {
    if j <= 0 { 0real } else { qf_total(M, y, x, j - 1) + qf_col(M, y, x, j - 1, M.colptr@[j] as int) }
}
// the three partial sums the loop keeps for column c: diagonal terms, sum Mv*x[r], sum Mv*y[r] over the strict upper part
pub open spec fn qf_d(M: CscMatrix<F>, y: Seq<F>, x: Seq<F>, c: int, hi: int) -> real decreases hi - M.colptr@[c] {
    if hi <= M.colptr@[c] { 0real } else { qf_d(M, y, x, c, hi - 1) + (if M.rowval@[hi - 1] == c { M.nzval@[hi - 1].v() * x[c].v() * y[c].v() } else { 0real }) }
}
pub open spec fn qf_t(M: CscMatrix<F>, w: Seq<F>, c: int, hi: int) -> real decreases hi - M.colptr@[c] {
    if hi <= M.colptr@[c] { 0real } else { qf_t(M, w, c, hi - 1) + (if M.rowval@[hi - 1] < c { M.nzval@[hi - 1].v() * w[M.rowval@[hi - 1] as int].v() } else { 0real }) }
}
pub proof fn lemma_qf_split(M: CscMatrix<F>, y: Seq<F>, x: Seq<F>, c: int, hi: int)
    requires forall|k: int| M.colptr@[c] <= k < hi ==> #[trigger] M.rowval@[k] <= c,
    ensures qf_col(M, y, x, c, hi) == qf_d(M, y, x, c, hi) + qf_t(M, x, c, hi) * y[c].v() + qf_t(M, y, c, hi) * x[c].v(),
    decreases hi - M.colptr@[c],
{
    if hi <= M.colptr@[c] {
        assert(0real * y[c].v() == 0real) by(nonlinear_arith);
        assert(0real * x[c].v() == 0real) by(nonlinear_arith);
    } else {
        lemma_qf_split(M, y, x, c, hi - 1);
        let r = M.rowval@[hi - 1] as int; let mv = M.nzval@[hi - 1].v();
        let t1 = qf_t(M, x, c, hi - 1); let t2 = qf_t(M, y, c, hi - 1);
        let yc = y[c].v(); let xc = x[c].v();
        assert(M.rowval@[hi - 1] <= c);
        if r < c {
            let xr = x[r].v(); let yr = y[r].v();
            assert((t1 + mv * xr) * yc == t1 * yc + mv * xr * yc) by(nonlinear_arith);
            assert((t2 + mv * yr) * xc == t2 * xc + mv * yr * xc) by(nonlinear_arith);
        }
    }
}

// ASSUMED here, PROVED in unit `csc_math` from the real body (same contract, copied)
#[verifier::external_body]
fn _csc_quad_form(M: &CscMatrix<F>, y: &[F], x: &[F]) -> (r: F)
    requires
        M.colptr_ok(), M.n == M.m, x@.len() == M.n, y@.len() == M.n,
        forall|c: int, k: int| #[trigger] M.in_col(k, c) ==> M.rowval@[k] <= c,
    ensures
        r.v() == qf_total(*M, y@, x@, M.n as int),
{ unimplemented!() }
impl CscMatrix<F> {
//@fn file=src/algebra/csc/matrix_math.rs in="MatrixMath<T> for CscMatrix<T>" name=quad_form rules=R1 ret=r
//@contract
    requires
        self.colptr_ok(), self.n == self.m, x@.len() == self.n, y@.len() == self.n,
        // upper-triangular input (otherwise: documented panic of _csc_quad_form)
        forall|c: int, k: int| #[trigger] self.in_col(k, c) ==> self.rowval@[k] <= c,
    ensures
        // C16 / C03: y' sym(M) x over the stored upper triangle (real arithmetic)
        r.v() == qf_total(*self, y@, x@, self.n as int),
//@end
}

// ------------------------------------------------------------------ symmetric product  y <- a*sym(A)*x + b*y, F-real
// dense meaning read off the stored (upper-triangle) entries: entry (i, c) contributes A_ic*x_c to row i and, when it is
// off the diagonal, A_ic*x_i to row c
pub open spec fn sv_entry(A: CscMatrix<F>, x: Seq<F>, r: int, c: int, k: int) -> real {
    let i = A.rowval@[k] as int; let v = A.nzval@[k].v();
    (if i == r { v * x[c].v() } else { 0real }) + (if i != c && c == r { v * x[i].v() } else { 0real })
}
pub open spec fn sv_col(A: CscMatrix<F>, x: Seq<F>, r: int, c: int, hi: int) -> real decreases hi - A.colptr@[c] {
    if hi <= A.colptr@[c] { 0real } else { sv_col(A, x, r, c, hi - 1) + sv_entry(A, x, r, c, hi - 1) }
}
pub open spec fn sv_total(A: CscMatrix<F>, x: Seq<F>, r: int, j: int) -> real decreases j {
    if j <= 0 { 0real } else { sv_total(A, x, r, j - 1) + sv_col(A, x, r, j - 1, A.colptr@[j] as int) }
}
pub proof fn lemma_sv_step(A: CscMatrix<F>, x: Seq<F>, r: int, c: int, k: int, aa: real, base: real, tot: real, ynew: real)
    requires
        A.colptr@[c] <= k,
        ynew == base + aa * (tot + sv_col(A, x, r, c, k))
              + (if A.rowval@[k] == r { (aa * A.nzval@[k].v()) * x[c].v() } else { 0real })
              + (if A.rowval@[k] != c && c == r { (aa * A.nzval@[k].v()) * x[A.rowval@[k] as int].v() } else { 0real }),
    ensures ynew == base + aa * (tot + sv_col(A, x, r, c, k + 1)),
{
    let v = A.nzval@[k].v(); let i = A.rowval@[k] as int; let s = tot + sv_col(A, x, r, c, k);
    assert(sv_col(A, x, r, c, k + 1) == sv_col(A, x, r, c, k) + sv_entry(A, x, r, c, k));
    let e1 = if i == r { v * x[c].v() } else { 0real };
    let e2 = if i != c && c == r { v * x[i].v() } else { 0real };
    assert(aa * (s + (e1 + e2)) == aa * s + aa * e1 + aa * e2) by(nonlinear_arith);
    assert(aa * (v * x[c].v()) == (aa * v) * x[c].v()) by(nonlinear_arith);
    assert(aa * (v * x[i].v()) == (aa * v) * x[i].v()) by(nonlinear_arith);
    assert(aa * 0real == 0real) by(nonlinear_arith);
}

//@fn file=src/algebra/csc/matrix_math.rs name=_csc_symv_safe rules=R1,R3,zipidx:1=i;2=ii
//@contract
    requires
        A.colptr_ok(), A.n == A.m, x@.len() == A.n, old(y)@.len() == A.n, rows_below(*A, A.n as int),
    ensures
        final(y)@.len() == old(y)@.len(),
        // C16: y <- a*sym(A)*x + b*y row by row, sym(A) = A + A' - diag(A) of the stored entries (real arithmetic)
        forall|r: int| 0 <= r < A.n ==> (#[trigger] final(y)@[r]).v() == b.v() * old(y)@[r].v() + a.v() * sv_total(*A, x@, r, A.n as int),
//@pre
    broadcast use real_arith;
    let ghost y0 = y@;
//@before "assert!(x.len() == A.n);"
    let ghost yb = y@;
    proof {
        assert(A.nzval@.len() == A.nzval.len());
        assert forall|r: int| 0 <= r < A.n implies (#[trigger] yb[r]).v() == b.v() * y0[r].v() by {
            assert(yb[r] == f_mul(y0[r], b));
            assert(y0[r].v() * b.v() == b.v() * y0[r].v()) by(nonlinear_arith);
        }
        assert(a.v() * 0real == 0real) by(nonlinear_arith);
    }
//@iter 1
it0
//@loop 1
            invariant
                it0.seq().len() == r14_n1, range_from(it0.seq(), 0), col_ctr == it0.index@, r14_n1 == A.n,
                A.colptr_ok(), A.n == A.m, x@.len() == A.n, y@.len() == A.n, rows_below(*A, A.n as int), yb.len() == A.n,
                forall|r: int| 0 <= r < A.n ==> (#[trigger] yb[r]).v() == b.v() * y0[r].v(),
                forall|r: int| 0 <= r < A.n ==> (#[trigger] y@[r]).v() == yb[r].v() + a.v() * sv_total(*A, x@, r, col_ctr as int),
//@body_start 1
            broadcast use real_arith;
            let ghost gc = col_ctr as int;
            proof { assert(A.colptr@[gc] <= A.colptr@[gc + 1] <= A.colptr@[A.n as int]); }
//@iter 2
it1
//@loop 2
                invariant
                    it1.seq().len() == r14_n2, range_from(it1.seq(), 0), r14_n2 == last - first,
                    rows@ == A.rowval@.subrange(first as int, last as int), nzvals@ == A.nzval@.subrange(first as int, last as int),
                    0 <= gc < A.n, col == gc, xcol == x@[gc], first == A.colptr@[gc], last == A.colptr@[gc + 1], first <= last, last <= A.nzval@.len(),
                    A.colptr_ok(), A.n == A.m, x@.len() == A.n, y@.len() == A.n, rows_below(*A, A.n as int), yb.len() == A.n,
                    forall|r: int| 0 <= r < A.n ==> (#[trigger] y@[r]).v() == yb[r].v() + a.v() * (sv_total(*A, x@, r, gc) + sv_col(*A, x@, r, gc, first + it1.index@)),
//@body_start 2
                broadcast use real_arith;
                let ghost yk = y@;
                let ghost gk = first as int + r14_i2 as int;
                proof {
                    assert(A.in_col(gk, gc));
                    assert(rows@[r14_i2 as int] == A.rowval@[gk]);
                    assert(nzvals@[r14_i2 as int] == A.nzval@[gk]);
                }
//@body_end 2
                proof {
                    assert forall|r: int| 0 <= r < A.n implies (#[trigger] y@[r]).v() == yb[r].v() + a.v() * (sv_total(*A, x@, r, gc) + sv_col(*A, x@, r, gc, gk + 1)) by {
                        lemma_sv_step(*A, x@, r, gc, gk, a.v(), yb[r].v(), sv_total(*A, x@, r, gc), y@[r].v());
                    }
                }
//@body_end 1
            proof {
                assert(forall|r: int| 0 <= r < A.n ==> sv_total(*A, x@, r, gc + 1) == sv_total(*A, x@, r, gc) + sv_col(*A, x@, r, gc, A.colptr@[gc + 1] as int));
            }
//@end

} // verus!
fn main() {}
