// unit `steplen` : cone step lengths (C15) and positivity of the homogenisation scalars (C07)
// float model: F-real (exact real arithmetic; NaN / inf / rounding not modelled)
use vstd::prelude::*;
use std::marker::PhantomData;
verus! {
//@include prelude/float_opaque.rs
//@include prelude/float_real_axioms.rs
//@include prelude/vecmath_assumed.rs
// F-real reading of `minimum` (ASSUMED): a lower bound that is attained
pub broadcast proof fn ax_minimum_le(s: Seq<F>, i: int) requires 0 <= i < s.len() ensures #[trigger] vm_minimum(s).v() <= (#[trigger] s[i]).v() { admit(); }
pub proof fn ax_minimum_attained(s: Seq<F>) requires s.len() > 0 ensures exists|i: int| 0 <= i < s.len() && vm_minimum(s).v() == s[i].v() { admit(); }
pub broadcast proof fn ax_maxval() ensures #[trigger] f_maxval().v() > 1real { admit(); }
// F-real reading of the element-wise waxpby: already exact in vecmath_assumed.rs

//@enum file=src/solver/core/solver.rs name=StepDirection derive="PartialEq, Eq, Clone, Copy, Structural"
//@struct file=src/solver/core/cones/nonnegativecone.rs name=NonnegativeCone rules=R2
//@struct file=src/solver/core/cones/zerocone.rs name=ZeroCone
//@struct file=src/solver/implementations/default/settings.rs name=DefaultSettings rules=R1f
//@type file=src/solver/core/settings.rs name=CoreSettings
//@struct file=src/solver/implementations/default/variables.rs name=DefaultVariables rules=R2

// C15: a step of length a from z along dz stays in the nonnegative orthant
pub open spec fn stays_nonneg(z: Seq<F>, dz: Seq<F>, a: real) -> bool {
    forall|i: int| 0 <= i < z.len() ==> (#[trigger] z[i]).v() + a * dz[i].v() >= 0real
}
// C15: "not needlessly short": the maximum, or exactly the distance to the boundary along some coordinate
pub open spec fn tight_nonneg(z: Seq<F>, dz: Seq<F>, a: real, amax: real) -> bool {
    a == amax || exists|i: int| 0 <= i < z.len() && (#[trigger] dz[i]).v() < 0real && a == (-z[i].v()) / dz[i].v()
}
pub open spec fn all_nonneg(z: Seq<F>) -> bool { forall|i: int| 0 <= i < z.len() ==> (#[trigger] z[i]).v() >= 0real }

impl NonnegativeCone<F> {
//@fn file=src/solver/core/cones/nonnegativecone.rs in="Cone<T> for NonnegativeCone<T>" name=step_length rules=R1,R2,R6 ret=r
//@contract
    requires
        // documented panics (assert_eq!) are excluded by equal lengths
        z@.len() == s@.len(), dz@.len() == z@.len(), ds@.len() == s@.len(),
        alphamax.v() >= 0real, all_nonneg(z@), all_nonneg(s@),
    ensures
        0real <= r.0.v() <= alphamax.v(), 0real <= r.1.v() <= alphamax.v(),
        stays_nonneg(z@, dz@, r.0.v()), stays_nonneg(s@, ds@, r.1.v()),
        tight_nonneg(z@, dz@, r.0.v(), alphamax.v()), tight_nonneg(s@, ds@, r.1.v(), alphamax.v()),
//@pre
        broadcast use real_arith;
//@loop 1
        invariant
            z@.len() == s@.len(), dz@.len() == z@.len(), ds@.len() == s@.len(), alphamax.v() >= 0real, all_nonneg(z@), all_nonneg(s@),
            0real <= alphaz.v() <= alphamax.v(), 0real <= alphas.v() <= alphamax.v(),
            forall|k: int| 0 <= k < i ==> (#[trigger] z@[k]).v() + alphaz.v() * dz@[k].v() >= 0real,
            forall|k: int| 0 <= k < i ==> (#[trigger] s@[k]).v() + alphas.v() * ds@[k].v() >= 0real,
            alphaz.v() == alphamax.v() || exists|k: int| 0 <= k < i && (#[trigger] dz@[k]).v() < 0real && alphaz.v() == (-z@[k].v()) / dz@[k].v(),
            alphas.v() == alphamax.v() || exists|k: int| 0 <= k < i && (#[trigger] ds@[k]).v() < 0real && alphas.v() == (-s@[k].v()) / ds@[k].v(),
//@body_start 1
            broadcast use real_arith;
            let ghost pz = alphaz.v();
            let ghost ps = alphas.v();
            proof {
                let zi = z@[i as int].v(); let di = dz@[i as int].v();
                if di < 0real { assert((-zi) / di >= 0real) by(nonlinear_arith) requires zi >= 0real, di < 0real; }
                let si = s@[i as int].v(); let ei = ds@[i as int].v();
                if ei < 0real { assert((-si) / ei >= 0real) by(nonlinear_arith) requires si >= 0real, ei < 0real; }
            }
//@body_end 1
            proof {
                lemma_step(z@, dz@, i as int, pz, alphaz.v());
                lemma_step(s@, ds@, i as int, ps, alphas.v());
            }
//@end
}
// shrinking a safe step keeps the earlier coordinates safe; the new coordinate is safe by the ratio test
pub proof fn lemma_step(z: Seq<F>, dz: Seq<F>, i: int, p: real, a: real)
    requires 0 <= i < z.len(), z.len() == dz.len(), all_nonneg(z), 0real <= a <= p,
        forall|k: int| 0 <= k < i ==> (#[trigger] z[k]).v() + p * dz[k].v() >= 0real,
        dz[i].v() < 0real ==> a <= (-z[i].v()) / dz[i].v(),
    ensures forall|k: int| 0 <= k <= i ==> (#[trigger] z[k]).v() + a * dz[k].v() >= 0real,
{
    assert forall|k: int| 0 <= k <= i implies (#[trigger] z[k]).v() + a * dz[k].v() >= 0real by {
        let zk = z[k].v(); let dk = dz[k].v();
        if k < i {
            assert(zk + p * dk >= 0real);
            assert(zk + a * dk >= 0real) by(nonlinear_arith) requires 0real <= a <= p, zk >= 0real, zk + p * dk >= 0real;
        } else if dk < 0real {
            assert(zk + a * dk >= 0real) by(nonlinear_arith) requires a <= (-zk) / dk, dk < 0real;
        } else {
            assert(zk + a * dk >= 0real) by(nonlinear_arith) requires a >= 0real, zk >= 0real, dk >= 0real;
        }
    }
}

impl ZeroCone<F> {
//@fn file=src/solver/core/cones/zerocone.rs in="Cone<T> for ZeroCone<T>" name=step_length rules=R1,R2 ret=r
//@contract
    ensures r.0 == alphamax, r.1 == alphamax,
//@end
}

// the membership test was evaluated on the point q + a*dq (element-wise, in the float symbols) and said "outside"
pub open spec fn trial_at(w: Seq<F>, q: Seq<F>, dq: Seq<F>, a: F) -> bool {
    w.len() == q.len() && forall|i: int| 0 <= i < q.len() ==> #[trigger] w[i] == f_add(f_mul(f_one(), q[i]), f_mul(a, dq[i]))
}
pub open spec fn trial_rejected<FN: Fn(&[F]) -> bool>(f: FN, q: Seq<F>, dq: Seq<F>, a: F) -> bool {
    exists|w: &[F]| trial_at(w@, q, dq, a) && f.ensures((w,), false)
}
// C15 (nonsymmetric cones): the search returns 0 or a trial step that the membership predicate accepts,
// namely the first accepted one in the sequence alpha_init * step^k ("within one backtracking factor")
//@fn file=src/solver/core/cones/nonsymmetric_common.rs name=backtrack_search rules=R1,R2 ret=r attrs="#[verifier::exec_allows_no_decreases_clause]"
//@contract
    requires
        old(work)@.len() == q@.len(), q@.len() == dq@.len(),
        forall|w: &[F]| #![trigger is_in_cone_fcn.requires((w,))] is_in_cone_fcn.requires((w,)),
    ensures
        final(work)@.len() == old(work)@.len(),
        // either the search gave up: the trial `prev` was rejected and the next one, prev*step, is below alpha_min ...
        (r == f_zero() && exists|prev: F| #[trigger] trial_rejected(is_in_cone_fcn, q@, dq@, prev) && f_lt(f_mul(prev, step), alpha_min)) || ({
            // ... or the point q + r*dq was accepted by the cone membership test
            &&& is_in_cone_fcn.ensures((&*final(work),), true)
            &&& forall|i: int| 0 <= i < q@.len() ==> #[trigger] final(work)@[i] == f_add(f_mul(f_one(), q@[i]), f_mul(r, dq@[i]))
            // ... and r is alpha_init, or one backtracking factor below a REJECTED trial ("not needlessly short")
            &&& (r == alpha_init || exists|prev: F| r == f_mul(prev, step) && #[trigger] trial_rejected(is_in_cone_fcn, q@, dq@, prev))
        }),
//@loop 1
        invariant_except_break
            alpha == alpha_init || exists|prev: F| alpha == f_mul(prev, step) && #[trigger] trial_rejected(is_in_cone_fcn, q@, dq@, prev),
        invariant
            work@.len() == q@.len(), q@.len() == dq@.len(),
            forall|w: &[F]| #![trigger is_in_cone_fcn.requires((w,))] is_in_cone_fcn.requires((w,)),
        ensures
            work@.len() == q@.len(),
            (alpha == f_zero() && exists|prev: F| #[trigger] trial_rejected(is_in_cone_fcn, q@, dq@, prev) && f_lt(f_mul(prev, step), alpha_min)) || ({
                &&& is_in_cone_fcn.ensures((&*work,), true)
                &&& forall|i: int| 0 <= i < q@.len() ==> #[trigger] work@[i] == f_add(f_mul(f_one(), q@[i]), f_mul(alpha, dq@[i]))
                &&& (alpha == alpha_init || exists|prev: F| alpha == f_mul(prev, step) && #[trigger] trial_rejected(is_in_cone_fcn, q@, dq@, prev))
            }),
//@before "alpha *= step;"
        let ghost a_prev = alpha;
        proof {
            let w: &[F] = &*work;
            assert(w@.len() == q@.len() && !is_in_cone_fcn.ensures((w,), true) || true);
            assert(trial_rejected(is_in_cone_fcn, q@, dq@, a_prev)) by {
                assert(trial_at(w@, q@, dq@, a_prev));
            }
        }
//@end

// stand-in for CompositeCone (enum_dispatch over all cone types, closure capturing &mut self): its step_length is
// ASSUMED to return values in [0, alphamax] (proved above for the nonnegative and zero cones)
pub struct CompositeCone<T> { pub _p: Option<T> }
impl CompositeCone<F> {
    #[verifier::external_body]
    pub fn step_length(&mut self, dz: &[F], ds: &[F], z: &[F], s: &[F], settings: &CoreSettings<F>, alphamax: F) -> (r: (F, F))
        ensures 0real <= r.0.v() <= alphamax.v(), 0real <= r.1.v() <= alphamax.v(),
    { unimplemented!() }
    // margin(z): how far inside the (primal or dual) cone z is, in units of the cone's identity element e: z is strictly
    // inside iff margin > 0.  ASSUMED contracts (true per cone type by inspection of the symmetric cones:
    // NN margin = min z_i, shift adds alpha to every entry; SOC margin = z_0 - |z_1..|, shift adds alpha to z_0):
    pub uninterp spec fn margin(&self, z: Seq<F>, pd: PrimalOrDualCone) -> real;
    #[verifier::external_body]
    pub fn margins(&mut self, z: &mut [F], pd: PrimalOrDualCone) -> (r: (F, F))
        ensures r.0.v() == old(self).margin(old(z)@, pd), r.1.v() >= 0real, final(z)@ == old(z)@, *final(self) == *old(self),
    { unimplemented!() }
    #[verifier::external_body]
    pub fn scaled_unit_shift(&self, z: &mut [F], alpha: F, pd: PrimalOrDualCone)
        // (the form PROVED for the real dispatch loop in unit `composite`: a list of zero cones only sits at max_value and stays there)
        ensures final(z)@.len() == old(z)@.len(),
            self.margin(final(z)@, pd) >= (if self.margin(old(z)@, pd) + alpha.v() <= f_maxval().v() { self.margin(old(z)@, pd) + alpha.v() } else { f_maxval().v() }),
            alpha.v() >= 0real ==> self.margin(final(z)@, pd) <= self.margin(old(z)@, pd) + alpha.v(),
    { unimplemented!() }
    #[verifier::external_body]
    pub fn degree(&self) -> (r: usize) ensures r > 0 { unimplemented!() }
}
impl AsFloatT for usize { #[verifier::external_body] fn as_T(&self) -> (r: F) ensures r == f_from_usize(*self) { unimplemented!() } }
//@enum file=src/solver/core/cones/mod.rs name=PrimalOrDualCone rules=R12 derive="PartialEq, Eq, Clone, Copy, Structural"

//@fn file=src/solver/implementations/default/variables.rs name=_shift_to_cone_interior rules=R1
//@contract
    ensures
        // C15 (initialisation): whatever z was, it ends up strictly inside the cone, with margin at least one
        final(z)@.len() == old(z)@.len(), final(cones).margin(final(z)@, pd) >= 1real,
//@pre
    broadcast use real_arith, ax_maxval;
//@end
pub trait Settings { fn core(&self) -> &CoreSettings<F>; }
impl Settings for DefaultSettings<F> {
//@fn file=src/solver/implementations/default/settings.rs in="Settings<T> for DefaultSettings<T>" name=core rules=R1 ret=r
//@contract
    ensures *r == *self
//@end
}

impl DefaultVariables<F> {
//@fn file=src/solver/implementations/default/variables.rs in="Variables<T> for DefaultVariables<T>" name=calc_step_length rules=R1,R2 ret=r
//@contract
    requires
        self.tau.v() > 0real, self.kappa.v() > 0real,
        0real < settings.max_step_fraction.v() < 1real,
    ensures
        // C07: every accepted step has length in [0, 1] and keeps tau, kappa positive
        0real <= r.v() <= 1real,
        step_direction == StepDirection::Combined ==> self.tau.v() + r.v() * step.tau.v() > 0real && self.kappa.v() + r.v() * step.kappa.v() > 0real,
        self.tau.v() + r.v() * step.tau.v() >= 0real && self.kappa.v() + r.v() * step.kappa.v() >= 0real,
//@pre
        broadcast use real_arith, ax_minimum_le, ax_maxval;
//@after "let alpha = [alphatau"
        proof {
            let sq = seq![alphatau, alphakappa, f_one()];
            assert(sq[0] == alphatau && sq[1] == alphakappa && sq[2] == f_one());
            assert(alpha == vm_minimum(sq));
            ax_minimum_attained(sq);
            let t = self.tau.v(); let dt = step.tau.v(); let k = self.kappa.v(); let dk = step.kappa.v();
            if dt < 0real { assert((-t) / dt > 0real) by(nonlinear_arith) requires t > 0real, dt < 0real; }
            if dk < 0real { assert((-k) / dk > 0real) by(nonlinear_arith) requires k > 0real, dk < 0real; }
            assert(0real <= alpha.v() <= 1real);
        }
//@before "if step_direction == StepDirection::Combined"
        proof {
            let a = alpha.v(); let t = self.tau.v(); let dt = step.tau.v(); let k = self.kappa.v(); let dk = step.kappa.v();
            let m = settings.max_step_fraction.v();
            if dt < 0real {
                assert(t + a * dt >= 0real) by(nonlinear_arith) requires a <= (-t) / dt, dt < 0real;
                assert(t + (a * m) * dt > 0real) by(nonlinear_arith) requires t + a * dt >= 0real, dt < 0real, 0real <= a, 0real < m < 1real, t > 0real;
            } else {
                assert(t + a * dt >= 0real) by(nonlinear_arith) requires a >= 0real, dt >= 0real, t > 0real;
                assert(t + (a * m) * dt > 0real) by(nonlinear_arith) requires a >= 0real, dt >= 0real, t > 0real, m > 0real;
            }
            if dk < 0real {
                assert(k + a * dk >= 0real) by(nonlinear_arith) requires a <= (-k) / dk, dk < 0real;
                assert(k + (a * m) * dk > 0real) by(nonlinear_arith) requires k + a * dk >= 0real, dk < 0real, 0real <= a, 0real < m < 1real, k > 0real;
            } else {
                assert(k + a * dk >= 0real) by(nonlinear_arith) requires a >= 0real, dk >= 0real, k > 0real;
                assert(k + (a * m) * dk > 0real) by(nonlinear_arith) requires a >= 0real, dk >= 0real, k > 0real, m > 0real;
            }
            assert(0real <= a * m <= 1real) by(nonlinear_arith) requires 0real <= a <= 1real, 0real < m < 1real;
        }
//@end
//@fn file=src/solver/implementations/default/variables.rs in="Variables<T> for DefaultVariables<T>" name=add_step rules=R1,R2
//@contract
    requires old(self).x@.len() == step.x@.len(), old(self).s@.len() == step.s@.len(), old(self).z@.len() == step.z@.len(),
    ensures
        // C07: the homogenisation scalars move by exactly alpha times their step (so they stay positive by calc_step_length)
        final(self).tau.v() == old(self).tau.v() + alpha.v() * step.tau.v(),
        final(self).kappa.v() == old(self).kappa.v() + alpha.v() * step.kappa.v(),
        final(self).x@.len() == old(self).x@.len(), final(self).s@.len() == old(self).s@.len(), final(self).z@.len() == old(self).z@.len(),
        forall|i: int| 0 <= i < old(self).x@.len() ==> #[trigger] final(self).x@[i] == f_add(f_mul(alpha, step.x@[i]), f_mul(f_one(), old(self).x@[i])),
        forall|i: int| 0 <= i < old(self).s@.len() ==> #[trigger] final(self).s@[i] == f_add(f_mul(alpha, step.s@[i]), f_mul(f_one(), old(self).s@[i])),
        forall|i: int| 0 <= i < old(self).z@.len() ==> #[trigger] final(self).z@[i] == f_add(f_mul(alpha, step.z@[i]), f_mul(f_one(), old(self).z@[i])),
//@pre
        broadcast use real_arith;
//@end
}

// ------------------------------------------------------------------ nonsymmetric cones: which membership test guards which step (C15)
// stand-ins for the cone objects; the membership predicates themselves (powf / ln arithmetic) are uninterpreted
pub struct PowerCone<T> { pub alpha: T }
pub struct ExponentialCone<T> { pub _p: Option<T> }
impl PowerCone<F> {
    pub uninterp spec fn in_primal(&self, s: Seq<F>) -> bool;
    pub uninterp spec fn in_dual(&self, z: Seq<F>) -> bool;
    #[verifier::external_body] pub fn is_primal_feasible(&self, s: &[F]) -> (b: bool) ensures b == self.in_primal(s@) { unimplemented!() }
    #[verifier::external_body] pub fn is_dual_feasible(&self, z: &[F]) -> (b: bool) ensures b == self.in_dual(z@) { unimplemented!() }
//@fn file=src/solver/core/cones/powcone.rs in="Cone<T> for PowerCone<T>" name=step_length rules=R1,R2 ret=r
//@contract
    requires dz@.len() == 3, ds@.len() == 3, z@.len() == 3, s@.len() == 3,
    ensures
        *final(self) == *old(self),
        // C15: "never leads outside the cone when taken": a nonzero dual step was accepted by the DUAL-cone test on z + a*dz,
        // a nonzero slack step by the PRIMAL-cone test on s + a*ds (the points the search evaluated, element-wise)
        r.0 == f_zero() || exists|w: Seq<F>| old(self).in_dual(w) && w.len() == 3 && forall|i: int| 0 <= i < 3 ==> #[trigger] w[i] == f_add(f_mul(f_one(), z@[i]), f_mul(r.0, dz@[i])),
        // "not needlessly short": the step is alphamax itself, or one backtracking factor below a trial the cone test rejected
        // (or the search gave up because the next trial would fall below min_terminate_step_length)
        r.0 == alphamax || exists|prev: F, w: Seq<F>| #[trigger] trial_at(w, z@, dz@, prev) && !old(self).in_dual(w)
            && (r.0 == f_mul(prev, settings.linesearch_backtrack_step) || (r.0 == f_zero() && f_lt(f_mul(prev, settings.linesearch_backtrack_step), settings.min_terminate_step_length))),
        r.1 == alphamax || exists|prev: F, w: Seq<F>| #[trigger] trial_at(w, s@, ds@, prev) && !old(self).in_primal(w)
            && (r.1 == f_mul(prev, settings.linesearch_backtrack_step) || (r.1 == f_zero() && f_lt(f_mul(prev, settings.linesearch_backtrack_step), settings.min_terminate_step_length))),
        r.1 == f_zero() || exists|w: Seq<F>| old(self).in_primal(w) && w.len() == 3 && forall|i: int| 0 <= i < 3 ==> #[trigger] w[i] == f_add(f_mul(f_one(), s@[i]), f_mul(r.1, ds@[i])),
//@closure 1
=
(b: bool) ensures b == self.in_primal(s@)
//@closure 2
=
(b: bool) ensures b == self.in_dual(s@)
//@after "let alphaz = backtrack_search("
        let ghost wz = work@;
//@after "let alphas = backtrack_search("
        let ghost ws = work@;
        proof {
            if alphaz != f_zero() { assert(self.in_dual(wz) && wz.len() == 3); }
            if alphas != f_zero() { assert(self.in_primal(ws) && ws.len() == 3); }
            if alphaz != alphamax {
                let prev = choose|prev: F| #[trigger] trial_rejected(_is_dual_feasible_fcn, z@, dz@, prev) && (alphaz == f_mul(prev, step) || (alphaz == f_zero() && f_lt(f_mul(prev, step), alphamin)));
                let w = choose|w: &[F]| trial_at(w@, z@, dz@, prev) && _is_dual_feasible_fcn.ensures((w,), false);
                assert(trial_at(w@, z@, dz@, prev) && !self.in_dual(w@));
            }
            if alphas != alphamax {
                let prev = choose|prev: F| #[trigger] trial_rejected(_is_prim_feasible_fcn, s@, ds@, prev) && (alphas == f_mul(prev, step) || (alphas == f_zero() && f_lt(f_mul(prev, step), alphamin)));
                let w = choose|w: &[F]| trial_at(w@, s@, ds@, prev) && _is_prim_feasible_fcn.ensures((w,), false);
                assert(trial_at(w@, s@, ds@, prev) && !self.in_primal(w@));
            }
        }
//@end
}
impl ExponentialCone<F> {
    pub uninterp spec fn in_primal(&self, s: Seq<F>) -> bool;
    pub uninterp spec fn in_dual(&self, z: Seq<F>) -> bool;
    #[verifier::external_body] pub fn is_primal_feasible(&self, s: &[F]) -> (b: bool) ensures b == self.in_primal(s@) { unimplemented!() }
    #[verifier::external_body] pub fn is_dual_feasible(&self, z: &[F]) -> (b: bool) ensures b == self.in_dual(z@) { unimplemented!() }
//@fn file=src/solver/core/cones/expcone.rs in="Cone<T> for ExponentialCone<T>" name=step_length rules=R1,R2 ret=r
//@contract
    requires dz@.len() == 3, ds@.len() == 3, z@.len() == 3, s@.len() == 3,
    ensures
        *final(self) == *old(self),
        // C15: "never leads outside the cone when taken": a nonzero dual step was accepted by the DUAL-cone test on z + a*dz,
        // a nonzero slack step by the PRIMAL-cone test on s + a*ds (the points the search evaluated, element-wise)
        r.0 == f_zero() || exists|w: Seq<F>| old(self).in_dual(w) && w.len() == 3 && forall|i: int| 0 <= i < 3 ==> #[trigger] w[i] == f_add(f_mul(f_one(), z@[i]), f_mul(r.0, dz@[i])),
        // "not needlessly short": the step is alphamax itself, or one backtracking factor below a trial the cone test rejected
        // (or the search gave up because the next trial would fall below min_terminate_step_length)
        r.0 == alphamax || exists|prev: F, w: Seq<F>| #[trigger] trial_at(w, z@, dz@, prev) && !old(self).in_dual(w)
            && (r.0 == f_mul(prev, settings.linesearch_backtrack_step) || (r.0 == f_zero() && f_lt(f_mul(prev, settings.linesearch_backtrack_step), settings.min_terminate_step_length))),
        r.1 == alphamax || exists|prev: F, w: Seq<F>| #[trigger] trial_at(w, s@, ds@, prev) && !old(self).in_primal(w)
            && (r.1 == f_mul(prev, settings.linesearch_backtrack_step) || (r.1 == f_zero() && f_lt(f_mul(prev, settings.linesearch_backtrack_step), settings.min_terminate_step_length))),
        r.1 == f_zero() || exists|w: Seq<F>| old(self).in_primal(w) && w.len() == 3 && forall|i: int| 0 <= i < 3 ==> #[trigger] w[i] == f_add(f_mul(f_one(), s@[i]), f_mul(r.1, ds@[i])),
//@closure 1
=
(b: bool) ensures b == self.in_primal(s@)
//@closure 2
=
(b: bool) ensures b == self.in_dual(s@)
//@after "let alphaz = backtrack_search("
        let ghost wz = work@;
//@after "let alphas = backtrack_search("
        let ghost ws = work@;
        proof {
            if alphaz != f_zero() { assert(self.in_dual(wz) && wz.len() == 3); }
            if alphas != f_zero() { assert(self.in_primal(ws) && ws.len() == 3); }
            if alphaz != alphamax {
                let prev = choose|prev: F| #[trigger] trial_rejected(_is_dual_feasible_fcn, z@, dz@, prev) && (alphaz == f_mul(prev, step) || (alphaz == f_zero() && f_lt(f_mul(prev, step), alphamin)));
                let w = choose|w: &[F]| trial_at(w@, z@, dz@, prev) && _is_dual_feasible_fcn.ensures((w,), false);
                assert(trial_at(w@, z@, dz@, prev) && !self.in_dual(w@));
            }
            if alphas != alphamax {
                let prev = choose|prev: F| #[trigger] trial_rejected(_is_prim_feasible_fcn, s@, ds@, prev) && (alphas == f_mul(prev, step) || (alphas == f_zero() && f_lt(f_mul(prev, step), alphamin)));
                let w = choose|w: &[F]| trial_at(w@, s@, ds@, prev) && _is_prim_feasible_fcn.ensures((w,), false);
                assert(trial_at(w@, s@, ds@, prev) && !self.in_primal(w@));
            }
        }
//@end
}

impl NonnegativeCone<F> {
//@fn file=src/solver/core/cones/nonnegativecone.rs in="Cone<T> for NonnegativeCone<T>" name=margins rules=R1,R2,R24,R5 ret=r params=z,pd
//@contract
    ensures
        // C15 / C07: the margin of a point of the nonnegative cone is its smallest entry; the second figure is the sum of the positive parts
        final(z)@ == old(z)@, r.0 == vm_minimum(old(z)@), r.1 == fold_pos(old(z)@, old(z)@.len() as int),
//@iter 1
it
//@loop 1
            invariant
                it.seq().len() == z@.len(), (forall|i: int| 0 <= i < z@.len() ==> *(#[trigger] it.seq()[i]) == z@[i]), z@ == old(z)@,
                beta == fold_pos(z@, it.index@ as int),
//@end
//@fn file=src/solver/core/cones/nonnegativecone.rs in="Cone<T> for NonnegativeCone<T>" name=scaled_unit_shift rules=R1,R2 params=z,alpha,pd
//@contract
    ensures
        final(z)@.len() == old(z)@.len(), forall|i: int| 0 <= i < old(z)@.len() ==> #[trigger] final(z)@[i] == f_add(old(z)@[i], alpha),
//@end
}
pub open spec fn fold_pos(a: Seq<F>, k: int) -> F decreases k { if k <= 0 { f_zero() } else { f_add(fold_pos(a, k - 1), f_max(a[k - 1], f_zero())) } }

} // verus!
fn main() {}
