// unit `soc_step` : second-order-cone step length (C15, C07).  float model: F-real.
// The cone membership of x + t*y is read through the quadratic  q(t) = a t^2 + b t + c  with
//   a = resid(y), b = 2 (x0 y0 - <x1, y1>), c = max(0, resid(x)),  resid(z) = z0^2 - |z1|^2   (identity proved: lemma_quad_is_resid)
// and the scalar part x0 + t y0 >= 0.
use vstd::prelude::*;
verus! {
//@include prelude/float_opaque.rs
//@include prelude/float_real_axioms.rs
//@include prelude/vecmath_assumed.rs
// F-real reading of sqrt (ASSUMED): for d >= 0 the result is the nonnegative root
pub broadcast proof fn ax_sqrt(a: F) requires a.v() >= 0real
    ensures (#[trigger] f_sqrt(a)).v() >= 0real, f_sqrt(a).v() * f_sqrt(a).v() == a.v() { admit(); }
pub broadcast proof fn ax_lit4() ensures #[trigger] f_lit(4.0f64).v() == 4real { admit(); }

// the cone residual as the code computes it: (z0 - |z1|)(z0 + |z1|), |z1| = sqrt of the left fold of the squares of the tail
pub open spec fn tail(z: Seq<F>) -> Seq<F> { z.subrange(1, z.len() as int) }
pub open spec fn soc_resid(z: Seq<F>) -> F { f_mul(f_sub(z[0], vm_norm(tail(z))), f_add(z[0], vm_norm(tail(z)))) }
//@fn file=src/solver/core/cones/socone.rs name=_soc_residual rules=R1 ret=r
//@contract
    requires z@.len() >= 1,
    ensures r == soc_resid(z@),
//@end

// ---- the mathematical reading (F-real): residual = z0^2 - sum of squares of the tail; along x + t y it is the quadratic ----
pub open spec fn rdot(a: Seq<F>, b: Seq<F>, k: int) -> real decreases k { if k <= 0 { 0real } else { rdot(a, b, k - 1) + a[k - 1].v() * b[k - 1].v() } }
// sum of squares of the tail of x + t y
pub open spec fn rsh(a: Seq<F>, b: Seq<F>, t: real, k: int) -> real decreases k {
    if k <= 0 { 0real } else { rsh(a, b, t, k - 1) + (a[k - 1].v() + t * b[k - 1].v()) * (a[k - 1].v() + t * b[k - 1].v()) } }
pub open spec fn soc_resid_r(z: Seq<F>) -> real { z[0].v() * z[0].v() - rdot(tail(z), tail(z), z.len() - 1) }
// C15: x + t y is in the second-order cone: scalar part nonnegative and its square at least the squared norm of the tail
pub open spec fn shift_in_cone(x: Seq<F>, y: Seq<F>, t: real) -> bool {
    let s0 = x[0].v() + t * y[0].v();
    s0 >= 0real && s0 * s0 >= rsh(tail(x), tail(y), t, x.len() - 1)
}
pub open spec fn seg_quad_ok(x: Seq<F>, y: Seq<F>, rr: real) -> bool { forall|tau: real| 0real <= tau <= rr ==> #[trigger] quad(qa(y), qb(x, y), qc(x), tau) >= 0real }
pub open spec fn seg_in_cone(x: Seq<F>, y: Seq<F>, rr: real) -> bool { forall|tau: real| 0real <= tau <= rr ==> #[trigger] shift_in_cone(x, y, tau) }
pub proof fn lemma_fold_dot_real(a: Seq<F>, b: Seq<F>, k: int)
    requires 0 <= k,
    ensures fold_dot(a, b, k).v() == rdot(a, b, k),
    decreases k,
{
    broadcast use real_arith;
    if k > 0 { lemma_fold_dot_real(a, b, k - 1); }
}
pub proof fn lemma_rdot_sq_nonneg(a: Seq<F>, k: int)
    requires 0 <= k,
    ensures rdot(a, a, k) >= 0real,
    decreases k,
{
    if k > 0 { lemma_rdot_sq_nonneg(a, k - 1); let p = a[k - 1].v(); assert(p * p >= 0real) by(nonlinear_arith); }
}
pub proof fn lemma_resid_real(z: Seq<F>)
    requires z.len() >= 1,
    ensures soc_resid(z).v() == soc_resid_r(z),
{
    broadcast use real_arith, ax_sqrt;
    reveal(vm_norm);
    let t = tail(z); let n = z.len() - 1;
    assert(t.len() == n);
    lemma_fold_dot_real(t, t, n); lemma_rdot_sq_nonneg(t, n);
    let nv = vm_norm(t).v(); let z0 = z[0].v(); let ss = rdot(t, t, n);
    assert(nv * nv == ss);
    assert((z0 - nv) * (z0 + nv) == z0 * z0 - ss) by(nonlinear_arith) requires nv * nv == ss;
}
// (p + u)^2 and the monomial rearrangements used below, each as its own small nonlinear query (a single degree-4 identity made
// the nonlinear solver run away under some random seeds)
pub proof fn lemma_sq_sum(p: real, u: real) ensures (p + u) * (p + u) == p * p + 2real * (p * u) + u * u { assert((p + u) * (p + u) == p * p + 2real * (p * u) + u * u) by(nonlinear_arith); }
pub proof fn lemma_mul_re(t: real, p: real, q: real) ensures p * (t * q) == t * (p * q), (t * q) * (t * q) == (t * t) * (q * q)
{
    let pq = p * q; let tq = t * q;
    assert(p * tq == t * pq) by(nonlinear_arith) requires pq == p * q, tq == t * q;
    let tt = t * t; let qq = q * q;
    assert(tq * tq == tt * qq) by(nonlinear_arith) requires tq == t * q, tt == t * t, qq == q * q;
}
pub proof fn lemma_dist(k: real, a: real, b: real) ensures k * (a + b) == k * a + k * b { assert(k * (a + b) == k * a + k * b) by(nonlinear_arith); }
pub proof fn lemma_shift_expand(a: Seq<F>, b: Seq<F>, t: real, k: int)
    requires 0 <= k,
    ensures rsh(a, b, t, k) == rdot(a, a, k) + (2real * t) * rdot(a, b, k) + (t * t) * rdot(b, b, k),
    decreases k,
{
    if k > 0 {
        lemma_shift_expand(a, b, t, k - 1);
        let p = a[k - 1].v(); let q = b[k - 1].v();
        let B = rdot(a, b, k - 1); let C = rdot(b, b, k - 1);
        lemma_sq_sum(p, t * q);
        lemma_mul_re(t, p, q);
        lemma_dist(2real * t, B, p * q);
        lemma_dist(t * t, C, q * q);
        assert(2real * (t * (p * q)) == (2real * t) * (p * q)) by(nonlinear_arith);
    }
}
// the (formerly assumed) identity: the cone residual of x + t y is the quadratic a t^2 + b t + c
pub proof fn lemma_quad_is_resid(x: Seq<F>, y: Seq<F>, t: real)
    requires x.len() >= 1, y.len() == x.len(), soc_resid(x).v() >= 0real,
    ensures
        (x[0].v() + t * y[0].v()) * (x[0].v() + t * y[0].v()) - rsh(tail(x), tail(y), t, x.len() - 1) == quad(qa(y), qb(x, y), qc(x), t),
{
    broadcast use real_arith;
    reveal(vm_dot);
    let n = x.len() - 1; let x1 = tail(x); let y1 = tail(y);
    assert(x1.len() == n && y1.len() == n);
    lemma_resid_real(x); lemma_resid_real(y);
    lemma_fold_dot_real(x1, y1, n);
    lemma_shift_expand(x1, y1, t, n);
    let x0 = x[0].v(); let y0 = y[0].v();
    let A = rdot(x1, x1, n); let B = rdot(x1, y1, n); let C = rdot(y1, y1, n);
    assert(vm_dot(x1, y1).v() == B);
    assert(qa(y) == y0 * y0 - C); assert(qb(x, y) == 2real * (x0 * y0 - B)); assert(qc(x) == x0 * x0 - A);
    lemma_sq_sum(x0, t * y0); lemma_mul_re(t, x0, y0);
    assert(2real * (t * (x0 * y0)) == (2real * t) * (x0 * y0)) by(nonlinear_arith);
    // q(t) = (y0^2 - C) t t + 2 (x0 y0 - B) t + (x0^2 - A)
    let tt = t * t; let yy = y0 * y0; let xy = x0 * y0;
    assert((yy - C) * t * t == tt * yy - tt * C) by(nonlinear_arith) requires tt == t * t;
    assert(2real * (xy - B) * t == (2real * t) * xy - (2real * t) * B) by(nonlinear_arith);
}
// C15 (second-order cone, safety on the whole segment): a step that keeps the scalar part and the quadratic nonnegative keeps
// x + tau y inside the cone for every tau in [0, rr]
pub proof fn lemma_seg(x: Seq<F>, y: Seq<F>, rr: real)
    requires x.len() >= 1, y.len() == x.len(), x[0].v() > 0real, soc_resid(x).v() > 0real,
        seg_quad_ok(x, y, rr), rr >= 0real ==> x[0].v() + rr * y[0].v() >= 0real,
    ensures seg_in_cone(x, y, rr),
{
    assert forall|tau: real| 0real <= tau <= rr implies #[trigger] shift_in_cone(x, y, tau) by {
        let x0 = x[0].v(); let y0 = y[0].v();
        if y0 >= 0real { assert(x0 + tau * y0 >= 0real) by(nonlinear_arith) requires x0 > 0real, y0 >= 0real, tau >= 0real; }
        else { assert(x0 + tau * y0 >= 0real) by(nonlinear_arith) requires x0 + rr * y0 >= 0real, y0 < 0real, tau <= rr; }
        lemma_quad_is_resid(x, y, tau);
        assert(quad(qa(y), qb(x, y), qc(x), tau) >= 0real);
    }
}

pub open spec fn qa(y: Seq<F>) -> real { soc_resid(y).v() }
pub open spec fn qb(x: Seq<F>, y: Seq<F>) -> real {
    2real * (x[0].v() * y[0].v() - vm_dot(x.subrange(1, x.len() as int), y.subrange(1, y.len() as int)).v())
}
pub open spec fn qc(x: Seq<F>) -> real { rmax(0real, soc_resid(x).v()) }
pub open spec fn quad(a: real, b: real, c: real, t: real) -> real { a * t * t + b * t + c }

// the two real roots r1 = 2c/t, r2 = t/(2a) (t = -b -/+ sqrt(d)) factor the quadratic
pub proof fn lemma_roots(a: real, b: real, c: real, s: real, t: real, r1: real, r2: real, tau: real)
    requires a != 0real, t != 0real, s * s == b * b - 4real * a * c, t == -b - s || t == -b + s,
        r1 * t == 2real * c, r2 * (2real * a) == t,
    ensures quad(a, b, c, tau) == a * (tau - r1) * (tau - r2), a * r1 * r2 == c,
{
    // t is a root of  t^2 + 2 b t + 4 a c
    let bs = b * s; let ss = s * s; let bb = b * b;
    assert(t * t == bb + 2real * bs + ss || t * t == bb - 2real * bs + ss) by(nonlinear_arith)
        requires t == -b - s || t == -b + s, bs == b * s, ss == s * s, bb == b * b;
    assert(b * t == -bb - bs || b * t == -bb + bs) by(nonlinear_arith)
        requires t == -b - s || t == -b + s, bs == b * s, bb == b * b;
    assert((t == -b - s ==> t * t == bb + 2real * bs + ss && b * t == -bb - bs) && (t == -b + s ==> t * t == bb - 2real * bs + ss && b * t == -bb + bs)) by(nonlinear_arith)
        requires t == -b - s || t == -b + s, bs == b * s, ss == s * s, bb == b * b;
    let ac = a * c;
    assert(4real * a * c == 4real * ac) by(nonlinear_arith) requires ac == a * c;
    assert(ss == bb - 4real * ac);
    assert(t * t + 2real * (b * t) + 4real * ac == 0real);
    // Vieta
    let p = a * r2;             // = t / 2
    assert(2real * p == t) by(nonlinear_arith) requires r2 * (2real * a) == t, p == a * r2;
    let pr = p * r1;            // = a r1 r2
    assert(2real * pr == r1 * t) by(nonlinear_arith) requires 2real * p == t, pr == p * r1;
    assert(pr == c);
    assert(a * r1 * r2 == pr) by(nonlinear_arith) requires p == a * r2, pr == p * r1;
    let m = a * r1;             // = -(t + 2b)/2
    assert(m * t == 2real * ac) by(nonlinear_arith) requires r1 * t == 2real * c, m == a * r1, ac == a * c;
    assert((2real * m + t + 2real * b) * t == 0real) by(nonlinear_arith)
        requires m * t == 2real * ac, t * t + 2real * (b * t) + 4real * ac == 0real;
    assert(2real * m + t + 2real * b == 0real) by(nonlinear_arith) requires (2real * m + t + 2real * b) * t == 0real, t != 0real;
    assert(m + p == -b);
    // expand a (tau - r1)(tau - r2) = a tau^2 - (m + p) tau + pr
    let tt = tau * tau;
    let at = a * tau;
    let u = a * (tau - r1);
    assert(u == at - m) by(nonlinear_arith) requires u == a * (tau - r1), at == a * tau, m == a * r1;
    let att = at * tau;
    assert(att == a * tt) by(nonlinear_arith) requires att == at * tau, at == a * tau, tt == tau * tau;
    let atr2 = at * r2;
    assert(atr2 == p * tau) by(nonlinear_arith) requires atr2 == at * r2, at == a * tau, p == a * r2;
    let mr2 = m * r2;
    assert(mr2 == pr) by(nonlinear_arith) requires mr2 == m * r2, m == a * r1, p == a * r2, pr == p * r1;
    let mt = m * tau;
    assert(u * (tau - r2) == att - atr2 - mt + mr2) by(nonlinear_arith)
        requires u == at - m, att == at * tau, atr2 == at * r2, mt == m * tau, mr2 == m * r2;
    assert(a * (tau - r1) * (tau - r2) == u * (tau - r2));
    assert((m + p) * tau == mt + p * tau) by(nonlinear_arith) requires mt == m * tau;
    assert(a * (tau - r1) * (tau - r2) == a * tt - (m + p) * tau + pr);
    assert(a * tau * tau == a * tt) by(nonlinear_arith) requires tt == tau * tau;
    assert((m + p) * tau == -(b * tau)) by(nonlinear_arith) requires m + p == -b;
    assert(quad(a, b, c, tau) == a * tt + b * tau + c);
}
// on [0, rho] with rho below every nonnegative root, the quadratic keeps the sign of q(0) = c > 0
pub proof fn lemma_safe_between(a: real, c: real, r1: real, r2: real, rho: real, tau: real)
    requires a != 0real, c > 0real, a * r1 * r2 == c, 0real <= tau <= rho,
        r1 >= 0real ==> rho <= r1, r2 >= 0real ==> rho <= r2,
    ensures a * (tau - r1) * (tau - r2) >= 0real,
{
    if a > 0real {
        assert(r1 * r2 > 0real) by(nonlinear_arith) requires a > 0real, c > 0real, a * r1 * r2 == c;
        if r1 < 0real {
            assert(r2 < 0real) by(nonlinear_arith) requires r1 * r2 > 0real, r1 < 0real;
            assert(a * (tau - r1) * (tau - r2) >= 0real) by(nonlinear_arith) requires a > 0real, tau >= 0real, r1 < 0real, r2 < 0real;
        } else {
            assert(r1 > 0real && r2 > 0real) by(nonlinear_arith) requires r1 * r2 > 0real, r1 >= 0real;
            assert(a * (tau - r1) * (tau - r2) >= 0real) by(nonlinear_arith) requires a > 0real, tau <= r1, tau <= r2;
        }
    } else {
        assert(r1 * r2 < 0real) by(nonlinear_arith) requires a < 0real, c > 0real, a * r1 * r2 == c;
        if r1 < 0real {
            assert(r2 > 0real) by(nonlinear_arith) requires r1 * r2 < 0real, r1 < 0real;
            assert(a * (tau - r1) * (tau - r2) >= 0real) by(nonlinear_arith) requires a < 0real, tau >= 0real, r1 < 0real, tau <= r2;
        } else {
            assert(r1 > 0real && r2 < 0real) by(nonlinear_arith) requires r1 * r2 < 0real, r1 >= 0real;
            assert(a * (tau - r1) * (tau - r2) >= 0real) by(nonlinear_arith) requires a < 0real, tau >= 0real, r2 < 0real, tau <= r1;
        }
    }
}
pub proof fn lemma_no_roots(a: real, b: real, c: real, tau: real)
    requires c >= 0real, tau >= 0real, (a > 0real && b > 0real) || b * b - 4real * a * c < 0real,
    ensures quad(a, b, c, tau) >= 0real,
{
    if a > 0real && b > 0real {
        assert(a * tau * tau + b * tau + c >= 0real) by(nonlinear_arith) requires a > 0real, b > 0real, c >= 0real, tau >= 0real;
    } else {
        assert(a > 0real) by(nonlinear_arith) requires b * b - 4real * a * c < 0real, c >= 0real;
        assert(4real * a * (a * tau * tau + b * tau + c) == (2real * a * tau + b) * (2real * a * tau + b) - (b * b - 4real * a * c)) by(nonlinear_arith);
        assert((2real * a * tau + b) * (2real * a * tau + b) >= 0real) by(nonlinear_arith);
        assert(a * tau * tau + b * tau + c >= 0real) by(nonlinear_arith)
            requires a > 0real, 4real * a * (a * tau * tau + b * tau + c) > 0real;
    }
}

//@fn file=src/solver/core/cones/socone.rs name=_step_length_soc_component rules=R1,R2 ret=r
//@contract
    requires x@.len() >= 1, y@.len() == x@.len(), alphamax.v() >= 0real,
        // C15: "every interior point": x is strictly inside the cone
        x@[0].v() > 0real, soc_resid(x@).v() > 0real,
    ensures
        // never exceeds the requested maximum
        r.v() <= alphamax.v(),
        // never leaves the cone when taken: the scalar part stays nonnegative ...
        r.v() >= 0real ==> x@[0].v() + r.v() * y@[0].v() >= 0real,
        // ... and the cone residual q(t) = a t^2 + b t + c stays nonnegative on the whole segment [0, r]
        seg_quad_ok(x@, y@, r.v()),
        // C15: hence x + tau y is in the cone for every tau in [0, r] (lemma_quad_is_resid: q(tau) IS the residual of x + tau y)
        seg_in_cone(x@, y@, r.v()),
//@pre
    broadcast use real_arith, ax_sqrt, ax_lit4;
    let ghost amax0 = alphamax.v();
//@after "let d = b * b - four * a * c"
    proof {
        assert(a.v() == qa(y@) && b.v() == qb(x@, y@) && c.v() == qc(x@));
        assert(c.v() > 0real);
        assert(d.v() == b.v() * b.v() - 4real * a.v() * c.v());
        // the cap on the scalar part
        let x0 = x@[0].v(); let y0 = y@[0].v();
        if y0 < 0real {
            assert(x0 + alphamax.v() * y0 >= 0real) by(nonlinear_arith) requires alphamax.v() <= (-x0) / y0, y0 < 0real;
        }
        assert(alphamax.v() >= 0real) by {
            if y0 < 0real { assert((-x0) / y0 > 0real) by(nonlinear_arith) requires x0 > 0real, y0 < 0real; }
        }
        if y0 >= 0real {
            assert(x0 + alphamax.v() * y0 >= 0real) by(nonlinear_arith) requires alphamax.v() >= 0real, y0 >= 0real, x0 > 0real;
        }
    }
//@before "if (a > F::zero() && b > F::zero()) || d < F::zero()"
    proof {
        // single-root case a == 0: q(t) = b t + c
        if a.v() == 0real {
            let bv = b.v(); let cv = c.v();
            let rho = if bv >= 0real { alphamax.v() } else { rmin(alphamax.v(), (-cv) / bv) };
            assert forall|tau: real| 0real <= tau <= rho implies #[trigger] quad(qa(y@), qb(x@, y@), qc(x@), tau) >= 0real by {
                if bv >= 0real {
                    assert(bv * tau + cv >= 0real) by(nonlinear_arith) requires bv >= 0real, tau >= 0real, cv > 0real;
                } else {
                    assert(bv * tau + cv >= 0real) by(nonlinear_arith) requires bv < 0real, tau <= (-cv) / bv;
                }
                assert(0real * tau * tau == 0real) by(nonlinear_arith);
            }
            if bv < 0real { assert((-cv) / bv > 0real) by(nonlinear_arith) requires cv > 0real, bv < 0real; }
            let x0 = x@[0].v(); let y0 = y@[0].v();
            assert(x0 + rho * y0 >= 0real) by(nonlinear_arith)
                requires 0real <= rho <= alphamax.v(), x0 > 0real, x0 + alphamax.v() * y0 >= 0real;
            assert(seg_quad_ok(x@, y@, rho));
            lemma_seg(x@, y@, rho);
        }
        if (a.v() > 0real && b.v() > 0real) || d.v() < 0real {
            assert forall|tau: real| 0real <= tau <= alphamax.v() implies #[trigger] quad(qa(y@), qb(x@, y@), qc(x@), tau) >= 0real by {
                lemma_no_roots(a.v(), b.v(), c.v(), tau);
            }
            assert(seg_quad_ok(x@, y@, alphamax.v()));
            lemma_seg(x@, y@, alphamax.v());
        }
    }
//@after "let r2 = if r2 < F::zero()"
    proof {
        let av = a.v(); let bv = b.v(); let cv = c.v(); let s = f_sqrt(d).v();
        assert(d.v() >= 0real && s >= 0real && s * s == d.v());
        let tv = t.v();
        assert(tv == -bv - s || tv == -bv + s);
        assert(tv != 0real) by {
            if tv == 0real {
                assert(bv * bv == s * s) by(nonlinear_arith) requires 0real == -bv - s || 0real == -bv + s;
                assert(av * cv == 0real) by(nonlinear_arith) requires bv * bv == bv * bv - 4real * av * cv;
                assert(false) by(nonlinear_arith) requires av * cv == 0real, av != 0real, cv > 0real;
            }
        }
        let rr1 = (2real * cv) / tv; let rr2 = tv / (2real * av);
        let rho = rmin(alphamax.v(), rmin(r1.v(), r2.v()));
        assert forall|tau: real| 0real <= tau <= rho implies #[trigger] quad(qa(y@), qb(x@, y@), qc(x@), tau) >= 0real by {
            assert(rr1 * tv == 2real * cv) by(nonlinear_arith) requires rr1 == (2real * cv) / tv, tv != 0real;
            assert(rr2 * (2real * av) == tv) by(nonlinear_arith) requires rr2 == tv / (2real * av), av != 0real;
            lemma_roots(av, bv, cv, s, tv, rr1, rr2, tau);
            lemma_safe_between(av, cv, rr1, rr2, rho, tau);
        }
        assert(rho <= alphamax.v());
        let x0 = x@[0].v(); let y0 = y@[0].v();
        if rho >= 0real {
            assert(x0 + rho * y0 >= 0real) by(nonlinear_arith)
                requires 0real <= rho <= alphamax.v(), x0 > 0real, x0 + alphamax.v() * y0 >= 0real;
        }
        assert(seg_quad_ok(x@, y@, rho));
        lemma_seg(x@, y@, rho);
    }
//@end

// ------------------------------------------------------------------ identity scaling of the second-order cone (C11)
//@include prelude/std_assumed.rs
//@struct file=src/solver/core/cones/socone.rs name=SecondOrderConeSparseData
//@struct file=src/solver/core/cones/socone.rs name=SecondOrderCone rules=R2
pub open spec fn unit_vec(w: Seq<F>, first: F) -> bool {
    w.len() >= 1 && w[0] == first && forall|i: int| 1 <= i < w.len() ==> #[trigger] w[i] == f_zero()
}
impl SecondOrderCone<F> {
//@fn file=src/solver/core/cones/socone.rs in="Cone<T> for SecondOrderCone<T>" name=set_identity_scaling rules=R1,R2
//@contract
    requires old(self).w@.len() >= 1,
        old(self).sparse_data matches Some(sd) ==> sd.u@.len() >= 1,
    ensures
        // W = I:  w = e1, eta = 1
        final(self).w@.len() == old(self).w@.len(), unit_vec(final(self).w@, f_one()), final(self).eta == f_one(),
        final(self).dim == old(self).dim, final(self).lambda@ == old(self).lambda@,
        final(self).sparse_data is Some == old(self).sparse_data is Some,
        // C11: the sparse expansion written into the KKT matrix is reset to the same operator (H = I):
        // d = 1/2, u = e1/sqrt(2), v = 0  -- every entry of v, not just the first
        final(self).sparse_data matches Some(sd) ==> {
            &&& sd.d == f_lit(0.5)
            &&& sd.u@.len() == old(self).sparse_data->Some_0.u@.len() && unit_vec(sd.u@, f_frac_1_sqrt_2())
            &&& sd.v@.len() == old(self).sparse_data->Some_0.v@.len() && forall|i: int| 0 <= i < sd.v@.len() ==> #[trigger] sd.v@[i] == f_zero()
        },
//@end
}

//@enum file=src/solver/core/cones/mod.rs name=PrimalOrDualCone rules=R12 derive="PartialEq, Eq, Clone, Copy, Structural"
//@struct file=src/solver/implementations/default/settings.rs name=DefaultSettings rules=R1f
//@type file=src/solver/core/settings.rs name=CoreSettings
impl SecondOrderCone<F> {
//@fn file=src/solver/core/cones/socone.rs in="Cone<T> for SecondOrderCone<T>" name=step_length rules=R1,R2 ret=r
//@contract
    requires
        z@.len() >= 1, dz@.len() == z@.len(), s@.len() >= 1, ds@.len() == s@.len(), alphamax.v() >= 0real,
        // C15 "every interior point": z and s strictly inside the cone
        z@[0].v() > 0real, soc_resid(z@).v() > 0real, s@[0].v() > 0real, soc_resid(s@).v() > 0real,
    ensures
        // C15 (second-order cone): neither step exceeds alpha_max, and z + t dz resp. s + t ds stays in the cone for every t up to the step
        r.0.v() <= alphamax.v(), r.1.v() <= alphamax.v(),
        seg_in_cone(z@, dz@, r.0.v()), seg_in_cone(s@, ds@, r.1.v()),
        *final(self) == *old(self),
//@end
//@fn file=src/solver/core/cones/socone.rs in="Cone<T> for SecondOrderCone<T>" name=margins rules=R1,R2 ret=r params=z,pd
//@contract
    requires old(z)@.len() >= 1,
    ensures
        // C15 / C07: the margin of a point of the second-order cone is z0 - |(z1, .., z_{n-1})| (all of the tail)
        final(z)@ == old(z)@,
        r.0 == f_sub(old(z)@[0], vm_norm(old(z)@.subrange(1, old(z)@.len() as int))),
        r.1 == f_max(f_zero(), r.0),
//@end
//@fn file=src/solver/core/cones/socone.rs in="Cone<T> for SecondOrderCone<T>" name=scaled_unit_shift rules=R1,R2 params=z,alpha,pd
//@contract
    requires old(z)@.len() >= 1,
    ensures
        // the shift moves along the cone's identity e = (1, 0, .., 0) only
        final(z)@ == old(z)@.update(0, f_add(old(z)@[0], alpha)),
//@end
}

} // verus!
fn main() {}
