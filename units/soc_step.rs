// unit `soc_step` : second-order-cone step length (C15, C07).  float model: F-real.
// The cone membership of x + t*y is read through the quadratic  q(t) = a t^2 + b t + c  with
//   a = resid(y), b = 2 (x0 y0 - <x1, y1>), c = max(0, resid(x)),  resid(z) = z0^2 - |z1|^2   (mathematical identity, ASSUMED)
// and the scalar part x0 + t y0 >= 0.
use vstd::prelude::*;
verus! {
//@include prelude/float_opaque.rs
//@include prelude/float_real_axioms.rs
//@include prelude/vecmath_assumed.rs
// F-real reading of sqrt (ASSUMED): for d >= 0 the result is the nonnegative root
pub broadcast proof fn ax_sqrt(a: F) requires a.v() >= 0real
    ensures (#[trigger] f_sqrt(a)).v() >= 0real, f_sqrt(a).v() * f_sqrt(a).v() == a.v() { admit(); }
pub broadcast proof fn ax_lit4() ensures #[trigger] f_lit(4.0f64).v() == 4real { admit(); }

pub uninterp spec fn soc_resid(z: Seq<F>) -> F;
// ASSUMED contract of _soc_residual ((z0 - |z1|)(z0 + |z1|); norm is a fold): it returns the cone residual
#[verifier::external_body]
fn _soc_residual(z: &[F]) -> (r: F) ensures r == soc_resid(z@) { unimplemented!() }

pub open spec fn qa(y: Seq<F>) -> real { soc_resid(y).v() }
pub open spec fn qb(x: Seq<F>, y: Seq<F>) -> real {
    2real * (x[0].v() * y[0].v() - vm_dot(x.subrange(1, x.len() as int), y.subrange(1, y.len() as int)).v())
}
pub open spec fn qc(x: Seq<F>) -> real { rmax(0real, soc_resid(x).v()) }
pub open spec fn quad(a: real, b: real, c: real, t: real) -> real { a * t * t + b * t + c }

// the two real roots r1 = 2c/t, r2 = t/(2a) (t = -b -/+ sqrt(d)) factor the quadratic
pub proof fn lemma_roots(a: real, b: real, c: real, s: real, t: real, r1: real, r2: real, tau: real)
    requires a != 0real, t != 0real, s * s == b * b - 4real * a * c, t == -b - s || t == -b + s,
        r1 * t == 2real * c, r2 * (2real * a) == t,
    ensures quad(a, b, c, tau) == a * (tau - r1) * (tau - r2), a * r1 * r2 == c,
{
    // t is a root of  t^2 + 2 b t + 4 a c
    let bs = b * s; let ss = s * s; let bb = b * b;
    assert(t * t == bb + 2real * bs + ss || t * t == bb - 2real * bs + ss) by(nonlinear_arith)
        requires t == -b - s || t == -b + s, bs == b * s, ss == s * s, bb == b * b;
    assert(b * t == -bb - bs || b * t == -bb + bs) by(nonlinear_arith)
        requires t == -b - s || t == -b + s, bs == b * s, bb == b * b;
    assert((t == -b - s ==> t * t == bb + 2real * bs + ss && b * t == -bb - bs) && (t == -b + s ==> t * t == bb - 2real * bs + ss && b * t == -bb + bs)) by(nonlinear_arith)
        requires t == -b - s || t == -b + s, bs == b * s, ss == s * s, bb == b * b;
    let ac = a * c;
    assert(4real * a * c == 4real * ac) by(nonlinear_arith) requires ac == a * c;
    assert(ss == bb - 4real * ac);
    assert(t * t + 2real * (b * t) + 4real * ac == 0real);
    // Vieta
    let p = a * r2;             // = t / 2
    assert(2real * p == t) by(nonlinear_arith) requires r2 * (2real * a) == t, p == a * r2;
    let pr = p * r1;            // = a r1 r2
    assert(2real * pr == r1 * t) by(nonlinear_arith) requires 2real * p == t, pr == p * r1;
    assert(pr == c);
    assert(a * r1 * r2 == pr) by(nonlinear_arith) requires p == a * r2, pr == p * r1;
    let m = a * r1;             // = -(t + 2b)/2
    assert(m * t == 2real * ac) by(nonlinear_arith) requires r1 * t == 2real * c, m == a * r1, ac == a * c;
    assert((2real * m + t + 2real * b) * t == 0real) by(nonlinear_arith)
        requires m * t == 2real * ac, t * t + 2real * (b * t) + 4real * ac == 0real;
    assert(2real * m + t + 2real * b == 0real) by(nonlinear_arith) requires (2real * m + t + 2real * b) * t == 0real, t != 0real;
    assert(m + p == -b);
    // expand a (tau - r1)(tau - r2) = a tau^2 - (m + p) tau + pr
    let tt = tau * tau;
    let at = a * tau;
    let u = a * (tau - r1);
    assert(u == at - m) by(nonlinear_arith) requires u == a * (tau - r1), at == a * tau, m == a * r1;
    let att = at * tau;
    assert(att == a * tt) by(nonlinear_arith) requires att == at * tau, at == a * tau, tt == tau * tau;
    let atr2 = at * r2;
    assert(atr2 == p * tau) by(nonlinear_arith) requires atr2 == at * r2, at == a * tau, p == a * r2;
    let mr2 = m * r2;
    assert(mr2 == pr) by(nonlinear_arith) requires mr2 == m * r2, m == a * r1, p == a * r2, pr == p * r1;
    let mt = m * tau;
    assert(u * (tau - r2) == att - atr2 - mt + mr2) by(nonlinear_arith)
        requires u == at - m, att == at * tau, atr2 == at * r2, mt == m * tau, mr2 == m * r2;
    assert(a * (tau - r1) * (tau - r2) == u * (tau - r2));
    assert((m + p) * tau == mt + p * tau) by(nonlinear_arith) requires mt == m * tau;
    assert(a * (tau - r1) * (tau - r2) == a * tt - (m + p) * tau + pr);
    assert(a * tau * tau == a * tt) by(nonlinear_arith) requires tt == tau * tau;
    assert((m + p) * tau == -(b * tau)) by(nonlinear_arith) requires m + p == -b;
    assert(quad(a, b, c, tau) == a * tt + b * tau + c);
}
// on [0, rho] with rho below every nonnegative root, the quadratic keeps the sign of q(0) = c > 0
pub proof fn lemma_safe_between(a: real, c: real, r1: real, r2: real, rho: real, tau: real)
    requires a != 0real, c > 0real, a * r1 * r2 == c, 0real <= tau <= rho,
        r1 >= 0real ==> rho <= r1, r2 >= 0real ==> rho <= r2,
    ensures a * (tau - r1) * (tau - r2) >= 0real,
{
    if a > 0real {
        assert(r1 * r2 > 0real) by(nonlinear_arith) requires a > 0real, c > 0real, a * r1 * r2 == c;
        if r1 < 0real {
            assert(r2 < 0real) by(nonlinear_arith) requires r1 * r2 > 0real, r1 < 0real;
            assert(a * (tau - r1) * (tau - r2) >= 0real) by(nonlinear_arith) requires a > 0real, tau >= 0real, r1 < 0real, r2 < 0real;
        } else {
            assert(r1 > 0real && r2 > 0real) by(nonlinear_arith) requires r1 * r2 > 0real, r1 >= 0real;
            assert(a * (tau - r1) * (tau - r2) >= 0real) by(nonlinear_arith) requires a > 0real, tau <= r1, tau <= r2;
        }
    } else {
        assert(r1 * r2 < 0real) by(nonlinear_arith) requires a < 0real, c > 0real, a * r1 * r2 == c;
        if r1 < 0real {
            assert(r2 > 0real) by(nonlinear_arith) requires r1 * r2 < 0real, r1 < 0real;
            assert(a * (tau - r1) * (tau - r2) >= 0real) by(nonlinear_arith) requires a < 0real, tau >= 0real, r1 < 0real, tau <= r2;
        } else {
            assert(r1 > 0real && r2 < 0real) by(nonlinear_arith) requires r1 * r2 < 0real, r1 >= 0real;
            assert(a * (tau - r1) * (tau - r2) >= 0real) by(nonlinear_arith) requires a < 0real, tau >= 0real, r2 < 0real, tau <= r1;
        }
    }
}
pub proof fn lemma_no_roots(a: real, b: real, c: real, tau: real)
    requires c >= 0real, tau >= 0real, (a > 0real && b > 0real) || b * b - 4real * a * c < 0real,
    ensures quad(a, b, c, tau) >= 0real,
{
    if a > 0real && b > 0real {
        assert(a * tau * tau + b * tau + c >= 0real) by(nonlinear_arith) requires a > 0real, b > 0real, c >= 0real, tau >= 0real;
    } else {
        assert(a > 0real) by(nonlinear_arith) requires b * b - 4real * a * c < 0real, c >= 0real;
        assert(4real * a * (a * tau * tau + b * tau + c) == (2real * a * tau + b) * (2real * a * tau + b) - (b * b - 4real * a * c)) by(nonlinear_arith);
        assert((2real * a * tau + b) * (2real * a * tau + b) >= 0real) by(nonlinear_arith);
        assert(a * tau * tau + b * tau + c >= 0real) by(nonlinear_arith)
            requires a > 0real, 4real * a * (a * tau * tau + b * tau + c) > 0real;
    }
}

//@fn file=src/solver/core/cones/socone.rs name=_step_length_soc_component rules=R1,R2 ret=r
//@contract
    requires x@.len() >= 1, y@.len() == x@.len(), alphamax.v() >= 0real,
        // C15: "every interior point": x is strictly inside the cone
        x@[0].v() > 0real, soc_resid(x@).v() > 0real,
    ensures
        // never exceeds the requested maximum
        r.v() <= alphamax.v(),
        // never leaves the cone when taken: the scalar part stays nonnegative ...
        r.v() >= 0real ==> x@[0].v() + r.v() * y@[0].v() >= 0real,
        // ... and the cone residual q(t) = a t^2 + b t + c stays nonnegative on the whole segment [0, r]
        forall|tau: real| 0real <= tau <= r.v() ==> #[trigger] quad(qa(y@), qb(x@, y@), qc(x@), tau) >= 0real,
//@pre
    broadcast use real_arith, ax_sqrt, ax_lit4;
    let ghost amax0 = alphamax.v();
//@after "let d = b * b - four * a * c"
    proof {
        assert(a.v() == qa(y@) && b.v() == qb(x@, y@) && c.v() == qc(x@));
        assert(c.v() > 0real);
        assert(d.v() == b.v() * b.v() - 4real * a.v() * c.v());
        // the cap on the scalar part
        let x0 = x@[0].v(); let y0 = y@[0].v();
        if y0 < 0real {
            assert(x0 + alphamax.v() * y0 >= 0real) by(nonlinear_arith) requires alphamax.v() <= (-x0) / y0, y0 < 0real;
        }
        assert(alphamax.v() >= 0real) by {
            if y0 < 0real { assert((-x0) / y0 > 0real) by(nonlinear_arith) requires x0 > 0real, y0 < 0real; }
        }
        if y0 >= 0real {
            assert(x0 + alphamax.v() * y0 >= 0real) by(nonlinear_arith) requires alphamax.v() >= 0real, y0 >= 0real, x0 > 0real;
        }
    }
//@before "if (a > F::zero() && b > F::zero()) || d < F::zero()"
    proof {
        // single-root case a == 0: q(t) = b t + c
        if a.v() == 0real {
            let bv = b.v(); let cv = c.v();
            let rho = if bv >= 0real { alphamax.v() } else { rmin(alphamax.v(), (-cv) / bv) };
            assert forall|tau: real| 0real <= tau <= rho implies #[trigger] quad(qa(y@), qb(x@, y@), qc(x@), tau) >= 0real by {
                if bv >= 0real {
                    assert(bv * tau + cv >= 0real) by(nonlinear_arith) requires bv >= 0real, tau >= 0real, cv > 0real;
                } else {
                    assert(bv * tau + cv >= 0real) by(nonlinear_arith) requires bv < 0real, tau <= (-cv) / bv;
                }
                assert(0real * tau * tau == 0real) by(nonlinear_arith);
            }
            if bv < 0real { assert((-cv) / bv > 0real) by(nonlinear_arith) requires cv > 0real, bv < 0real; }
            let x0 = x@[0].v(); let y0 = y@[0].v();
            assert(x0 + rho * y0 >= 0real) by(nonlinear_arith)
                requires 0real <= rho <= alphamax.v(), x0 > 0real, x0 + alphamax.v() * y0 >= 0real;
        }
        if (a.v() > 0real && b.v() > 0real) || d.v() < 0real {
            assert forall|tau: real| 0real <= tau <= alphamax.v() implies #[trigger] quad(qa(y@), qb(x@, y@), qc(x@), tau) >= 0real by {
                lemma_no_roots(a.v(), b.v(), c.v(), tau);
            }
        }
    }
//@after "let r2 = if r2 < F::zero()"
    proof {
        let av = a.v(); let bv = b.v(); let cv = c.v(); let s = f_sqrt(d).v();
        assert(d.v() >= 0real && s >= 0real && s * s == d.v());
        let tv = t.v();
        assert(tv == -bv - s || tv == -bv + s);
        assert(tv != 0real) by {
            if tv == 0real {
                assert(bv * bv == s * s) by(nonlinear_arith) requires 0real == -bv - s || 0real == -bv + s;
                assert(av * cv == 0real) by(nonlinear_arith) requires bv * bv == bv * bv - 4real * av * cv;
                assert(false) by(nonlinear_arith) requires av * cv == 0real, av != 0real, cv > 0real;
            }
        }
        let rr1 = (2real * cv) / tv; let rr2 = tv / (2real * av);
        let rho = rmin(alphamax.v(), rmin(r1.v(), r2.v()));
        assert forall|tau: real| 0real <= tau <= rho implies #[trigger] quad(qa(y@), qb(x@, y@), qc(x@), tau) >= 0real by {
            assert(rr1 * tv == 2real * cv) by(nonlinear_arith) requires rr1 == (2real * cv) / tv, tv != 0real;
            assert(rr2 * (2real * av) == tv) by(nonlinear_arith) requires rr2 == tv / (2real * av), av != 0real;
            lemma_roots(av, bv, cv, s, tv, rr1, rr2, tau);
            lemma_safe_between(av, cv, rr1, rr2, rho, tau);
        }
        assert(rho <= alphamax.v());
        let x0 = x@[0].v(); let y0 = y@[0].v();
        if rho >= 0real {
            assert(x0 + rho * y0 >= 0real) by(nonlinear_arith)
                requires 0real <= rho <= alphamax.v(), x0 > 0real, x0 + alphamax.v() * y0 >= 0real;
        }
    }
//@end

// ------------------------------------------------------------------ identity scaling of the second-order cone (C11)
//@include prelude/std_assumed.rs
//@struct file=src/solver/core/cones/socone.rs name=SecondOrderConeSparseData
//@struct file=src/solver/core/cones/socone.rs name=SecondOrderCone rules=R2
pub open spec fn unit_vec(w: Seq<F>, first: F) -> bool {
    w.len() >= 1 && w[0] == first && forall|i: int| 1 <= i < w.len() ==> #[trigger] w[i] == f_zero()
}
impl SecondOrderCone<F> {
//@fn file=src/solver/core/cones/socone.rs in="Cone<T> for SecondOrderCone<T>" name=set_identity_scaling rules=R1,R2
//@contract
    requires old(self).w@.len() >= 1,
        old(self).sparse_data matches Some(sd) ==> sd.u@.len() >= 1,
    ensures
        // W = I:  w = e1, eta = 1
        final(self).w@.len() == old(self).w@.len(), unit_vec(final(self).w@, f_one()), final(self).eta == f_one(),
        final(self).dim == old(self).dim, final(self).lambda@ == old(self).lambda@,
        final(self).sparse_data is Some == old(self).sparse_data is Some,
        // C11: the sparse expansion written into the KKT matrix is reset to the same operator (H = I):
        // d = 1/2, u = e1/sqrt(2), v = 0  -- every entry of v, not just the first
        final(self).sparse_data matches Some(sd) ==> {
            &&& sd.d == f_lit(0.5)
            &&& sd.u@.len() == old(self).sparse_data->Some_0.u@.len() && unit_vec(sd.u@, f_frac_1_sqrt_2())
            &&& sd.v@.len() == old(self).sparse_data->Some_0.v@.len() && forall|i: int| 0 <= i < sd.v@.len() ==> #[trigger] sd.v@[i] == f_zero()
        },
//@end
}

//@enum file=src/solver/core/cones/mod.rs name=PrimalOrDualCone rules=R12 derive="PartialEq, Eq, Clone, Copy, Structural"
impl SecondOrderCone<F> {
//@fn file=src/solver/core/cones/socone.rs in="Cone<T> for SecondOrderCone<T>" name=margins rules=R1,R2 ret=r params=z,pd
//@contract
    requires old(z)@.len() >= 1,
    ensures
        // C15 / C07: the margin of a point of the second-order cone is z0 - |(z1, .., z_{n-1})| (all of the tail)
        final(z)@ == old(z)@,
        r.0 == f_sub(old(z)@[0], vm_norm(old(z)@.subrange(1, old(z)@.len() as int))),
        r.1 == f_max(f_zero(), r.0),
//@end
//@fn file=src/solver/core/cones/socone.rs in="Cone<T> for SecondOrderCone<T>" name=scaled_unit_shift rules=R1,R2 params=z,alpha,pd
//@contract
    requires old(z)@.len() >= 1,
    ensures
        // the shift moves along the cone's identity e = (1, 0, .., 0) only
        final(z)@ == old(z)@.update(0, f_add(old(z)@[0], alpha)),
//@end
}

} // verus!
fn main() {}
