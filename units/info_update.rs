// unit `info_update` : the figures reported by DefaultInfo::update against their documented definitions (C01 C02 C03)
// float model: F-real (exact real arithmetic; NaN / inf / rounding not modelled)
use vstd::prelude::*;
verus! {
//@include prelude/float_opaque.rs
//@include prelude/float_real_axioms.rs
//@include prelude/vecmath_assumed.rs

// norms are nonnegative reals (ASSUMED, part of the F-real model of the vector kernels)
pub broadcast proof fn ax_norm_scaled_nonneg(a: Seq<F>, b: Seq<F>) ensures #[trigger] vm_norm_scaled(a, b).v() >= 0real { admit(); }
pub broadcast proof fn ax_norm_inf_scaled_nonneg(a: Seq<F>, b: Seq<F>) ensures #[trigger] vm_norm_inf_scaled(a, b).v() >= 0real { admit(); }

// opaque stand-ins for crate::timers (only the elapsed time is read, and stored in solve_time)
pub struct Duration { pub x: u64 }
impl Duration { #[verifier::external_body] pub fn as_secs_f64(&self) -> f64 { unimplemented!() } }
pub struct Timers { pub x: u64 }
impl Timers { #[verifier::external_body] pub fn total_time(&self) -> Duration { unimplemented!() } }
#[verifier::external_body]
pub struct PrintTarget { _p: u8 }

//@enum file=src/solver/core/solver.rs name=SolverStatus derive="PartialEq, Eq, Clone, Copy, Structural"
//@struct file=src/solver/implementations/default/info.rs name=DefaultInfo rules=R2 keep=mu,sigma,step_length,iterations,cost_primal,cost_dual,res_primal,res_dual,res_primal_inf,res_dual_inf,gap_abs,gap_rel,ktratio,prev_cost_primal,prev_cost_dual,prev_res_primal,prev_res_dual,prev_gap_abs,prev_gap_rel,solve_time,status,stream
//@struct file=src/solver/implementations/default/residuals.rs name=DefaultResiduals rules=R2
//@struct file=src/solver/implementations/default/variables.rs name=DefaultVariables rules=R2
//@struct file=src/solver/implementations/default/equilibration.rs name=DefaultEquilibrationData
//@struct file=src/solver/implementations/default/problemdata.rs name=DefaultProblemData keep=q,b,n,m,equilibration,normq,normb

// lengths as allocated by the constructors (n variables, m constraint rows)
pub open spec fn dims_ok(data: DefaultProblemData<F>, v: DefaultVariables<F>, r: DefaultResiduals<F>) -> bool {
    let e = data.equilibration;
    &&& e.d@.len() == v.x@.len() && e.dinv@.len() == v.x@.len()
    &&& e.e@.len() == v.z@.len() && e.einv@.len() == v.z@.len() && v.s@.len() == v.z@.len()
    &&& r.rx@.len() == v.x@.len() && r.rx_inf@.len() == v.x@.len() && r.Px@.len() == v.x@.len()
    &&& r.rz@.len() == v.z@.len() && r.rz_inf@.len() == v.z@.len()
    &&& data.q@.len() == v.x@.len() && data.b@.len() == v.z@.len()
}
// the cached / recomputed unscaled norms of the linear terms
pub open spec fn normq_of(d: DefaultProblemData<F>) -> F {
    match d.normq { Some(v) => v, None => f_mul(vm_norm_inf_scaled(d.q@, d.equilibration.dinv@), f_recip(d.equilibration.c)) }
}
pub open spec fn normb_of(d: DefaultProblemData<F>) -> F {
    match d.normb { Some(v) => v, None => vm_norm_inf_scaled(d.b@, d.equilibration.einv@) }
}

impl DefaultProblemData<F> {
//@fn file=src/solver/implementations/default/problemdata.rs in="impl<T> DefaultProblemData<T>" name=get_normq rules=R1 ret=r
//@contract
    requires old(self).q@.len() == old(self).equilibration.dinv@.len(),
    ensures r == normq_of(*old(self)),
        // C08: a cleared cache is recomputed from the current data and stored; a valid cache is returned as is
        *final(self) == (DefaultProblemData::<F> { normq: Some(r), ..*old(self) }),
//@end
//@fn file=src/solver/implementations/default/problemdata.rs in="impl<T> DefaultProblemData<T>" name=get_normb rules=R1 ret=r
//@contract
    requires old(self).b@.len() == old(self).equilibration.einv@.len(),
    ensures r == normb_of(*old(self)),
        *final(self) == (DefaultProblemData::<F> { normb: Some(r), ..*old(self) }),
//@end
//@fn file=src/solver/implementations/default/problemdata.rs in="impl<T> DefaultProblemData<T>" name=clear_normq rules=R1
//@contract
    ensures *final(self) == (DefaultProblemData::<F> { normq: None, ..*old(self) }),
//@end
//@fn file=src/solver/implementations/default/problemdata.rs in="impl<T> DefaultProblemData<T>" name=clear_normb rules=R1
//@contract
    ensures *final(self) == (DefaultProblemData::<F> { normb: None, ..*old(self) }),
//@end
}

impl DefaultInfo<F> {
//@fn file=src/solver/implementations/default/info.rs in="impl<T> Info<T> for DefaultInfo<T>" name=update rules=R1,R2
//@contract
    requires
        dims_ok(*old(data), *variables, *residuals),
        variables.tau.v() > 0real, old(data).equilibration.c.v() > 0real,
        normq_of(*old(data)).v() >= 0real, normb_of(*old(data)).v() >= 0real,
    ensures
        // frame: status, iteration count, the saved previous figures and the print target are untouched
        final(self).status == old(self).status, final(self).iterations == old(self).iterations,
        final(self).stream == old(self).stream, final(self).mu == old(self).mu,
        final(self).prev_res_primal == old(self).prev_res_primal, final(self).prev_res_dual == old(self).prev_res_dual,
        final(self).prev_gap_abs == old(self).prev_gap_abs, final(self).prev_gap_rel == old(self).prev_gap_rel,
        final(data).equilibration == old(data).equilibration,
        // the documented definitions (dot products are equilibration invariant; tau-normalised, c backed out)
        ({
            let tau = variables.tau.v(); let c = old(data).equilibration.c.v();
            let e = old(data).equilibration;
            let nx = vm_norm_scaled(variables.x@, e.d@).v();      // ||D x||
            let nz = vm_norm_scaled(variables.z@, e.e@).v();      // ||E z||
            let ns = vm_norm_scaled(variables.s@, e.einv@).v();   // ||E^-1 s||
            let nb = normb_of(*old(data)).v(); let nq = normq_of(*old(data)).v();
            // C03: obj_val = x'Px/2 + q'x,  obj_val_dual = -b'z - x'Px/2  (in user units)
            &&& final(self).cost_primal.v() == (residuals.dot_qx.v() / tau + residuals.dot_xPx.v() / (2real * tau * tau)) / c
            &&& final(self).cost_dual.v() == (-residuals.dot_bz.v() / tau - residuals.dot_xPx.v() / (2real * tau * tau)) / c
            // C01: relative primal / dual residuals
            &&& final(self).res_primal.v() == vm_norm_scaled(residuals.rz@, e.einv@).v() / tau / rmax(1real, nb + nx / tau + ns / tau)
            &&& final(self).res_dual.v() == vm_norm_scaled(residuals.rx@, e.dinv@).v() / (tau * c) / rmax(1real, nq + nx / tau + nz / (tau * c))
            // C02: infeasibility residuals (scale free: no tau)
            &&& final(self).res_primal_inf.v() == (vm_norm_scaled(residuals.rx_inf@, e.dinv@).v() / c) / rmax(1real, nz / c)
            &&& final(self).res_dual_inf.v() == rmax(vm_norm_scaled(residuals.Px@, e.dinv@).v() / rmax(1real, nx),
                                                      vm_norm_scaled(residuals.rz_inf@, e.einv@).v() / rmax(1real, nx + ns))
            // gaps and the kappa/tau ratio
            &&& final(self).gap_abs.v() == rabs(final(self).cost_primal.v() - final(self).cost_dual.v())
            &&& final(self).gap_rel.v() == final(self).gap_abs.v() / rmax(1real, rmin(rabs(final(self).cost_primal.v()), rabs(final(self).cost_dual.v())))
            &&& final(self).ktratio.v() == variables.kappa.v() / tau
        }),
//@pre
        broadcast use real_arith, ax_norm_scaled_nonneg, ax_norm_inf_scaled_nonneg;
//@after "self.solve_time ="
        proof {
            let tau = variables.tau.v(); let c = old(data).equilibration.c.v();
            let ti = tauinv.v(); let ci = cinv.v();
            assert(ti == 1real / tau && ci == 1real / c);
            let qx = residuals.dot_qx.v(); let bz = residuals.dot_bz.v(); let xpx = residuals.dot_xPx.v();
            assert(xpx * ti * ti / 2real == xpx / (2real * tau * tau)) by(nonlinear_arith) requires ti == 1real / tau, tau > 0real;
            assert((qx * ti + xpx * ti * ti / 2real) * ci == (qx / tau + xpx / (2real * tau * tau)) / c) by(nonlinear_arith)
                requires ti == 1real / tau, ci == 1real / c, tau > 0real, c > 0real, xpx * ti * ti / 2real == xpx / (2real * tau * tau);
            assert(((-bz) * ti - xpx * ti * ti / 2real) * ci == ((-bz) / tau - xpx / (2real * tau * tau)) / c) by(nonlinear_arith)
                requires ti == 1real / tau, ci == 1real / c, tau > 0real, c > 0real, xpx * ti * ti / 2real == xpx / (2real * tau * tau);
            let e = old(data).equilibration;
            let nx = vm_norm_scaled(variables.x@, e.d@).v(); let nz = vm_norm_scaled(variables.z@, e.e@).v(); let ns = vm_norm_scaled(variables.s@, e.einv@).v();
            assert(nx * ti == nx / tau) by(nonlinear_arith) requires ti == 1real / tau, tau > 0real;
            assert(ns * ti == ns / tau) by(nonlinear_arith) requires ti == 1real / tau, tau > 0real;
            assert(nz * ci * ti == nz / (tau * c)) by(nonlinear_arith) requires ti == 1real / tau, ci == 1real / c, tau > 0real, c > 0real;
            assert(nz * ci == nz / c) by(nonlinear_arith) requires ci == 1real / c, c > 0real;
            let nrz = vm_norm_scaled(residuals.rz@, e.einv@).v(); let nrx = vm_norm_scaled(residuals.rx@, e.dinv@).v(); let nrxi = vm_norm_scaled(residuals.rx_inf@, e.dinv@).v();
            assert(nrz * ti == nrz / tau) by(nonlinear_arith) requires ti == 1real / tau, tau > 0real;
            assert(nrx * ti * ci == nrx / (tau * c)) by(nonlinear_arith) requires ti == 1real / tau, ci == 1real / c, tau > 0real, c > 0real;
            assert(nrxi * ci == nrxi / c) by(nonlinear_arith) requires ci == 1real / c, c > 0real;
            assert(variables.kappa.v() * ti == variables.kappa.v() / tau) by(nonlinear_arith) requires ti == 1real / tau, tau > 0real;
        }
//@end
}

} // verus!
fn main() {}
