// unit `sparse_update` : `csc_update_sparsecone` of the two sparse-expandable cones (src/solver/core/kktsolvers/direct/quasidef/datamaps.rs),
// the function that writes the rank-2 / rank-3 expansion data of a cone into the KKT matrix AND the LDL engine's copy on every scaling
// update (C11: "the assembled KKT system is the intended matrix"; C08 / C12: both copies get the same values).  Unit kkt_new ASSUMES of
// it: pattern and lengths kept, only the slots recorded in the cone's map change; the values there are only NAMED (sx_update_rel).
// Float model: F-opaque (no algebra; data flow only).
//
// PROVED (real text, extracted; the function pointers `updateFcn` / `scaleFcn` through rule fnptr:, see ASSUMED)
//   SecondOrderCone::csc_update_sparsecone   with c = eta*eta:
//     * the calls made through the pointers are EXACTLY, in this order (ghost history `log` of the engine stand-in):
//         update(map.u <- sparse_data.u), update(map.v <- sparse_data.v), scale(map.u, -c), scale(map.v, -c), update(map.D <- [-c, +c]);
//     * hence (interpreted, for K.nzval and for the engine copy alike), when the recorded slots are pairwise distinct:
//         slot map.u[i] = sparse_data.u[i] * (-c),  slot map.v[i] = sparse_data.v[i] * (-c),  slot map.D[0] = -c,  slot map.D[1] = +c
//         (the scalar `sparse_data.d` is NOT written here: it enters through get_Hs / the Hs block);
//     * frame: pattern and lengths kept, every slot not recorded in the map keeps its value (= what kkt_new assumes).
//   GenPowerCone::csc_update_sparsecone   with c = sqrt(mu):
//     * calls: update(map.q <- data.q), update(map.r <- data.r), update(map.p <- data.p), scale(map.q, -c), scale(map.r, -c), scale(map.p, -c),
//         update(map.D <- [-1, -1, +1]);
//     * interpreted: slot map.q[i] = data.q[i] * (-c), map.r[i] = data.r[i] * (-c), map.p[i] = data.p[i] * (-c), D slots = (-1, -1, +1); frame as above.
// ASSUMED
//   * UpdateFcn / ScaleFcn (function-pointer types; rule fnptr: `updateFcn(..)` -> `updateFcn.call(..)`): `call` carries the contract the
//     two functions actually passed (`_update_values`, `_scale_values` of directldlkktsolver.rs) are PROVED against in units kkt_reg / kkt_new
//     (is_update / is_scaling on KKT.nzval and on the engine copy, pattern kept; scale requires an index list without repetition) plus a
//     ghost history entry (pure bookkeeping on the stand-in);
//   * BoxedDirectLDLSolver (trait object): ghost `copy` (its own values) and ghost `log` (history of pointer calls);
//   * recover_map (macro_rules! impl_map_recover: the function text exists only as a macro body with `$CONE` / `$MAP` meta-variables, which the
//     extractor cannot slice): returns the payload of the matching variant; the documented `panic!()` on the other variant is the precondition
//     `map is ..ExpansionMap` of the two functions here.  recover_map / recover_map_mut are therefore NOT under contract (out of reach).
//   * the distinctness of the recorded slots (`*_slots_distinct`) is a hypothesis of the interpreted clauses only (established by the fill
//     pass: soc_fill_post / genpow fill in unit csc_utils record consecutive, fresh positions); the scale calls need "no repetition inside
//     map.u / map.v / map.q / map.r / map.p" as a PRECONDITION (a repeated slot would be scaled twice) -- kkt_new's stand-in does not state it.
// ALREADY COVERED elsewhere (not repeated): SparseExpansionMapTrait::{pdim, nnz_vec, Dsigns} for both maps and for Vec<SparseExpansionMap>
//   (units kkt_assemble / kkt_new), csc_colcount_sparsecone / csc_fill_sparsecone (unit csc_utils), to_sparse_expansion (kkt_assemble).
// DROPPED: nothing of the two bodies.
// MUTATION ROUND (scratch copy, 13 wrong edits: SOC map.u scaled by +eta^2, eta not squared, u <- v, v update dropped, u scaled twice, D signs
//   swapped, extra scaling of D; GenPow D signs (-1,+1,-1), r <- q, p scaled by +sqrt(mu), mu not rooted, r scaling dropped, two commuting
//   calls reordered): all 13 fail the obligation of the edited function (the last one because the contract pins the order), 0 survivors.
#![allow(non_snake_case)]
use vstd::prelude::*;
verus! {
//@include prelude/float_opaque.rs
//@struct file=src/algebra/csc/core.rs name=CscMatrix
impl CscMatrix<F> {
    pub open spec fn same_pattern(&self, o: &Self) -> bool {
        self.m == o.m && self.n == o.n && self.colptr@ == o.colptr@ && self.rowval@ == o.rowval@ && self.nzval@.len() == o.nzval@.len()
    }
}
//@struct file=src/solver/core/kktsolvers/direct/quasidef/datamaps.rs name=SOCExpansionMap
//@struct file=src/solver/core/kktsolvers/direct/quasidef/datamaps.rs name=GenPowExpansionMap
//@enum file=src/solver/core/kktsolvers/direct/quasidef/datamaps.rs name=SparseExpansionMap rules=R12
//@struct file=src/solver/core/cones/socone.rs name=SecondOrderConeSparseData
//@struct file=src/solver/core/cones/socone.rs name=SecondOrderCone keep=dim,η,sparse_data rules=R2
//@struct file=src/solver/core/cones/genpowcone.rs name=GenPowerConeData keep=μ,p,q,r rules=R2
//@struct file=src/solver/core/cones/genpowcone.rs name=GenPowerCone keep=dim2,data rules=R2

// ------------------------------------------------------------------ effects of the two pointer targets (text of unit kkt_new)
pub open spec fn last_writer(index: Seq<usize>, n: int, k: int) -> bool {
    0 <= k < n && forall|k2: int| k < k2 < n ==> index[k2] != index[k]
}
pub open spec fn upd_n(index: Seq<usize>, values: Seq<F>) -> int { if index.len() < values.len() { index.len() as int } else { values.len() as int } }
pub open spec fn is_update(before: Seq<F>, after: Seq<F>, index: Seq<usize>, values: Seq<F>) -> bool {
    let n = upd_n(index, values);
    &&& after.len() == before.len()
    &&& forall|k: int| last_writer(index, n, k) ==> after[#[trigger] index[k] as int] == values[k]
    &&& forall|s: int| 0 <= s < before.len() && (forall|k: int| 0 <= k < n ==> index[k] != s) ==> #[trigger] after[s] == before[s]
}
pub open spec fn is_scaling(before: Seq<F>, after: Seq<F>, index: Seq<usize>, scale: F) -> bool {
    &&& after.len() == before.len()
    &&& forall|k: int| 0 <= k < index.len() ==> after[#[trigger] index[k] as int] == f_mul(before[index[k] as int], scale)
    &&& forall|s: int| 0 <= s < before.len() && (forall|k: int| 0 <= k < index.len() ==> index[k] != s) ==> #[trigger] after[s] == before[s]
}
pub open spec fn idx_below(index: Seq<usize>, n: int) -> bool { forall|k: int| 0 <= k < index.len() ==> #[trigger] index[k] < n }
pub open spec fn distinct(a: Seq<usize>) -> bool { forall|i: int, j: int| 0 <= i < j < a.len() ==> a[i] != a[j] }
pub open spec fn in_idx(index: Seq<usize>, s: int) -> bool { exists|k: int| 0 <= k < index.len() && index[k] == s }

// one call through a pointer (ghost history)
pub enum Ev { Upd(Seq<usize>, Seq<F>), Scl(Seq<usize>, F) }
pub struct BoxedDirectLDLSolver<T> { pub _p: Option<T>, pub copy: Ghost<Seq<T>>, pub log: Ghost<Seq<Ev>> }
pub struct UpdateFcn<T> { pub _p: Option<T> }
pub struct ScaleFcn<T> { pub _p: Option<T> }
impl UpdateFcn<F> {
    // = the contract of `_update_values` (PROVED in units kkt_reg / kkt_new)
    #[verifier::external_body]
    pub fn call(&self, ldl: &mut BoxedDirectLDLSolver<F>, K: &mut CscMatrix<F>, index: &[usize], values: &[F])
        requires idx_below(index@, old(K).nzval@.len() as int), old(ldl).copy@.len() == old(K).nzval@.len(),
        ensures final(K).same_pattern(old(K)),
            is_update(old(ldl).copy@, final(ldl).copy@, index@, values@), is_update(old(K).nzval@, final(K).nzval@, index@, values@),
            final(ldl).log@ == old(ldl).log@.push(Ev::Upd(index@, values@)),
    { unimplemented!() }
}
impl ScaleFcn<F> {
    // = the contract of `_scale_values` (PROVED in units kkt_reg / kkt_new)
    #[verifier::external_body]
    pub fn call(&self, ldl: &mut BoxedDirectLDLSolver<F>, K: &mut CscMatrix<F>, index: &[usize], scale: F)
        requires idx_below(index@, old(K).nzval@.len() as int), old(ldl).copy@.len() == old(K).nzval@.len(), distinct(index@),
        ensures final(K).same_pattern(old(K)),
            is_scaling(old(ldl).copy@, final(ldl).copy@, index@, scale), is_scaling(old(K).nzval@, final(K).nzval@, index@, scale),
            final(ldl).log@ == old(ldl).log@.push(Ev::Scl(index@, scale)),
    { unimplemented!() }
}

// ------------------------------------------------------------------ specification
pub open spec fn soc_slots(m: SOCExpansionMap) -> Seq<usize> { m.u@ + m.v@ + m.D@ }
pub open spec fn gp_slots(m: GenPowExpansionMap) -> Seq<usize> { m.q@ + m.r@ + m.p@ + m.D@ }
pub open spec fn soc_c(c: SecondOrderCone<F>) -> F { f_mul(c.eta, c.eta) }
pub open spec fn gp_c(c: GenPowerCone<F>) -> F { f_sqrt(c.data.mu) }
// the calls csc_update_sparsecone has to make, in order
pub open spec fn soc_events(c: SecondOrderCone<F>, m: SOCExpansionMap) -> Seq<Ev> {
    let sd = c.sparse_data->Some_0; let e2 = soc_c(c);
    seq![Ev::Upd(m.u@, sd.u@), Ev::Upd(m.v@, sd.v@), Ev::Scl(m.u@, f_neg(e2)), Ev::Scl(m.v@, f_neg(e2)), Ev::Upd(m.D@, seq![f_neg(e2), e2])]
}
pub open spec fn gp_events(c: GenPowerCone<F>, m: GenPowExpansionMap) -> Seq<Ev> {
    let d = c.data; let s = f_neg(gp_c(c));
    seq![Ev::Upd(m.q@, d.q@), Ev::Upd(m.r@, d.r@), Ev::Upd(m.p@, d.p@), Ev::Scl(m.q@, s), Ev::Scl(m.r@, s), Ev::Scl(m.p@, s),
         Ev::Upd(m.D@, seq![f_neg(f_one()), f_neg(f_one()), f_one()])]
}
// the values the recorded slots hold afterwards (nz = KKT.nzval or the engine copy)
pub open spec fn soc_values(c: SecondOrderCone<F>, m: SOCExpansionMap, nz: Seq<F>) -> bool {
    let sd = c.sparse_data->Some_0; let e2 = soc_c(c);
    &&& forall|i: int| 0 <= i < m.u@.len() ==> nz[#[trigger] m.u@[i] as int] == f_mul(sd.u@[i], f_neg(e2))
    &&& forall|i: int| 0 <= i < m.v@.len() ==> nz[#[trigger] m.v@[i] as int] == f_mul(sd.v@[i], f_neg(e2))
    &&& nz[m.D@[0] as int] == f_neg(e2) && nz[m.D@[1] as int] == e2
}
pub open spec fn gp_values(c: GenPowerCone<F>, m: GenPowExpansionMap, nz: Seq<F>) -> bool {
    let d = c.data; let s = f_neg(gp_c(c));
    &&& forall|i: int| 0 <= i < m.q@.len() ==> nz[#[trigger] m.q@[i] as int] == f_mul(d.q@[i], s)
    &&& forall|i: int| 0 <= i < m.r@.len() ==> nz[#[trigger] m.r@[i] as int] == f_mul(d.r@[i], s)
    &&& forall|i: int| 0 <= i < m.p@.len() ==> nz[#[trigger] m.p@[i] as int] == f_mul(d.p@[i], s)
    &&& nz[m.D@[0] as int] == f_neg(f_one()) && nz[m.D@[1] as int] == f_neg(f_one()) && nz[m.D@[2] as int] == f_one()
}
pub open spec fn frame(slots: Seq<usize>, nz0: Seq<F>, nz1: Seq<F>) -> bool {
    nz1.len() == nz0.len() && forall|s: int| 0 <= s < nz0.len() && !in_idx(slots, s) ==> #[trigger] nz1[s] == nz0[s]
}

// a slot outside the index list survives an update / a scaling
pub proof fn lemma_upd_keeps(b: Seq<F>, a: Seq<F>, index: Seq<usize>, values: Seq<F>, s: int)
    requires is_update(b, a, index, values), 0 <= s < b.len(), !in_idx(index, s),
    ensures a[s] == b[s],
{
    assert forall|k: int| 0 <= k < upd_n(index, values) implies index[k] != s by { if index[k] == s { assert(in_idx(index, s)); } }
}
pub proof fn lemma_scl_keeps(b: Seq<F>, a: Seq<F>, index: Seq<usize>, c: F, s: int)
    requires is_scaling(b, a, index, c), 0 <= s < b.len(), !in_idx(index, s),
    ensures a[s] == b[s],
{
    assert forall|k: int| 0 <= k < index.len() implies index[k] != s by { if index[k] == s { assert(in_idx(index, s)); } }
}
// an update with a repetition-free index list and enough values writes values[k] to slot index[k]
pub proof fn lemma_upd_writes(b: Seq<F>, a: Seq<F>, index: Seq<usize>, values: Seq<F>, k: int)
    requires is_update(b, a, index, values), distinct(index), 0 <= k < index.len() <= values.len(),
    ensures a[index[k] as int] == values[k],
{
    assert(last_writer(index, upd_n(index, values), k));
}
// (sub-lists of a repetition-free concatenation)
pub open spec fn part_of(p: Seq<usize>, off: int, all: Seq<usize>) -> bool {
    0 <= off && off + p.len() <= all.len() && forall|i: int| 0 <= i < p.len() ==> #[trigger] p[i] == all[off + i]
}
pub proof fn lemma_part_distinct(p: Seq<usize>, off: int, all: Seq<usize>)
    requires part_of(p, off, all), distinct(all),
    ensures distinct(p), forall|s: int| in_idx(p, s) ==> in_idx(all, s),
{
    assert forall|i: int, j: int| 0 <= i < j < p.len() implies p[i] != p[j] by { assert(p[i] == all[off + i] && p[j] == all[off + j]); }
    assert forall|s: int| in_idx(p, s) implies in_idx(all, s) by { let k = choose|k: int| 0 <= k < p.len() && p[k] == s; assert(all[off + k] == s); }
}
pub proof fn lemma_parts_disjoint(p: Seq<usize>, po: int, q: Seq<usize>, qo: int, all: Seq<usize>, i: int)
    requires part_of(p, po, all), part_of(q, qo, all), distinct(all), po + p.len() <= qo || qo + q.len() <= po, 0 <= i < p.len(),
    ensures !in_idx(q, p[i] as int),
{
    if in_idx(q, p[i] as int) {
        let k = choose|k: int| 0 <= k < q.len() && q[k] == p[i] as int;
        assert(q[k] == all[qo + k] && p[i] == all[po + i]);
    }
}

impl SecondOrderCone<F> {
    // ASSUMED (macro-generated accessor impl_map_recover!: returns the payload of the matching variant, `panic!()` otherwise)
    #[verifier::external_body]
    pub fn recover_map<'a>(&self, map: &'a SparseExpansionMap) -> (r: &'a SOCExpansionMap)
        requires map is SOCExpansionMap,
        ensures map matches SparseExpansionMap::SOCExpansionMap(m) && *r == m,
    { unimplemented!() }

//@fn file=src/solver/core/kktsolvers/direct/quasidef/datamaps.rs in="SparseExpansionConeTrait<T> for &'_ SecondOrderCone<T>" name=csc_update_sparsecone rules=R1,R2,fnptr:updateFcn|scaleFcn
//@contract
    requires
        self.sparse_data is Some,                                           // `.unwrap()`
        map is SOCExpansionMap,                                             // recover_map's `panic!()`
        old(ldl).copy@.len() == old(K).nzval@.len(),
        ({ let m = map->SOCExpansionMap_0; idx_below(soc_slots(m), old(K).nzval@.len() as int) && distinct(m.u@) && distinct(m.v@) }),
    ensures
        ({
            let m = map->SOCExpansionMap_0; let sd = self.sparse_data->Some_0;
            // the data flow, in order, nothing else
            &&& final(ldl).log@ == old(ldl).log@ + soc_events(*self, m)
            // frame (what unit kkt_new assumes)
            &&& final(K).same_pattern(old(K))
            &&& frame(soc_slots(m), old(K).nzval@, final(K).nzval@) && frame(soc_slots(m), old(ldl).copy@, final(ldl).copy@)
            // interpreted: which slot holds what
            &&& distinct(soc_slots(m)) && sd.u@.len() == m.u@.len() && sd.v@.len() == m.v@.len()
                  ==> soc_values(*self, m, final(K).nzval@) && soc_values(*self, m, final(ldl).copy@)
        }),
//@pre
    let ghost m = map->SOCExpansionMap_0;
    let ghost l0 = ldl.log@;
    let ghost (k0, c0) = (K.nzval@, ldl.copy@);
    let ghost mut k1: Seq<F>; let ghost mut k2: Seq<F>; let ghost mut k3: Seq<F>; let ghost mut k4: Seq<F>;
    let ghost mut c1: Seq<F>; let ghost mut c2: Seq<F>; let ghost mut c3: Seq<F>; let ghost mut c4: Seq<F>;
    proof {
        assert forall|k: int| 0 <= k < m.u@.len() implies #[trigger] m.u@[k] < K.nzval@.len() by { assert(soc_slots(m)[k] == m.u@[k]); }
        assert forall|k: int| 0 <= k < m.v@.len() implies #[trigger] m.v@[k] < K.nzval@.len() by { assert(soc_slots(m)[m.u@.len() + k] == m.v@[k]); }
        assert forall|k: int| 0 <= k < m.D@.len() implies #[trigger] m.D@[k] < K.nzval@.len() by { assert(soc_slots(m)[m.u@.len() + m.v@.len() + k] == m.D@[k]); }
    }
//@after_stmt 4
    proof { k1 = K.nzval@; c1 = ldl.copy@; }
//@after_stmt 5
    proof { k2 = K.nzval@; c2 = ldl.copy@; }
//@after_stmt 6
    proof { k3 = K.nzval@; c3 = ldl.copy@; }
//@after_stmt 7
    proof { k4 = K.nzval@; c4 = ldl.copy@; }
//@post
    proof {
        let sd = self.sparse_data->Some_0; let e2 = soc_c(*self); let ne = f_neg(e2);
        assert(ldl.log@ =~= l0 + soc_events(*self, m));
        lemma_soc_chain(m, k0, k1, k2, k3, k4, K.nzval@, sd.u@, sd.v@, ne, seq![ne, e2]);
        lemma_soc_chain(m, c0, c1, c2, c3, c4, ldl.copy@, sd.u@, sd.v@, ne, seq![ne, e2]);
    }
//@end
}

// the five steps of the SOC update on one value array
pub proof fn lemma_soc_chain(m: SOCExpansionMap, s0: Seq<F>, s1: Seq<F>, s2: Seq<F>, s3: Seq<F>, s4: Seq<F>, s5: Seq<F>, du: Seq<F>, dv: Seq<F>, c: F, dd: Seq<F>)
    requires is_update(s0, s1, m.u@, du), is_update(s1, s2, m.v@, dv), is_scaling(s2, s3, m.u@, c), is_scaling(s3, s4, m.v@, c), is_update(s4, s5, m.D@, dd),
        idx_below(soc_slots(m), s0.len() as int), dd.len() == 2,
    ensures frame(soc_slots(m), s0, s5),
        distinct(soc_slots(m)) && du.len() == m.u@.len() && dv.len() == m.v@.len() ==> {
            &&& forall|i: int| 0 <= i < m.u@.len() ==> s5[#[trigger] m.u@[i] as int] == f_mul(du[i], c)
            &&& forall|i: int| 0 <= i < m.v@.len() ==> s5[#[trigger] m.v@[i] as int] == f_mul(dv[i], c)
            &&& s5[m.D@[0] as int] == dd[0] && s5[m.D@[1] as int] == dd[1]
        },
{
    let all = soc_slots(m);
    let (u, v, d) = (m.u@, m.v@, m.D@);
    let (ou, ov, od) = (0int, u.len() as int, (u.len() + v.len()) as int);
    assert(part_of(u, ou, all) && part_of(v, ov, all) && part_of(d, od, all));
    assert forall|s: int| 0 <= s < s0.len() && !in_idx(all, s) implies #[trigger] s5[s] == s0[s] by {
        assert(!in_idx(u, s)) by { if in_idx(u, s) { let k = choose|k: int| 0 <= k < u.len() && u[k] == s; assert(all[ou + k] == s); } }
        assert(!in_idx(v, s)) by { if in_idx(v, s) { let k = choose|k: int| 0 <= k < v.len() && v[k] == s; assert(all[ov + k] == s); } }
        assert(!in_idx(d, s)) by { if in_idx(d, s) { let k = choose|k: int| 0 <= k < d.len() && d[k] == s; assert(all[od + k] == s); } }
        lemma_upd_keeps(s0, s1, u, du, s); lemma_upd_keeps(s1, s2, v, dv, s); lemma_scl_keeps(s2, s3, u, c, s); lemma_scl_keeps(s3, s4, v, c, s);
        lemma_upd_keeps(s4, s5, d, dd, s);
    }
    if distinct(all) && du.len() == u.len() && dv.len() == v.len() {
        lemma_part_distinct(u, ou, all); lemma_part_distinct(v, ov, all); lemma_part_distinct(d, od, all);
        assert forall|i: int| 0 <= i < u.len() implies s5[#[trigger] u[i] as int] == f_mul(du[i], c) by {
            let s = u[i] as int;
            assert(all[ou + i] == u[i]);
            lemma_parts_disjoint(u, ou, v, ov, all, i); lemma_parts_disjoint(u, ou, d, od, all, i);
            lemma_upd_writes(s0, s1, u, du, i); lemma_upd_keeps(s1, s2, v, dv, s); lemma_scl_keeps(s3, s4, v, c, s); lemma_upd_keeps(s4, s5, d, dd, s);
        }
        assert forall|i: int| 0 <= i < v.len() implies s5[#[trigger] v[i] as int] == f_mul(dv[i], c) by {
            let s = v[i] as int;
            assert(all[ov + i] == v[i]);
            lemma_parts_disjoint(v, ov, u, ou, all, i); lemma_parts_disjoint(v, ov, d, od, all, i);
            lemma_upd_writes(s1, s2, v, dv, i); lemma_scl_keeps(s2, s3, u, c, s); lemma_upd_keeps(s4, s5, d, dd, s);
        }
        assert(all[od + 0] == d[0] && all[od + 1] == d[1]);
        lemma_upd_writes(s4, s5, d, dd, 0); lemma_upd_writes(s4, s5, d, dd, 1);
    }
}


impl GenPowerCone<F> {
    // ASSUMED (macro-generated accessor, as above)
    #[verifier::external_body]
    pub fn recover_map<'a>(&self, map: &'a SparseExpansionMap) -> (r: &'a GenPowExpansionMap)
        requires map is GenPowExpansionMap,
        ensures map matches SparseExpansionMap::GenPowExpansionMap(m) && *r == m,
    { unimplemented!() }

//@fn file=src/solver/core/kktsolvers/direct/quasidef/datamaps.rs in="SparseExpansionConeTrait<T> for &'_ GenPowerCone<T>" name=csc_update_sparsecone rules=R1,R2,fnptr:updateFcn|scaleFcn
//@contract
    requires
        map is GenPowExpansionMap,                                          // recover_map's `panic!()`
        old(ldl).copy@.len() == old(K).nzval@.len(),
        ({ let m = map->GenPowExpansionMap_0; idx_below(gp_slots(m), old(K).nzval@.len() as int) && distinct(m.q@) && distinct(m.r@) && distinct(m.p@) }),
    ensures
        ({
            let m = map->GenPowExpansionMap_0; let d = self.data;
            // the data flow, in order, nothing else
            &&& final(ldl).log@ == old(ldl).log@ + gp_events(*self, m)
            // frame (what unit kkt_new assumes)
            &&& final(K).same_pattern(old(K))
            &&& frame(gp_slots(m), old(K).nzval@, final(K).nzval@) && frame(gp_slots(m), old(ldl).copy@, final(ldl).copy@)
            // interpreted: which slot holds what
            &&& distinct(gp_slots(m)) && d.q@.len() == m.q@.len() && d.r@.len() == m.r@.len() && d.p@.len() == m.p@.len()
                  ==> gp_values(*self, m, final(K).nzval@) && gp_values(*self, m, final(ldl).copy@)
        }),
//@pre
    let ghost m = map->GenPowExpansionMap_0;
    let ghost l0 = ldl.log@;
    let ghost (k0, c0) = (K.nzval@, ldl.copy@);
    let ghost mut k1: Seq<F>; let ghost mut k2: Seq<F>; let ghost mut k3: Seq<F>; let ghost mut k4: Seq<F>; let ghost mut k5: Seq<F>; let ghost mut k6: Seq<F>;
    let ghost mut c1: Seq<F>; let ghost mut c2: Seq<F>; let ghost mut c3: Seq<F>; let ghost mut c4: Seq<F>; let ghost mut c5: Seq<F>; let ghost mut c6: Seq<F>;
    proof {
        let (oq, or, op, od) = (0int, m.q@.len() as int, (m.q@.len() + m.r@.len()) as int, (m.q@.len() + m.r@.len() + m.p@.len()) as int);
        assert forall|k: int| 0 <= k < m.q@.len() implies #[trigger] m.q@[k] < K.nzval@.len() by { assert(gp_slots(m)[oq + k] == m.q@[k]); }
        assert forall|k: int| 0 <= k < m.r@.len() implies #[trigger] m.r@[k] < K.nzval@.len() by { assert(gp_slots(m)[or + k] == m.r@[k]); }
        assert forall|k: int| 0 <= k < m.p@.len() implies #[trigger] m.p@[k] < K.nzval@.len() by { assert(gp_slots(m)[op + k] == m.p@[k]); }
        assert forall|k: int| 0 <= k < m.D@.len() implies #[trigger] m.D@[k] < K.nzval@.len() by { assert(gp_slots(m)[od + k] == m.D@[k]); }
    }
//@after_stmt 4
    proof { k1 = K.nzval@; c1 = ldl.copy@; }
//@after_stmt 5
    proof { k2 = K.nzval@; c2 = ldl.copy@; }
//@after_stmt 6
    proof { k3 = K.nzval@; c3 = ldl.copy@; }
//@after_stmt 7
    proof { k4 = K.nzval@; c4 = ldl.copy@; }
//@after_stmt 8
    proof { k5 = K.nzval@; c5 = ldl.copy@; }
//@after_stmt 9
    proof { k6 = K.nzval@; c6 = ldl.copy@; }
//@post
    proof {
        let d = self.data; let s = f_neg(gp_c(*self));
        let dd = seq![f_neg(f_one()), f_neg(f_one()), f_one()];
        assert(ldl.log@ =~= l0 + gp_events(*self, m));
        lemma_gp_chain(m, seq![k0, k1, k2, k3, k4, k5, k6, K.nzval@], d.q@, d.r@, d.p@, s, dd);
        lemma_gp_chain(m, seq![c0, c1, c2, c3, c4, c5, c6, ldl.copy@], d.q@, d.r@, d.p@, s, dd);
    }
//@end
}

// the seven steps of the generalised-power-cone update on one value array (t = the successive states)
pub proof fn lemma_gp_chain(m: GenPowExpansionMap, t: Seq<Seq<F>>, dq: Seq<F>, dr: Seq<F>, dp: Seq<F>, c: F, dd: Seq<F>)
    requires t.len() == 8,
        is_update(t[0], t[1], m.q@, dq), is_update(t[1], t[2], m.r@, dr), is_update(t[2], t[3], m.p@, dp),
        is_scaling(t[3], t[4], m.q@, c), is_scaling(t[4], t[5], m.r@, c), is_scaling(t[5], t[6], m.p@, c), is_update(t[6], t[7], m.D@, dd),
        idx_below(gp_slots(m), t[0].len() as int), dd.len() == 3,
    ensures frame(gp_slots(m), t[0], t[7]),
        distinct(gp_slots(m)) && dq.len() == m.q@.len() && dr.len() == m.r@.len() && dp.len() == m.p@.len() ==> {
            &&& forall|i: int| 0 <= i < m.q@.len() ==> t[7][#[trigger] m.q@[i] as int] == f_mul(dq[i], c)
            &&& forall|i: int| 0 <= i < m.r@.len() ==> t[7][#[trigger] m.r@[i] as int] == f_mul(dr[i], c)
            &&& forall|i: int| 0 <= i < m.p@.len() ==> t[7][#[trigger] m.p@[i] as int] == f_mul(dp[i], c)
            &&& t[7][m.D@[0] as int] == dd[0] && t[7][m.D@[1] as int] == dd[1] && t[7][m.D@[2] as int] == dd[2]
        },
{
    let all = gp_slots(m);
    let (q, r, p, d) = (m.q@, m.r@, m.p@, m.D@);
    let (oq, or, op, od) = (0int, q.len() as int, (q.len() + r.len()) as int, (q.len() + r.len() + p.len()) as int);
    assert(part_of(q, oq, all) && part_of(r, or, all) && part_of(p, op, all) && part_of(d, od, all));
    assert forall|s: int| 0 <= s < t[0].len() && !in_idx(all, s) implies #[trigger] t[7][s] == t[0][s] by {
        assert(!in_idx(q, s)) by { if in_idx(q, s) { let k = choose|k: int| 0 <= k < q.len() && q[k] == s; assert(all[oq + k] == s); } }
        assert(!in_idx(r, s)) by { if in_idx(r, s) { let k = choose|k: int| 0 <= k < r.len() && r[k] == s; assert(all[or + k] == s); } }
        assert(!in_idx(p, s)) by { if in_idx(p, s) { let k = choose|k: int| 0 <= k < p.len() && p[k] == s; assert(all[op + k] == s); } }
        assert(!in_idx(d, s)) by { if in_idx(d, s) { let k = choose|k: int| 0 <= k < d.len() && d[k] == s; assert(all[od + k] == s); } }
        lemma_upd_keeps(t[0], t[1], q, dq, s); lemma_upd_keeps(t[1], t[2], r, dr, s); lemma_upd_keeps(t[2], t[3], p, dp, s);
        lemma_scl_keeps(t[3], t[4], q, c, s); lemma_scl_keeps(t[4], t[5], r, c, s); lemma_scl_keeps(t[5], t[6], p, c, s);
        lemma_upd_keeps(t[6], t[7], d, dd, s);
    }
    if distinct(all) && dq.len() == q.len() && dr.len() == r.len() && dp.len() == p.len() {
        lemma_part_distinct(q, oq, all); lemma_part_distinct(r, or, all); lemma_part_distinct(p, op, all); lemma_part_distinct(d, od, all);
        assert forall|i: int| 0 <= i < q.len() implies t[7][#[trigger] q[i] as int] == f_mul(dq[i], c) by {
            let s = q[i] as int;
            assert(all[oq + i] == q[i]);
            lemma_parts_disjoint(q, oq, r, or, all, i); lemma_parts_disjoint(q, oq, p, op, all, i); lemma_parts_disjoint(q, oq, d, od, all, i);
            lemma_upd_writes(t[0], t[1], q, dq, i); lemma_upd_keeps(t[1], t[2], r, dr, s); lemma_upd_keeps(t[2], t[3], p, dp, s);
            lemma_scl_keeps(t[4], t[5], r, c, s); lemma_scl_keeps(t[5], t[6], p, c, s); lemma_upd_keeps(t[6], t[7], d, dd, s);
        }
        assert forall|i: int| 0 <= i < r.len() implies t[7][#[trigger] r[i] as int] == f_mul(dr[i], c) by {
            let s = r[i] as int;
            assert(all[or + i] == r[i]);
            lemma_parts_disjoint(r, or, q, oq, all, i); lemma_parts_disjoint(r, or, p, op, all, i); lemma_parts_disjoint(r, or, d, od, all, i);
            lemma_upd_writes(t[1], t[2], r, dr, i); lemma_upd_keeps(t[2], t[3], p, dp, s);
            lemma_scl_keeps(t[3], t[4], q, c, s); lemma_scl_keeps(t[5], t[6], p, c, s); lemma_upd_keeps(t[6], t[7], d, dd, s);
        }
        assert forall|i: int| 0 <= i < p.len() implies t[7][#[trigger] p[i] as int] == f_mul(dp[i], c) by {
            let s = p[i] as int;
            assert(all[op + i] == p[i]);
            lemma_parts_disjoint(p, op, q, oq, all, i); lemma_parts_disjoint(p, op, r, or, all, i); lemma_parts_disjoint(p, op, d, od, all, i);
            lemma_upd_writes(t[2], t[3], p, dp, i);
            lemma_scl_keeps(t[3], t[4], q, c, s); lemma_scl_keeps(t[4], t[5], r, c, s); lemma_upd_keeps(t[6], t[7], d, dd, s);
        }
        assert(all[od + 0] == d[0] && all[od + 1] == d[1] && all[od + 2] == d[2]);
        lemma_upd_writes(t[6], t[7], d, dd, 0); lemma_upd_writes(t[6], t[7], d, dd, 1); lemma_upd_writes(t[6], t[7], d, dd, 2);
    }
}

} // verus!
fn main() {}
