// unit `solve` : the interior-point main loop and its strategy checkpoints (C03 C04 C07 C20)
// float model: F-opaque.  The eight type parameters of Solver stay generic, exactly as in the source;
// the trait declarations are extracted from core/traits.rs (signatures), their contracts are the
// //@sig sections below.  `impl Info for DefaultInfo<F>` further down re-checks the REAL DefaultInfo
// methods against those trait contracts, so the contracts `solve` relies on are proved, not assumed,
// for the default implementation (print functions excepted).
use vstd::prelude::*;
verus! {
//@include prelude/float_opaque.rs
//@include units/inc/status_items.rs
//@include prelude/vecmath_assumed.rs

//@enum file=src/solver/core/solver.rs name=StepDirection derive="PartialEq, Eq, Clone, Copy, Structural"
//@enum file=src/solver/core/solver.rs name=ScalingStrategy derive="PartialEq, Eq, Clone, Copy, Structural"
//@enum file=src/solver/core/solver.rs name=StrategyCheckpoint derive="PartialEq, Eq, Clone, Copy, Structural"
//@type file=src/solver/core/settings.rs name=CoreSettings

pub assume_specification<T> [core::option::Option::<T>::replace] (o: &mut Option<T>, v: T) -> (r: Option<T>)
    ensures *final(o) == Some(v), r == *old(o);
// stand-in for crate::timers::Timers (src/timers/timers.rs: HashMap / Instant, outside Verus).  Rule R7t writes the
// timeit! / notimeit! macros of `solve` out as the calls they expand to, so the timer calls of the loop are part of the
// verified text.  ASSUMED contract of the real type: `suspend` folds the running time of every active timer into the
// accumulated total that `total_time()` reports (InnerTimer::suspend: elapsed += start.elapsed()); `folds()` counts those
// events.  (An active timer contributes nothing to total_time() between two folds: that is why the loop must fold once
// per iteration for the time limit to be observed, C04.)
#[verifier::external_body]
pub struct Timers { _p: u8 }
impl Timers {
    pub uninterp spec fn folds(&self) -> nat;
    #[verifier::external_body] pub fn start_as_current(&mut self, key: &'static str)
        ensures final(self).folds() == old(self).folds() { unimplemented!() }
    #[verifier::external_body] pub fn stop_current(&mut self)
        ensures final(self).folds() >= old(self).folds() { unimplemented!() }
    #[verifier::external_body] pub fn suspend(&mut self)
        ensures final(self).folds() == old(self).folds() + 1 { unimplemented!() }
    #[verifier::external_body] pub fn resume(&mut self)
        ensures final(self).folds() == old(self).folds() { unimplemented!() }
}
#[verifier::external_type_specification]
#[verifier::external_body]
pub struct ExIoError(std::io::Error);

// ------------------------------------------------------------------ traits (core/traits.rs, cones/mod.rs)
//@trait file=src/solver/core/traits.rs name=Settings header="pub trait Settings" rules=R1 keep=core
//@extra
    spec fn core_spec(&self) -> DefaultSettings<F>;
//@sig core
ret=r
    ensures *r == self.core_spec()
//@end
//@trait file=src/solver/core/cones/mod.rs name=Cone header="pub trait Cone" rules=R1,R2 keep=is_symmetric,allows_primal_dual_scaling,set_identity_scaling
//@end
//@trait file=src/solver/core/traits.rs name=ProblemData header="pub trait ProblemData" rules=R1 keep=-
//@end
//@trait file=src/solver/core/traits.rs name=Variables header="pub trait Variables" rules=R1,R2 keep=calc_mu,affine_step_rhs,combined_step_rhs,calc_step_length,add_step,symmetric_initialization,unit_initialization,copy_from,scale_cones,barrier
//@extra
    // lengths of x, s, z.  copy_from panics (copy_from_slice) when they differ, so every
    // method that mutates a Variables object is required to keep them (C04: panic freedom of `solve`)
    spec fn dims_spec(&self) -> (nat, nat, nat);
//@sig calc_mu
    ensures final(self).dims_spec() == old(self).dims_spec(),
//@sig affine_step_rhs
    ensures final(self).dims_spec() == old(self).dims_spec(),
//@sig combined_step_rhs
    ensures final(self).dims_spec() == old(self).dims_spec(), final(step).dims_spec() == old(step).dims_spec(),
//@sig add_step
    ensures final(self).dims_spec() == old(self).dims_spec(),
//@sig symmetric_initialization
    ensures final(self).dims_spec() == old(self).dims_spec(),
//@sig unit_initialization
    ensures final(self).dims_spec() == old(self).dims_spec(),
//@sig copy_from
    requires old(self).dims_spec() == src.dims_spec(),
    ensures final(self).dims_spec() == old(self).dims_spec(),
//@end
//@trait file=src/solver/core/traits.rs name=Residuals header="pub trait Residuals" rules=R1 keep=update
//@end
//@trait file=src/solver/core/traits.rs name=KKTSystem header="pub trait KKTSystem" rules=R1 assoc="V:Variables" keep=update,solve,solve_initial_point
//@sig solve
    ensures final(step_lhs).dims_spec() == old(step_lhs).dims_spec(),
//@sig solve_initial_point
    ensures final(variables).dims_spec() == old(variables).dims_spec(),
//@end
//@trait file=src/solver/core/traits.rs name=InfoPrint header="pub trait InfoPrint" rules=R1 assoc="SE:Settings" keep=print_configuration,print_status_header,print_status,print_footer
//@extra
    // abstract observations of an Info object used by the contracts of `solve`
    spec fn status(&self) -> SolverStatus;
    spec fn iterations(&self) -> u32;
    // ghost history: the values written to the iteration column of the progress table (C20);
    // it is a function of the print target stored inside the info object
    spec fn printed(&self) -> Seq<u32>;
    // ghost: the value of timers.folds() at which the solve time held by this object was read (C04: time limit)
    spec fn time_stamp(&self) -> nat;
//@sig print_configuration
ret=r
    // ASSUMED for every implementation: printing succeeds (an I/O error would make `solve` panic
    // at its .unwrap(); listed as an assumption) and touches nothing but the print target
    ensures r is Ok, final(self).status() == old(self).status(), final(self).iterations() == old(self).iterations(),
            final(self).printed() == old(self).printed(),
//@sig print_status_header
ret=r
    ensures r is Ok, final(self).status() == old(self).status(), final(self).iterations() == old(self).iterations(),
            final(self).printed() == old(self).printed(),
//@sig print_status
ret=r
    ensures r is Ok, final(self).status() == old(self).status(), final(self).iterations() == old(self).iterations(),
            settings.core_spec().verbose ==> final(self).printed() == old(self).printed().push(old(self).iterations()),
            !settings.core_spec().verbose ==> final(self).printed() == old(self).printed(),
            final(self).time_stamp() == old(self).time_stamp(),
//@sig print_footer
ret=r
    ensures r is Ok, final(self).status() == old(self).status(), final(self).iterations() == old(self).iterations(),
            final(self).printed() == old(self).printed(),
//@end
//@trait file=src/solver/core/traits.rs name=Info header="pub trait Info: InfoPrint" rules=R1,R2 assoc="V:Variables"
//@sig reset
    ensures final(self).status() == SolverStatus::Unsolved, final(self).iterations() == 0,
            final(self).printed() == old(self).printed(),
//@sig post_process
    ensures final(self).iterations() == old(self).iterations(), final(self).printed() == old(self).printed(),
            // C03: a verdict is only ever revised to a reduced-accuracy one
            final(self).status() == old(self).status() || is_almost(final(self).status()),
//@sig finalize
    ensures final(self).status() == old(self).status(), final(self).iterations() == old(self).iterations(),
            final(self).printed() == old(self).printed(),
//@sig update
    ensures final(self).status() == old(self).status(), final(self).iterations() == old(self).iterations(),
            final(self).printed() == old(self).printed(),
            // the solve time is read from the timers now: it covers everything folded in so far
            final(self).time_stamp() == timers.folds(),
//@sig check_termination
ret=r
    requires old(self).status() == SolverStatus::Unsolved,
    ensures r == (final(self).status() != SolverStatus::Unsolved),
            final(self).iterations() == old(self).iterations(), final(self).printed() == old(self).printed(),
            // C04: the iteration budget always stops the loop
            old(self).iterations() == settings.core_spec().max_iter ==> r,
            // C07: ... and MaxIterations is reported only when the budget is exactly used up
            final(self).status() == SolverStatus::MaxIterations ==> old(self).iterations() == settings.core_spec().max_iter,
            // C03: no reduced-accuracy verdict inside the loop
            !is_almost(final(self).status()),
//@sig save_prev_iterate
    requires variables.dims_spec() == old(prev_variables).dims_spec(),
    ensures final(prev_variables).dims_spec() == old(prev_variables).dims_spec(),
            final(self).status() == old(self).status(), final(self).iterations() == old(self).iterations(),
            final(self).printed() == old(self).printed(),
//@sig reset_to_prev_iterate
    requires old(variables).dims_spec() == prev_variables.dims_spec(),
    ensures final(variables).dims_spec() == old(variables).dims_spec(),
            final(self).status() == old(self).status(), final(self).iterations() == old(self).iterations(),
            final(self).printed() == old(self).printed(),
//@sig save_scalars
    ensures final(self).iterations() == iter, final(self).status() == old(self).status(),
            final(self).printed() == old(self).printed(),
//@sig get_status
ret=r
    ensures r == self.status()
//@sig set_status
    ensures final(self).status() == status, final(self).iterations() == old(self).iterations(),
            final(self).printed() == old(self).printed(),
//@end
//@trait file=src/solver/core/traits.rs name=Solution header="pub trait Solution" rules=R1 assoc="V:Variables;I:Info" keep=post_process,finalize
//@extra
    // ghost: the status held by the report (C03 / C20: it is the info object's final verdict, the one the footer prints)
    spec fn status_spec(&self) -> SolverStatus;
//@sig post_process
    // ASSUMED for every implementation, PROVED for DefaultSolution in unit postprocess: the report copies the verdict of `info`
    ensures final(variables).dims_spec() == old(variables).dims_spec(), final(self).status_spec() == info.status(),
//@sig finalize
    ensures final(self).status_spec() == old(self).status_spec(),
//@end

// ------------------------------------------------------------------ the default implementation, checked
// against the trait contracts above (Verus: an impl method must satisfy the trait method's contract)
//@struct file=src/solver/implementations/default/variables.rs name=DefaultVariables rules=R2
// opaque stand-ins for the two associated types nothing here looks into
pub struct DefaultProblemDataStub { pub _p: u8 }
pub struct CompositeConeStub { pub _p: u8 }

impl DefaultVariables<F> {
    pub open spec fn dims(&self) -> (nat, nat, nat) { (self.x@.len(), self.s@.len(), self.z@.len()) }
//@fn file=src/solver/implementations/default/variables.rs in="Variables<T> for DefaultVariables<T>" name=copy_from rules=R1,R2
//@contract
    requires old(self).dims() == src.dims(),
    ensures final(self).x@ == src.x@, final(self).s@ == src.s@, final(self).z@ == src.z@,
            final(self).tau == src.tau, final(self).kappa == src.kappa,
//@end
}
impl Variables for DefaultVariables<F> {
    type D = DefaultProblemDataStub; type R = DefaultResiduals<F>; type C = CompositeConeStub; type SE = DefaultSettings<F>;
    open spec fn dims_spec(&self) -> (nat, nat, nat) { self.dims() }
    // numeric methods of DefaultVariables: NOT under contract in this unit (assumed to keep the lengths)
    #[verifier::external_body] fn calc_mu(&mut self, residuals: &DefaultResiduals<F>, cones: &CompositeConeStub) -> F { unimplemented!() }
    #[verifier::external_body] fn affine_step_rhs(&mut self, residuals: &DefaultResiduals<F>, variables: &Self, cones: &CompositeConeStub) { unimplemented!() }
    #[verifier::external_body] fn combined_step_rhs(&mut self, residuals: &DefaultResiduals<F>, variables: &Self, cones: &mut CompositeConeStub, step: &mut Self, sigma: F, mu: F, m: F) { unimplemented!() }
    #[verifier::external_body] fn calc_step_length(&self, step_lhs: &Self, cones: &mut CompositeConeStub, settings: &DefaultSettings<F>, step_direction: StepDirection) -> F { unimplemented!() }
    #[verifier::external_body] fn add_step(&mut self, step_lhs: &Self, alpha: F) { unimplemented!() }
    #[verifier::external_body] fn symmetric_initialization(&mut self, cones: &mut CompositeConeStub) { unimplemented!() }
    #[verifier::external_body] fn unit_initialization(&mut self, cones: &CompositeConeStub) { unimplemented!() }
    #[verifier::external_body] fn scale_cones(&self, cones: &mut CompositeConeStub, mu: F, scaling_strategy: ScalingStrategy) -> bool { unimplemented!() }
    #[verifier::external_body] fn barrier(&self, step: &Self, alpha: F, cones: &mut CompositeConeStub) -> F { unimplemented!() }
    // (the real copy_from is the inherent method above; method resolution in the extracted Info methods picks it)
    #[verifier::external_body] fn copy_from(&mut self, src: &Self) { unimplemented!() }
}

impl Settings for DefaultSettings<F> {
    open spec fn core_spec(&self) -> DefaultSettings<F> { *self }
//@fn file=src/solver/implementations/default/settings.rs in="Settings<T> for DefaultSettings<T>" name=core rules=R1
//@end
}

impl InfoPrint for DefaultInfo<F> {
    type D = DefaultProblemDataStub; type C = CompositeConeStub; type SE = DefaultSettings<F>;
    open spec fn status(&self) -> SolverStatus { self.status }
    open spec fn iterations(&self) -> u32 { self.iterations }
    open spec fn printed(&self) -> Seq<u32> { pt_view(self.stream) }
    open spec fn time_stamp(&self) -> nat { time_stamp_of(self.solve_time) }
    // info_print.rs is write!/format! code: outside Verus; these four contracts stay ASSUMED for DefaultInfo
    // (Kani harnesses check the verbose==false half on the real code, C20)
    #[verifier::external_body] fn print_configuration(&mut self, settings: &DefaultSettings<F>, data: &DefaultProblemDataStub, cones: &CompositeConeStub) -> std::io::Result<()> { unimplemented!() }
    #[verifier::external_body] fn print_status_header(&mut self, settings: &DefaultSettings<F>) -> std::io::Result<()> { unimplemented!() }
    #[verifier::external_body] fn print_status(&mut self, settings: &DefaultSettings<F>) -> std::io::Result<()> { unimplemented!() }
    #[verifier::external_body] fn print_footer(&mut self, settings: &DefaultSettings<F>) -> std::io::Result<()> { unimplemented!() }
}

impl Info for DefaultInfo<F> {
    type V = DefaultVariables<F>; type R = DefaultResiduals<F>;
    // timers / numeric update: assumed here (update is under contract in unit info_update)
    #[verifier::external_body] fn reset(&mut self, timers: &mut Timers) { unimplemented!() }
    #[verifier::external_body] fn finalize(&mut self, timers: &mut Timers) { unimplemented!() }
    #[verifier::external_body] fn update(&mut self, data: &mut DefaultProblemDataStub, variables: &DefaultVariables<F>, residuals: &DefaultResiduals<F>, timers: &Timers) { unimplemented!() }
//@fn file=src/solver/implementations/default/info.rs in="impl<T> Info<T> for DefaultInfo<T>" name=post_process rules=R1
//@end
//@fn file=src/solver/implementations/default/info.rs in="impl<T> Info<T> for DefaultInfo<T>" name=check_termination rules=R1,R1f
//@end
//@fn file=src/solver/implementations/default/info.rs in="impl<T> Info<T> for DefaultInfo<T>" name=save_prev_iterate rules=R1
//@end
//@fn file=src/solver/implementations/default/info.rs in="impl<T> Info<T> for DefaultInfo<T>" name=reset_to_prev_iterate rules=R1
//@end
//@fn file=src/solver/implementations/default/info.rs in="impl<T> Info<T> for DefaultInfo<T>" name=save_scalars rules=R1,R2
//@end
//@fn file=src/solver/implementations/default/info.rs in="impl<T> Info<T> for DefaultInfo<T>" name=get_status rules=R1
//@end
//@fn file=src/solver/implementations/default/info.rs in="impl<T> Info<T> for DefaultInfo<T>" name=set_status rules=R1
//@end
}

//@struct file=src/solver/core/solver.rs name=Solver

// specification of the progress-table iteration column (C20): the part of the history written
// from position n0 on starts with 0, never decreases and stays <= upto; the part before is untouched
spec fn column_ok(s: Seq<u32>, p0: Seq<u32>, upto: u32) -> bool {
    &&& s.len() >= p0.len()
    &&& forall|i: int| 0 <= i < p0.len() ==> s[i] == p0[i]
    &&& (s.len() > p0.len() ==> s[p0.len() as int] == 0)
    &&& forall|i: int, j: int| p0.len() <= i <= j < s.len() ==> s[i] <= s[j]
    &&& forall|i: int| p0.len() <= i < s.len() ==> s[i] <= upto
}
spec fn is_terminal(s: SolverStatus) -> bool { s != SolverStatus::Unsolved }
// ghost reading of DefaultInfo::solve_time: the fold count of the timers at which it was taken (see Timers above)
pub uninterp spec fn time_stamp_of(t: F) -> nat;

impl<D, V, R, K, C, I, SO, SE> Solver<D, V, R, K, C, I, SO, SE>
where
    D: ProblemData,
    V: Variables<D = D, R = R, C = C, SE = SE>,
    R: Residuals<D = D, V = V>,
    K: KKTSystem<D = D, V = V, C = C, SE = SE>,
    C: Cone,
    I: Info<D = D, V = V, R = R, C = C, SE = SE>,
    SO: Solution<D = D, V = V, I = I, SE = SE>,
    SE: Settings,
{
//@fn file=src/solver/core/solver.rs in="IPSolver<T, D, V, R, K, C, I, SO, SE> for Solver" name=solve rules=R7t,R2,R1,drop:_print_banner(
//@contract
    requires old(self).timers is Some,
        // the constructor allocates the iterate, the two step vectors and the saved iterate with equal (n, m)
        old(self).variables.dims_spec() == old(self).prev_vars.dims_spec(),
    ensures
        // C04: ends in a terminal status and never reports more than max_iter iterations
        is_terminal(final(self).info.status()),
        final(self).info.iterations() <= final(self).settings.core_spec().max_iter,
        final(self).settings.core_spec() == old(self).settings.core_spec(),
        // C03 / C20: the status in the returned report is the final verdict of `info` (what the footer prints), i.e. the report is
        // filled AFTER the almost-check of Info::post_process
        final(self).solution.status_spec() == final(self).info.status(),
        // C07: MaxIterations is reported only with the budget used up exactly
        final(self).info.status() == SolverStatus::MaxIterations ==> final(self).info.iterations() == final(self).settings.core_spec().max_iter,
        // C20: verbose off => nothing is added to the progress table
        !final(self).settings.core_spec().verbose ==> final(self).info.printed() == old(self).info.printed(),
        // C20: verbose on => the iteration column written by this solve starts at 0, never decreases
        //      and ends at the reported iteration count; earlier output is untouched
        final(self).settings.core_spec().verbose ==> ({
            &&& final(self).info.printed().len() > old(self).info.printed().len()
            &&& column_ok(final(self).info.printed(), old(self).info.printed(), final(self).info.iterations())
            &&& final(self).info.printed().last() == final(self).info.iterations()
        }),
//@before_loop 1
        let ghost max_iter = self.settings.core_spec().max_iter;
        let ghost verbose = self.settings.core_spec().verbose;
        let ghost cs = self.settings.core_spec();
        let ghost p0 = old(self).info.printed();
        // C03: the iterate on which the figures currently held by `info` were computed (set at each info.update)
        let ghost mut figs_on = self.variables;
        // C04 (time limit): number of timer folds when the loop is entered
        let ghost f0 = timers.folds();
//@loop 1
            invariant_except_break
                self.info.status() == SolverStatus::Unsolved,
            invariant
                self.settings.core_spec() == cs, cs.max_iter == max_iter, cs.verbose == verbose,
                iter <= max_iter,
                // C04: the timers were folded at least once per completed iteration ...
                timers.folds() >= f0 + iter,
                self.variables.dims_spec() == self.prev_vars.dims_spec(),
                !verbose ==> self.info.printed() == p0,
                column_ok(self.info.printed(), p0, iter),
                verbose && self.info.printed().len() == p0.len() ==> iter == 0,
            ensures
                self.settings.core_spec() == cs,
                self.info.status() != SolverStatus::Unsolved,
                !is_almost(self.info.status()),
                self.info.status() == SolverStatus::MaxIterations ==> self.info.iterations() == max_iter && iter == max_iter,
                iter <= max_iter,
                !verbose ==> self.info.printed() == p0,
                column_ok(self.info.printed(), p0, iter),
                verbose ==> self.info.printed().len() > p0.len(),
                // either the last line printed is the current iteration, or alpha is exactly zero and one more line follows
                (self.info.iterations() == iter && (verbose ==> self.info.printed().last() == iter))
                    || (alpha == f_zero() && self.info.status() != SolverStatus::MaxIterations),
            decreases (if scaling == ScalingStrategy::PrimalDual { 1int } else { 0int }), max_iter - iter,
//@after "self.info.update("
            proof { figs_on = self.variables; }
//@before "let isdone = self.info.check_termination("
            // C04 "once time_limit is exceeded stops with MaxTime at the next iteration boundary": the solve time that the
            // termination test of iteration `iter` looks at was read after all of the earlier iterations' time was folded in
            assert(self.info.time_stamp() >= f0 + iter);
//@before "self.info.save_prev_iterate("
            // C03: what is saved for a later roll-back is a consistent pair: the figures in `info` were computed on
            // exactly the iterate that is copied into prev_vars (the step is added only afterwards)
            assert(figs_on == self.variables);
//@end

//@fn file=src/solver/core/solver.rs in="IPSolverInternals<T, D, V, R, K, C, I, SO, SE> for Solver" name=default_start rules=R1
//@contract
    ensures final(self).info.status() == old(self).info.status(), final(self).info.iterations() == old(self).info.iterations(),
            final(self).info.printed() == old(self).info.printed(),
            final(self).settings.core_spec() == old(self).settings.core_spec(),
            final(self).variables.dims_spec() == old(self).variables.dims_spec(), final(self).prev_vars.dims_spec() == old(self).prev_vars.dims_spec(),
//@end
//@fn file=src/solver/core/solver.rs in="IPSolverInternals<T, D, V, R, K, C, I, SO, SE> for Solver" name=centering_parameter rules=R1,R2
//@end
//@fn file=src/solver/core/solver.rs in="IPSolverInternals<T, D, V, R, K, C, I, SO, SE> for Solver" name=get_step_length rules=R1,R2
//@contract
    ensures final(self).info.status() == old(self).info.status(), final(self).info.iterations() == old(self).info.iterations(),
            final(self).info.printed() == old(self).info.printed(),
            final(self).settings.core_spec() == old(self).settings.core_spec(),
            final(self).variables.dims_spec() == old(self).variables.dims_spec(), final(self).prev_vars.dims_spec() == old(self).prev_vars.dims_spec(),
            final(self).variables == old(self).variables,   // the iterate itself is only read
//@end
//@fn file=src/solver/core/solver.rs in="IPSolverInternals<T, D, V, R, K, C, I, SO, SE> for Solver" name=backtrack_step_to_barrier rules=R1,R2
//@contract
    ensures final(self).info.status() == old(self).info.status(), final(self).info.iterations() == old(self).info.iterations(),
            final(self).info.printed() == old(self).info.printed(),
            final(self).settings.core_spec() == old(self).settings.core_spec(),
            final(self).variables.dims_spec() == old(self).variables.dims_spec(), final(self).prev_vars.dims_spec() == old(self).prev_vars.dims_spec(),
            final(self).variables == old(self).variables,   // the iterate itself is only read
//@loop 1
            invariant self.variables == old(self).variables, self.variables.dims_spec() == old(self).variables.dims_spec(), self.prev_vars.dims_spec() == old(self).prev_vars.dims_spec(),
                self.info.status() == old(self).info.status(), self.info.iterations() == old(self).info.iterations(),
                self.info.printed() == old(self).info.printed(),
                self.settings.core_spec() == old(self).settings.core_spec(),
//@end
//@fn file=src/solver/core/solver.rs in="IPSolverInternals<T, D, V, R, K, C, I, SO, SE> for Solver" name=strategy_checkpoint_insufficient_progress rules=R1 ret=r
//@contract
    requires old(self).info.status() != SolverStatus::Unsolved,
        old(self).variables.dims_spec() == old(self).prev_vars.dims_spec(),
    ensures
        final(self).info.iterations() == old(self).info.iterations(), final(self).info.printed() == old(self).info.printed(),
        final(self).settings.core_spec() == old(self).settings.core_spec(),
            final(self).variables.dims_spec() == old(self).variables.dims_spec(), final(self).prev_vars.dims_spec() == old(self).prev_vars.dims_spec(),
        // a strategy switch is offered once only (PrimalDual -> Dual) and re-opens the solve
        r matches StrategyCheckpoint::Update(s) ==> s == ScalingStrategy::Dual && scaling == ScalingStrategy::PrimalDual
            && final(self).info.status() == SolverStatus::Unsolved,
        // otherwise the verdict stands
        !(r matches StrategyCheckpoint::Update(_)) ==> final(self).info.status() == old(self).info.status(),
//@end
//@fn file=src/solver/core/solver.rs in="IPSolverInternals<T, D, V, R, K, C, I, SO, SE> for Solver" name=strategy_checkpoint_numerical_error rules=R1 ret=r
//@contract
    requires old(self).info.status() == SolverStatus::Unsolved,
    ensures
        final(self).info.iterations() == old(self).info.iterations(), final(self).info.printed() == old(self).info.printed(),
        final(self).settings.core_spec() == old(self).settings.core_spec(),
            final(self).variables.dims_spec() == old(self).variables.dims_spec(), final(self).prev_vars.dims_spec() == old(self).prev_vars.dims_spec(),
            final(self).variables == old(self).variables,   // the iterate itself is only read
        r matches StrategyCheckpoint::Update(s) ==> s == ScalingStrategy::Dual && scaling == ScalingStrategy::PrimalDual,
        r == StrategyCheckpoint::Fail ==> final(self).info.status() == SolverStatus::NumericalError,
        r != StrategyCheckpoint::Fail ==> final(self).info.status() == SolverStatus::Unsolved,
        is_kkt_solve_success ==> r == StrategyCheckpoint::NoUpdate,
//@end
//@fn file=src/solver/core/solver.rs in="IPSolverInternals<T, D, V, R, K, C, I, SO, SE> for Solver" name=strategy_checkpoint_small_step rules=R1,R2 ret=r
//@contract
    requires old(self).info.status() == SolverStatus::Unsolved,
    ensures
        final(self).info.iterations() == old(self).info.iterations(), final(self).info.printed() == old(self).info.printed(),
        final(self).settings.core_spec() == old(self).settings.core_spec(),
            final(self).variables.dims_spec() == old(self).variables.dims_spec(), final(self).prev_vars.dims_spec() == old(self).prev_vars.dims_spec(),
            final(self).variables == old(self).variables,   // the iterate itself is only read
        r matches StrategyCheckpoint::Update(s) ==> s == ScalingStrategy::Dual && scaling == ScalingStrategy::PrimalDual,
        r == StrategyCheckpoint::Fail ==> final(self).info.status() == SolverStatus::InsufficientProgress,
        r != StrategyCheckpoint::Fail ==> final(self).info.status() == SolverStatus::Unsolved,
//@end
//@fn file=src/solver/core/solver.rs in="IPSolverInternals<T, D, V, R, K, C, I, SO, SE> for Solver" name=strategy_checkpoint_is_scaling_success rules=R1 ret=r
//@contract
    requires old(self).info.status() == SolverStatus::Unsolved,
    ensures
        final(self).info.iterations() == old(self).info.iterations(), final(self).info.printed() == old(self).info.printed(),
        final(self).settings.core_spec() == old(self).settings.core_spec(),
            final(self).variables.dims_spec() == old(self).variables.dims_spec(), final(self).prev_vars.dims_spec() == old(self).prev_vars.dims_spec(),
            final(self).variables == old(self).variables,   // the iterate itself is only read
        // only NoUpdate or Fail: makes the unreachable!() arm in `solve` dead
        r == StrategyCheckpoint::NoUpdate || r == StrategyCheckpoint::Fail,
        r == StrategyCheckpoint::Fail ==> final(self).info.status() == SolverStatus::NumericalError,
        r == StrategyCheckpoint::NoUpdate ==> final(self).info.status() == SolverStatus::Unsolved,
//@end
}

} // verus!
fn main() {}
