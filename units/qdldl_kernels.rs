// unit `qdldl_kernels` : elimination tree and the triangular solves of the LDL engine (C12: memory safety incl. the
// `unsafe` get_unchecked accesses, termination, structural facts)
use vstd::prelude::*;
verus! {
//@include prelude/float_opaque.rs
//@include prelude/float_real_axioms.rs
//@include prelude/std_assumed.rs
//@enum file=src/qdldl/qdldl.rs name=QDLDLError
//@const file=src/qdldl/qdldl.rs name=QDLDL_UNKNOWN

// upper-triangular n x n pattern in CSC form (what check_structure / permute_symmetric hand to the engine)
pub open spec fn triu_wf(n: usize, ap: Seq<usize>, ai: Seq<usize>) -> bool {
    &&& ap.len() == n + 1
    &&& ap[0] == 0
    &&& ap[n as int] == ai.len()
    &&& forall|c: int, d: int| 0 <= c <= d <= n ==> ap[c] <= ap[d]
    &&& forall|c: int, k: int| #![trigger ap[c], ai[k]] 0 <= c < n && ap[c] <= k < ap[c + 1] ==> ai[k] <= c
}

//@fn file=src/qdldl/qdldl.rs name=_etree ret=r
//@contract
    requires
        triu_wf(n, Ap@, Ai@), n < usize::MAX,
        old(work).len() >= n, old(Lnz).len() == n, old(etree).len() == n,
    ensures
        r == Ok::<usize, QDLDLError>(0),
        final(work).len() == old(work).len(), final(Lnz).len() == n, final(etree).len() == n,
        // every node's parent (if any) is a later column: the elimination tree is a forest ordered by index
        forall|i: int| 0 <= i < n ==> final(etree)[i] == QDLDL_UNKNOWN || i < final(etree)[i] < n,
        // column counts of L are bounded by the dimension (no overflow of the counters)
        forall|i: int| 0 <= i < n ==> final(Lnz)[i] <= n,
//@iter 1
it0
//@loop 1
        invariant
            triu_wf(n, Ap@, Ai@), n < usize::MAX,
            work.len() == old(work).len(), work.len() >= n, Lnz.len() == n, etree.len() == n,
            it0.seq().len() == n, range_is(it0.seq()),
            forall|i: int| 0 <= i < n ==> etree[i] == QDLDL_UNKNOWN || (i < etree[i] < n && etree[i] < it0.index@),
            forall|i: int| 0 <= i < n ==> Lnz[i] <= it0.index@,
            forall|i: int| 0 <= i < n ==> (it0.index@ > 0 ==> #[trigger] work[i] < it0.index@),
            forall|i: int| 0 <= i < n ==> (it0.index@ == 0 ==> #[trigger] work[i] == 0),
            forall|i: int| 0 <= i < n ==> (it0.index@ == 0 ==> #[trigger] Lnz[i] == 0),
//@iter 2
it
//@loop 2
            invariant
                triu_wf(n, Ap@, Ai@), n < usize::MAX, j < n,
                work.len() == old(work).len(), work.len() >= n, Lnz.len() == n, etree.len() == n,
                it.seq().len() == Ap[j + 1] - Ap[j as int],
                forall|k: int| 0 <= k < it.seq().len() ==> *it.seq()[k] == Ai[Ap[j as int] + k],
                forall|i: int| 0 <= i < n ==> etree[i] == QDLDL_UNKNOWN || (i < etree[i] < n && etree[i] <= j),
                forall|i: int| 0 <= i < n ==> #[trigger] Lnz[i] <= j + 1,
                forall|i: int| 0 <= i < n ==> (work[i] != j ==> #[trigger] Lnz[i] <= j),
                forall|i: int| 0 <= i < n ==> work[i] <= j,
                work[j as int] == j,
//@loop 3
                invariant
                    n < usize::MAX, j < n, i <= j,
                    work.len() == old(work).len(), work.len() >= n, Lnz.len() == n, etree.len() == n,
                    forall|q: int| 0 <= q < n ==> etree[q] == QDLDL_UNKNOWN || (q < etree[q] < n && etree[q] <= j),
                    forall|q: int| 0 <= q < n ==> #[trigger] Lnz[q] <= j + 1,
                    forall|q: int| 0 <= q < n ==> (work[q] != j ==> #[trigger] Lnz[q] <= j),
                    forall|q: int| 0 <= q < n ==> work[q] <= j,
                    work[j as int] == j,
                decreases j - i,
//@end
pub open spec fn range_is(sq: Seq<usize>) -> bool { forall|k: int| 0 <= k < sq.len() ==> #[trigger] sq[k] == k }

// ------------------------------------------------------------------ triangular solves
// L is n x n strictly lower triangular in CSC form with row indices inside the matrix (what _factor_inner produces)
pub open spec fn l_wf(n: int, lp: Seq<usize>, li: Seq<usize>, lx: Seq<F>) -> bool {
    &&& lp.len() == n + 1
    &&& forall|c: int, d: int| 0 <= c <= d <= n ==> lp[c] <= lp[d]
    &&& lp[n] <= li.len() && lp[n] <= lx.len()
    &&& forall|k: int| 0 <= k < lp[n] ==> #[trigger] li[k] < n
}

// ---- what the solves compute, in real arithmetic (F-real): products with the strictly lower triangular L read off its CSC arrays
pub open spec fn l_strict(n: int, lp: Seq<usize>, li: Seq<usize>) -> bool {
    forall|c: int, j: int| #[trigger] l_in_col(n, lp, c, j) ==> li[j] > c
}
pub open spec fn l_in_col(n: int, lp: Seq<usize>, c: int, j: int) -> bool { 0 <= c < n && lp[c] <= j < lp[c + 1] }
// contribution of the entries lp[c]..hi of column c to row r of L*y
pub open spec fn lcol(lp: Seq<usize>, li: Seq<usize>, lx: Seq<F>, y: Seq<F>, r: int, c: int, hi: int) -> real decreases hi - lp[c] {
    if hi <= lp[c] { 0real } else { lcol(lp, li, lx, y, r, c, hi - 1) + (if li[hi - 1] == r { lx[hi - 1].v() * y[c].v() } else { 0real }) }
}
// (L y)_r restricted to the columns < i
pub open spec fn ltot(lp: Seq<usize>, li: Seq<usize>, lx: Seq<F>, y: Seq<F>, r: int, i: int) -> real decreases i {
    if i <= 0 { 0real } else { ltot(lp, li, lx, y, r, i - 1) + lcol(lp, li, lx, y, r, i - 1, lp[i] as int) }
}
// (L' y)_i over the entries lp[i]..hi of column i
pub open spec fn ltdot(lp: Seq<usize>, li: Seq<usize>, lx: Seq<F>, y: Seq<F>, i: int, hi: int) -> real decreases hi - lp[i] {
    if hi <= lp[i] { 0real } else { ltdot(lp, li, lx, y, i, hi - 1) + lx[hi - 1].v() * y[li[hi - 1] as int].v() }
}
pub proof fn lemma_lcol_frame(lp: Seq<usize>, li: Seq<usize>, lx: Seq<F>, y1: Seq<F>, y2: Seq<F>, r: int, c: int, hi: int)
    requires y1[c] == y2[c],
    ensures lcol(lp, li, lx, y1, r, c, hi) == lcol(lp, li, lx, y2, r, c, hi),
    decreases hi - lp[c],
{ if hi > lp[c] { lemma_lcol_frame(lp, li, lx, y1, y2, r, c, hi - 1); } }
pub proof fn lemma_ltot_frame(lp: Seq<usize>, li: Seq<usize>, lx: Seq<F>, y1: Seq<F>, y2: Seq<F>, r: int, i: int)
    requires forall|c: int| 0 <= c < i ==> y1[c] == y2[c],
    ensures ltot(lp, li, lx, y1, r, i) == ltot(lp, li, lx, y2, r, i),
    decreases i,
{ if i > 0 { lemma_ltot_frame(lp, li, lx, y1, y2, r, i - 1); lemma_lcol_frame(lp, li, lx, y1, y2, r, i - 1, lp[i] as int); } }
pub proof fn lemma_ltdot_frame(lp: Seq<usize>, li: Seq<usize>, lx: Seq<F>, y1: Seq<F>, y2: Seq<F>, i: int, hi: int)
    requires forall|j: int| lp[i] <= j < hi ==> y1[li[j] as int] == y2[li[j] as int],
    ensures ltdot(lp, li, lx, y1, i, hi) == ltdot(lp, li, lx, y2, i, hi),
    decreases hi - lp[i],
{ if hi > lp[i] { lemma_ltdot_frame(lp, li, lx, y1, y2, i, hi - 1); } }
pub open spec fn solve_witness(lp: Seq<usize>, li: Seq<usize>, lx: Seq<F>, dinv: Seq<F>, b: Seq<F>, z: Seq<F>, x: Seq<F>) -> bool {
    let n = b.len() as int;
    &&& z.len() == n && x.len() == n
    &&& forall|r: int| 0 <= r < n ==> (#[trigger] z[r]).v() + ltot(lp, li, lx, z, r, n) == b[r].v()
    &&& forall|r: int| 0 <= r < n ==> (#[trigger] x[r]).v() + ltdot(lp, li, lx, x, r, lp[r + 1] as int) == dinv[r].v() * z[r].v()
}
pub open spec fn range_from0(sq: Seq<usize>) -> bool { forall|k: int| 0 <= k < sq.len() ==> #[trigger] sq[k] == k }

//@fn file=src/qdldl/qdldl.rs name=_lsolve_unsafe rules=R1,R10,zipidx:2
//@contract
    requires l_wf(old(x)@.len() as int, Lp@, Li@, Lx@),
    ensures final(x)@.len() == old(x)@.len(),
        // C12 (real arithmetic): the result solves (I + L) x = b exactly, row by row
        l_strict(old(x)@.len() as int, Lp@, Li@) ==> forall|r: int| 0 <= r < old(x)@.len() ==>
            (#[trigger] final(x)@[r]).v() + ltot(Lp@, Li@, Lx@, final(x)@, r, old(x)@.len() as int) == old(x)@[r].v(),
//@pre
        broadcast use real_arith;
        let ghost b0 = x@;
        let ghost n = x@.len() as int;
        let ghost strict = l_strict(n, Lp@, Li@);
//@iter 1
it0
//@loop 1
        invariant x@.len() == old(x)@.len(), l_wf(x@.len() as int, Lp@, Li@, Lx@),
            it0.seq().len() == n, range_from0(it0.seq()), n == x@.len(), b0 == old(x)@, strict == l_strict(n, Lp@, Li@),
            strict ==> forall|r: int| 0 <= r < n ==> (#[trigger] x@[r]).v() + ltot(Lp@, Li@, Lx@, x@, r, it0.index@ as int) == b0[r].v(),
//@body_start 1
            broadcast use real_arith;
            let ghost gi = i as int;
            let ghost x1 = x@;
//@iter 2
it1
//@loop 2
            invariant x@.len() == old(x)@.len(), l_wf(x@.len() as int, Lp@, Li@, Lx@), i < x@.len(), f == Lp@[i as int], l == Lp@[i + 1],
                r14_n1 <= l - f, r14_lo1_0 == f, r14_lo1_1 == f,
                it1.seq().len() == r14_n1, range_from0(it1.seq()), r14_n1 == l - f, gi == i, n == x@.len(), xi == x1[gi], strict == l_strict(n, Lp@, Li@), x1.len() == n,
                strict ==> forall|c: int| 0 <= c <= gi ==> #[trigger] x@[c] == x1[c],
                strict ==> forall|r: int| 0 <= r < n ==> (#[trigger] x@[r]).v() + ltot(Lp@, Li@, Lx@, x1, r, gi) + lcol(Lp@, Li@, Lx@, x1, r, gi, f + it1.index@) == b0[r].v(),
//@body_start 2
                broadcast use real_arith;
                let ghost gj = f as int + r14_i1 as int;
                let ghost x2 = x@;
                proof {
                    assert(Lp@[gi] <= Lp@[gi + 1] <= Lp@[n]);
                    if strict { assert(l_in_col(n, Lp@, gi, gj)); assert(Li@[gj] > gi); }
                    assert(forall|r: int| 0 <= r < n ==> lcol(Lp@, Li@, Lx@, x1, r, gi, gj + 1) == lcol(Lp@, Li@, Lx@, x1, r, gi, gj) + (if Li@[gj] == r { Lx@[gj].v() * x1[gi].v() } else { 0real }));
                }
//@body_end 1
            proof {
                if strict {
                    assert forall|r: int| 0 <= r < n implies (#[trigger] x@[r]).v() + ltot(Lp@, Li@, Lx@, x@, r, gi + 1) == b0[r].v() by {
                        lemma_ltot_frame(Lp@, Li@, Lx@, x1, x@, r, gi);
                        lemma_lcol_frame(Lp@, Li@, Lx@, x1, x@, r, gi, Lp@[gi + 1] as int);
                    }
                }
            }
//@end
//@fn file=src/qdldl/qdldl.rs name=_dltsolve_unsafe rules=R1,R10,zipidx:2
//@contract
    requires l_wf(old(x)@.len() as int, Lp@, Li@, Lx@), Dinv@.len() >= old(x)@.len(),
    ensures final(x)@.len() == old(x)@.len(),
        // C12 (real arithmetic): the result solves D (I + L)' x = b, i.e. x_i + (L' x)_i = b_i / d_i exactly, row by row
        l_strict(old(x)@.len() as int, Lp@, Li@) ==> forall|r: int| 0 <= r < old(x)@.len() ==>
            (#[trigger] final(x)@[r]).v() + ltdot(Lp@, Li@, Lx@, final(x)@, r, Lp@[r + 1] as int) == Dinv@[r].v() * old(x)@[r].v(),
//@pre
        broadcast use real_arith;
        let ghost b0 = x@;
        let ghost n = x@.len() as int;
        let ghost strict = l_strict(n, Lp@, Li@);
//@iter 1
it0
//@loop 1
        invariant x@.len() == old(x)@.len(), l_wf(x@.len() as int, Lp@, Li@, Lx@), Dinv@.len() >= x@.len(),
            it0.seq().len() == n, (forall|k: int| 0 <= k < n ==> #[trigger] it0.seq()[k] == n - 1 - k), n == x@.len(), b0 == old(x)@, strict == l_strict(n, Lp@, Li@),
            forall|r: int| 0 <= r < n - it0.index@ ==> #[trigger] x@[r] == b0[r],
            strict ==> forall|r: int| n - it0.index@ <= r < n ==> (#[trigger] x@[r]).v() + ltdot(Lp@, Li@, Lx@, x@, r, Lp@[r + 1] as int) == Dinv@[r].v() * b0[r].v(),
//@body_start 1
            broadcast use real_arith;
            let ghost gi = i as int;
            let ghost x1 = x@;
            proof { assert(Lp@[gi] <= Lp@[gi + 1] <= Lp@[n]); }
//@iter 2
it1
//@loop 2
            invariant x@.len() == old(x)@.len(), l_wf(x@.len() as int, Lp@, Li@, Lx@), i < x@.len(), f == Lp@[i as int], l == Lp@[i + 1],
                r14_n1 <= l - f, r14_lo1_0 == f, r14_lo1_1 == f,
                it1.seq().len() == r14_n1, range_from0(it1.seq()), r14_n1 == l - f, gi == i, n == x@.len(), x@ == x1,
                s.v() == ltdot(Lp@, Li@, Lx@, x1, gi, f + it1.index@),
//@body_start 2
                broadcast use real_arith;
                proof {
                    let gj = f as int + r14_i1 as int;
                    assert(ltdot(Lp@, Li@, Lx@, x1, gi, gj + 1) == ltdot(Lp@, Li@, Lx@, x1, gi, gj) + Lx@[gj].v() * x1[Li@[gj] as int].v());
                }
//@body_end 1
            proof {
                if strict {
                    assert forall|r: int| gi <= r < n implies (#[trigger] x@[r]).v() + ltdot(Lp@, Li@, Lx@, x@, r, Lp@[r + 1] as int) == Dinv@[r].v() * b0[r].v() by {
                        assert forall|j: int| Lp@[r] <= j < Lp@[r + 1] implies x1[Li@[j] as int] == x@[Li@[j] as int] by {
                            assert(l_in_col(n, Lp@, r, j)); assert(Li@[j] > r);
                        }
                        lemma_ltdot_frame(Lp@, Li@, Lx@, x1, x@, r, Lp@[r + 1] as int);
                        if r == gi { assert(Dinv@[gi].v() * b0[gi].v() == b0[gi].v() * Dinv@[gi].v()) by(nonlinear_arith); }
                    }
                }
            }
//@end
//@fn file=src/qdldl/qdldl.rs name=_ltsolve_unsafe rules=R1,R10,zipidx:2
//@contract
    requires l_wf(old(x)@.len() as int, Lp@, Li@, Lx@),
    ensures final(x)@.len() == old(x)@.len(),
        // C12 (real arithmetic): the result solves (I + L)' x = b exactly, row by row
        l_strict(old(x)@.len() as int, Lp@, Li@) ==> forall|r: int| 0 <= r < old(x)@.len() ==>
            (#[trigger] final(x)@[r]).v() + ltdot(Lp@, Li@, Lx@, final(x)@, r, Lp@[r + 1] as int) == old(x)@[r].v(),
//@pre
        broadcast use real_arith;
        let ghost b0 = x@;
        let ghost n = x@.len() as int;
        let ghost strict = l_strict(n, Lp@, Li@);
//@iter 1
it0
//@loop 1
        invariant x@.len() == old(x)@.len(), l_wf(x@.len() as int, Lp@, Li@, Lx@),
            it0.seq().len() == n, (forall|k: int| 0 <= k < n ==> #[trigger] it0.seq()[k] == n - 1 - k), n == x@.len(), b0 == old(x)@, strict == l_strict(n, Lp@, Li@),
            forall|r: int| 0 <= r < n - it0.index@ ==> #[trigger] x@[r] == b0[r],
            strict ==> forall|r: int| n - it0.index@ <= r < n ==> (#[trigger] x@[r]).v() + ltdot(Lp@, Li@, Lx@, x@, r, Lp@[r + 1] as int) == b0[r].v(),
//@body_start 1
            broadcast use real_arith;
            let ghost gi = i as int;
            let ghost x1 = x@;
            proof { assert(Lp@[gi] <= Lp@[gi + 1] <= Lp@[n]); }
//@iter 2
it1
//@loop 2
            invariant x@.len() == old(x)@.len(), l_wf(x@.len() as int, Lp@, Li@, Lx@), i < x@.len(), f == Lp@[i as int], l == Lp@[i + 1],
                r14_n1 <= l - f, r14_lo1_0 == f, r14_lo1_1 == f,
                it1.seq().len() == r14_n1, range_from0(it1.seq()), r14_n1 == l - f, gi == i, n == x@.len(), x@ == x1,
                s.v() == ltdot(Lp@, Li@, Lx@, x1, gi, f + it1.index@),
//@body_start 2
                broadcast use real_arith;
                proof {
                    let gj = f as int + r14_i1 as int;
                    assert(ltdot(Lp@, Li@, Lx@, x1, gi, gj + 1) == ltdot(Lp@, Li@, Lx@, x1, gi, gj) + Lx@[gj].v() * x1[Li@[gj] as int].v());
                }
//@body_end 1
            proof {
                if strict {
                    assert forall|r: int| gi <= r < n implies (#[trigger] x@[r]).v() + ltdot(Lp@, Li@, Lx@, x@, r, Lp@[r + 1] as int) == b0[r].v() by {
                        assert forall|j: int| Lp@[r] <= j < Lp@[r + 1] implies x1[Li@[j] as int] == x@[Li@[j] as int] by {
                            assert(l_in_col(n, Lp@, r, j)); assert(Li@[j] > r);
                        }
                        lemma_ltdot_frame(Lp@, Li@, Lx@, x1, x@, r, Lp@[r + 1] as int);
                        if r == gi {  }
                    }
                }
            }
//@end
//@fn file=src/qdldl/qdldl.rs name=_solve rules=R1
//@contract
    requires l_wf(old(b)@.len() as int, Lp@, Li@, Lx@), Dinv@.len() >= old(b)@.len(),
    ensures final(b)@.len() == old(b)@.len(),
        // C12 ("solves reproduce b", exact in real arithmetic): with z the intermediate vector, (I+L) z = b and D (I+L)' x = z,
        // i.e. x solves (I+L) D (I+L)' x = b for the factors as stored (Dinv holding the reciprocals of D)
        l_strict(old(b)@.len() as int, Lp@, Li@) ==> exists|z: Seq<F>| solve_witness(Lp@, Li@, Lx@, Dinv@, old(b)@, z, final(b)@),
//@after "_lsolve_unsafe(Lp, Li, Lx, b);"
    let ghost z = b@;
//@after "_dltsolve_unsafe(Lp, Li, Lx, Dinv, b);"
    proof { if l_strict(old(b)@.len() as int, Lp@, Li@) { assert(solve_witness(Lp@, Li@, Lx@, Dinv@, old(b)@, z, b@)); } }
//@end

// ------------------------------------------------------------------ permutations
pub open spec fn in_range(p: Seq<usize>, n: int) -> bool { forall|i: int| 0 <= i < p.len() ==> #[trigger] p[i] < n }

//@fn file=src/qdldl/qdldl.rs name=permute rules=R1,R17,R10,zipidx:1=im,drop:debug_assert!(
//@contract
    requires in_range(p@, b@.len() as int),
    ensures
        final(x)@.len() == old(x)@.len(),
        // x[i] = b[p[i]] for the common prefix (zip semantics); the rest of x is untouched
        forall|i: int| 0 <= i < p@.len() && i < old(x)@.len() ==> #[trigger] final(x)@[i] == b@[p@[i] as int],
        forall|i: int| p@.len() <= i < old(x)@.len() ==> #[trigger] final(x)@[i] == old(x)@[i],
//@loop 1
        invariant x@.len() == old(x)@.len(), in_range(p@, b@.len() as int), r14_n1 <= p@.len(), r14_n1 <= x@.len(),
            forall|i: int| 0 <= i < r14_i1 ==> #[trigger] x@[i] == b@[p@[i] as int],
            forall|i: int| r14_i1 <= i < x@.len() ==> #[trigger] x@[i] == old(x)@[i],
//@end
//@fn file=src/qdldl/qdldl.rs name=ipermute rules=R1,R17,R10,zipidx:1=ii,drop:debug_assert!(
//@contract
    requires in_range(p@, old(x)@.len() as int),
    ensures
        final(x)@.len() == old(x)@.len(),
        // x[p[i]] = b[i]; positions that are not an image of p keep their value
        forall|i: int| 0 <= i < p@.len() && i < b@.len() && (forall|i2: int| i < i2 < p@.len() && i2 < b@.len() ==> p@[i2] != p@[i])
            ==> final(x)@[#[trigger] p@[i] as int] == b@[i],
        forall|s: int| 0 <= s < old(x)@.len() && (forall|i: int| 0 <= i < p@.len() && i < b@.len() ==> p@[i] != s) ==> #[trigger] final(x)@[s] == old(x)@[s],
//@loop 1
        invariant x@.len() == old(x)@.len(), in_range(p@, x@.len() as int), r14_n1 <= p@.len(), r14_n1 <= b@.len(),
            forall|i: int| 0 <= i < r14_i1 && (forall|i2: int| i < i2 < r14_i1 ==> p@[i2] != p@[i]) ==> x@[#[trigger] p@[i] as int] == b@[i],
            forall|s: int| 0 <= s < x@.len() && (forall|i: int| 0 <= i < r14_i1 ==> p@[i] != s) ==> #[trigger] x@[s] == old(x)@[s],
//@end

// ------------------------------------------------------------------ value updates of the engine's permuted copy (C08 / C12)
//@struct file=src/algebra/csc/core.rs name=CscMatrix
//@struct file=src/qdldl/qdldl.rs name=QDLDLWorkspace
//@struct file=src/qdldl/qdldl.rs name=QDLDLFactorisation rules=R12
// entry idx of the user's matrix lives in slot AtoPAPt[idx] of the permuted upper triangle that is factored
pub open spec fn slot_of(f: QDLDLFactorisation<F>, indices: Seq<usize>, k: int) -> int { f.workspace.AtoPAPt@[indices[k] as int] as int }
pub open spec fn slots_ok(f: QDLDLFactorisation<F>, indices: Seq<usize>) -> bool {
    forall|k: int| 0 <= k < indices.len() ==> indices[k] < f.workspace.AtoPAPt@.len() && 0 <= #[trigger] slot_of(f, indices, k) < f.workspace.triuA.nzval@.len()
}
pub open spec fn slots_distinct(f: QDLDLFactorisation<F>, indices: Seq<usize>) -> bool {
    forall|a: int, b: int| 0 <= a < b < indices.len() ==> #[trigger] slot_of(f, indices, a) != #[trigger] slot_of(f, indices, b)
}
// everything but the values of the permuted copy is left alone
pub open spec fn only_values_change(f0: QDLDLFactorisation<F>, f1: QDLDLFactorisation<F>) -> bool {
    f1 == (QDLDLFactorisation::<F> { workspace: QDLDLWorkspace::<F> { triuA: CscMatrix::<F> { nzval: f1.workspace.triuA.nzval, ..f0.workspace.triuA }, ..f0.workspace }, ..f0 })
    && f1.workspace.triuA.nzval@.len() == f0.workspace.triuA.nzval@.len()
}
pub open spec fn untouched_slot(f: QDLDLFactorisation<F>, indices: Seq<usize>, n: int, s: int) -> bool { forall|k: int| 0 <= k < n ==> #[trigger] slot_of(f, indices, k) != s }

impl QDLDLFactorisation<F> {
//@fn file=src/qdldl/qdldl.rs in="impl<T> QDLDLFactorisation<T>" name=update_values rules=R1,R3,zipidx:1=i
//@contract
    requires slots_ok(*old(self), indices@), values@.len() >= indices@.len(),
    ensures
        only_values_change(*old(self), *final(self)),
        // C08 / C12: the new value of user entry indices[k] is written to its slot of the permuted copy (last writer wins)
        forall|k: int| 0 <= k < indices@.len() && (forall|k2: int| k < k2 < indices@.len() ==> slot_of(*old(self), indices@, k2) != slot_of(*old(self), indices@, k))
            ==> final(self).workspace.triuA.nzval@[#[trigger] slot_of(*old(self), indices@, k)] == values@[k],
        forall|s: int| 0 <= s < old(self).workspace.triuA.nzval@.len() && untouched_slot(*old(self), indices@, indices@.len() as int, s)
            ==> #[trigger] final(self).workspace.triuA.nzval@[s] == old(self).workspace.triuA.nzval@[s],
//@loop 1
        invariant
            i_ctr == r14_i1, r14_n1 == indices@.len(), values@.len() >= indices@.len(), slots_ok(*old(self), indices@),
            *AtoPAPt == old(self).workspace.AtoPAPt, nzval@.len() == old(self).workspace.triuA.nzval@.len(),
            forall|k: int| 0 <= k < i_ctr && (forall|k2: int| k < k2 < i_ctr ==> slot_of(*old(self), indices@, k2) != slot_of(*old(self), indices@, k))
                ==> nzval@[#[trigger] slot_of(*old(self), indices@, k)] == values@[k],
            forall|s: int| 0 <= s < nzval@.len() && untouched_slot(*old(self), indices@, i_ctr as int, s) ==> #[trigger] nzval@[s] == old(self).workspace.triuA.nzval@[s],
//@body_start 1
            let ghost gk = i_ctr as int;
            let ghost nz1 = nzval@;
            proof { assert(0 <= slot_of(*old(self), indices@, gk) < nzval@.len()); }
//@body_end 1
            proof {
                let d = slot_of(*old(self), indices@, gk);
                assert forall|s: int| 0 <= s < nzval@.len() && untouched_slot(*old(self), indices@, gk + 1, s) implies #[trigger] nzval@[s] == old(self).workspace.triuA.nzval@[s] by {
                    assert(slot_of(*old(self), indices@, gk) != s);
                    assert(untouched_slot(*old(self), indices@, gk, s));
                    assert(nz1[s] == old(self).workspace.triuA.nzval@[s]);
                }
                assert forall|k: int| 0 <= k < gk + 1 && (forall|k2: int| k < k2 < gk + 1 ==> slot_of(*old(self), indices@, k2) != slot_of(*old(self), indices@, k))
                    implies nzval@[#[trigger] slot_of(*old(self), indices@, k)] == values@[k] by {
                    if k < gk {
                        assert(slot_of(*old(self), indices@, gk) != slot_of(*old(self), indices@, k));
                        assert(forall|k2: int| k < k2 < gk ==> slot_of(*old(self), indices@, k2) != slot_of(*old(self), indices@, k));
                        assert(nz1[slot_of(*old(self), indices@, k)] == values@[k]);
                    }
                }
            }
//@end
//@fn file=src/qdldl/qdldl.rs in="impl<T> QDLDLFactorisation<T>" name=scale_values rules=R1,zipidx:1=i
//@contract
    requires slots_ok(*old(self), indices@), slots_distinct(*old(self), indices@),
    ensures
        only_values_change(*old(self), *final(self)),
        // each listed entry is scaled exactly once, in its slot of the permuted copy; nothing else changes
        forall|k: int| 0 <= k < indices@.len() ==> final(self).workspace.triuA.nzval@[#[trigger] slot_of(*old(self), indices@, k)]
            == f_mul(old(self).workspace.triuA.nzval@[slot_of(*old(self), indices@, k)], scale),
        forall|s: int| 0 <= s < old(self).workspace.triuA.nzval@.len() && untouched_slot(*old(self), indices@, indices@.len() as int, s)
            ==> #[trigger] final(self).workspace.triuA.nzval@[s] == old(self).workspace.triuA.nzval@[s],
//@iter 1
it
//@loop 1
        invariant
            it.seq().len() == r14_n1, it.seq().len() == indices@.len(), slots_ok(*old(self), indices@), slots_distinct(*old(self), indices@),
            forall|q: int| 0 <= q < it.seq().len() ==> #[trigger] it.seq()[q] == q,
            *AtoPAPt == old(self).workspace.AtoPAPt, nzval@.len() == old(self).workspace.triuA.nzval@.len(),
            forall|k: int| 0 <= k < it.index@ ==> nzval@[#[trigger] slot_of(*old(self), indices@, k)] == f_mul(old(self).workspace.triuA.nzval@[slot_of(*old(self), indices@, k)], scale),
            forall|k: int| it.index@ <= k < indices@.len() ==> nzval@[#[trigger] slot_of(*old(self), indices@, k)] == old(self).workspace.triuA.nzval@[slot_of(*old(self), indices@, k)],
            forall|s: int| 0 <= s < nzval@.len() && untouched_slot(*old(self), indices@, indices@.len() as int, s) ==> #[trigger] nzval@[s] == old(self).workspace.triuA.nzval@[s],
//@body_start 1
            let ghost gk = r14_i1 as int;
            let ghost nz1 = nzval@;
            proof { assert(0 <= slot_of(*old(self), indices@, gk) < nzval@.len()); }
//@body_end 1
            proof {
                assert forall|k: int| 0 <= k < gk implies nzval@[#[trigger] slot_of(*old(self), indices@, k)] == f_mul(old(self).workspace.triuA.nzval@[slot_of(*old(self), indices@, k)], scale) by {
                    assert(slot_of(*old(self), indices@, k) != slot_of(*old(self), indices@, gk));
                    assert(nz1[slot_of(*old(self), indices@, k)] == f_mul(old(self).workspace.triuA.nzval@[slot_of(*old(self), indices@, k)], scale));
                }
                assert forall|k: int| gk + 1 <= k < indices@.len() implies nzval@[#[trigger] slot_of(*old(self), indices@, k)] == old(self).workspace.triuA.nzval@[slot_of(*old(self), indices@, k)] by {
                    assert(slot_of(*old(self), indices@, gk) != slot_of(*old(self), indices@, k));
                    assert(nz1[slot_of(*old(self), indices@, k)] == old(self).workspace.triuA.nzval@[slot_of(*old(self), indices@, k)]);
                }
                assert forall|s: int| 0 <= s < nzval@.len() && untouched_slot(*old(self), indices@, indices@.len() as int, s) implies #[trigger] nzval@[s] == old(self).workspace.triuA.nzval@[s] by {
                    assert(slot_of(*old(self), indices@, gk) != s);
                    assert(nz1[s] == old(self).workspace.triuA.nzval@[s]);
                }
            }
//@end

//@fn file=src/qdldl/qdldl.rs in="impl<T> QDLDLFactorisation<T>" name=offset_values rules=R1,R6,zipidx:1=ii
//@contract
    requires slots_ok(*old(self), indices@), slots_distinct(*old(self), indices@), indices@.len() == signs@.len(),
    ensures
        only_values_change(*old(self), *final(self)),
        // C12 (regularisation shifts): entry k moves by +offset / -offset / not at all according to the sign of signs[k]
        forall|k: int| 0 <= k < indices@.len() ==> final(self).workspace.triuA.nzval@[#[trigger] slot_of(*old(self), indices@, k)]
            == shifted(old(self).workspace.triuA.nzval@[slot_of(*old(self), indices@, k)], offset, signs@[k]),
        forall|s: int| 0 <= s < old(self).workspace.triuA.nzval@.len() && untouched_slot(*old(self), indices@, indices@.len() as int, s)
            ==> #[trigger] final(self).workspace.triuA.nzval@[s] == old(self).workspace.triuA.nzval@[s],
//@iter 1
it
//@loop 1
        invariant
            it.seq().len() == r14_n1, it.seq().len() == indices@.len(), slots_ok(*old(self), indices@), slots_distinct(*old(self), indices@), indices@.len() == signs@.len(),
            forall|q: int| 0 <= q < it.seq().len() ==> #[trigger] it.seq()[q] == q,
            *AtoPAPt == old(self).workspace.AtoPAPt, nzval@.len() == old(self).workspace.triuA.nzval@.len(),
            forall|k: int| 0 <= k < it.index@ ==> nzval@[#[trigger] slot_of(*old(self), indices@, k)] == shifted(old(self).workspace.triuA.nzval@[slot_of(*old(self), indices@, k)], offset, signs@[k]),
            forall|k: int| it.index@ <= k < indices@.len() ==> nzval@[#[trigger] slot_of(*old(self), indices@, k)] == old(self).workspace.triuA.nzval@[slot_of(*old(self), indices@, k)],
            forall|s: int| 0 <= s < nzval@.len() && untouched_slot(*old(self), indices@, indices@.len() as int, s) ==> #[trigger] nzval@[s] == old(self).workspace.triuA.nzval@[s],
//@body_start 1
            let ghost gk = r14_i1 as int;
            let ghost nz1 = nzval@;
            proof { assert(0 <= slot_of(*old(self), indices@, gk) < nzval@.len()); }
//@body_end 1
            proof {
                assert forall|k: int| 0 <= k < gk implies nzval@[#[trigger] slot_of(*old(self), indices@, k)] == shifted(old(self).workspace.triuA.nzval@[slot_of(*old(self), indices@, k)], offset, signs@[k]) by {
                    assert(slot_of(*old(self), indices@, k) != slot_of(*old(self), indices@, gk));
                    assert(nz1[slot_of(*old(self), indices@, k)] == shifted(old(self).workspace.triuA.nzval@[slot_of(*old(self), indices@, k)], offset, signs@[k]));
                }
                assert forall|k: int| gk + 1 <= k < indices@.len() implies nzval@[#[trigger] slot_of(*old(self), indices@, k)] == old(self).workspace.triuA.nzval@[slot_of(*old(self), indices@, k)] by {
                    assert(slot_of(*old(self), indices@, gk) != slot_of(*old(self), indices@, k));
                    assert(nz1[slot_of(*old(self), indices@, k)] == old(self).workspace.triuA.nzval@[slot_of(*old(self), indices@, k)]);
                }
                assert forall|s: int| 0 <= s < nzval@.len() && untouched_slot(*old(self), indices@, indices@.len() as int, s) implies #[trigger] nzval@[s] == old(self).workspace.triuA.nzval@[s] by {
                    assert(slot_of(*old(self), indices@, gk) != s);
                    assert(nz1[s] == old(self).workspace.triuA.nzval@[s]);
                }
            }
//@end

//@fn file=src/qdldl/qdldl.rs in="impl<T> QDLDLFactorisation<T>" name=solve rules=R1,R6
//@contract
    requires
        !old(self).is_symbolic, old(b)@.len() == old(self).D@.len(),
        // the factor is in the shape _factor leaves it in, and perm is a permutation of 0..n
        l_wf(old(b)@.len() as int, old(self).L.colptr@, old(self).L.rowval@, old(self).L.nzval@), old(self).Dinv@.len() >= old(b)@.len(),
        old(self).workspace.fwork@.len() == old(b)@.len(), old(self).perm@.len() == old(b)@.len(), in_range(old(self).perm@, old(b)@.len() as int),
    ensures
        final(b)@.len() == old(b)@.len(),
        // the factorisation itself is not modified by a solve (only the float workspace is)
        final(self).L == old(self).L, final(self).D == old(self).D, final(self).Dinv == old(self).Dinv, final(self).perm == old(self).perm,
        final(self).workspace.triuA == old(self).workspace.triuA, final(self).workspace.AtoPAPt == old(self).workspace.AtoPAPt,
        // C12 ("solves reproduce b", exact in real arithmetic): in the permuted ordering, with pb[i] = b[perm[i]], the returned x satisfies
        // (I+L) D (I+L)' (P x) = P b : there are z, y with (I+L) z = pb, D (I+L)' y = z, and x[perm[i]] = y[i]
        l_strict(old(b)@.len() as int, old(self).L.colptr@, old(self).L.rowval@) && distinct(old(self).perm@) ==>
            exists|z: Seq<F>, y: Seq<F>| #[trigger] solve_witness(old(self).L.colptr@, old(self).L.rowval@, old(self).L.nzval@, old(self).Dinv@, permuted(old(b)@, old(self).perm@), z, y)
                && forall|i: int| 0 <= i < old(b)@.len() ==> #[trigger] final(b)@[old(self).perm@[i] as int] == y[i],
//@pre
        let ghost b0 = b@;
        let ghost pm = self.perm@;
//@after "permute(tmp, b, &self.perm);"
        let ghost t0 = tmp@;
        proof { assert(t0 =~= permuted(b0, pm)); }
//@after "ipermute(b, tmp, &self.perm);"
        proof {
            if l_strict(b0.len() as int, self.L.colptr@, self.L.rowval@) && distinct(pm) {
                let z = choose|z: Seq<F>| solve_witness(self.L.colptr@, self.L.rowval@, self.L.nzval@, self.Dinv@, t0, z, tmp@);
                assert(solve_witness(self.L.colptr@, self.L.rowval@, self.L.nzval@, self.Dinv@, permuted(b0, pm), z, tmp@));
                assert forall|i: int| 0 <= i < b0.len() implies #[trigger] b@[pm[i] as int] == tmp@[i] by {
                    assert(forall|i2: int| i < i2 < pm.len() && i2 < tmp@.len() ==> pm[i2] != pm[i]);
                }
            }
        }
//@end
}
pub open spec fn distinct(p: Seq<usize>) -> bool { forall|i: int, j: int| 0 <= i < j < p.len() ==> p[i] != p[j] }
pub open spec fn permuted(b: Seq<F>, p: Seq<usize>) -> Seq<F> { Seq::new(b.len(), |i: int| b[p[i] as int]) }
pub open spec fn shifted(v: F, offset: F, sign: i8) -> F { if sign > 0 { f_add(v, offset) } else if sign < 0 { f_sub(v, offset) } else { v } }

} // verus!
fn main() {}
