// unit `qdldl_perm` : permutation validation of the LDL engine (C12)
use vstd::prelude::*;
verus! {
//@include prelude/std_assumed.rs
//@enum file=src/qdldl/qdldl.rs name=QDLDLError

// C12: "invalid permutation vectors (wrong range or repeated entries) are reported as errors"
pub open spec fn is_perm(p: Seq<usize>) -> bool {
    &&& forall|i: int| 0 <= i < p.len() ==> #[trigger] p[i] < p.len()
    &&& forall|i: int, j: int| 0 <= i < j < p.len() ==> #[trigger] p[i] != #[trigger] p[j]
}

//@fn file=src/qdldl/qdldl.rs name=_invperm rules=R3 ret=r
//@contract
    requires p@.len() < usize::MAX,
    ensures
        r is Ok <==> is_perm(p@),
        r matches Ok(b) ==> b@.len() == p@.len() && forall|i: int| 0 <= i < p@.len() ==> #[trigger] b@[p@[i] as int] == i,
//@iter 1
it
//@loop 1
        invariant
            i_ctr == it.index@,
            it.seq().len() == p@.len(),
            forall|k: int| 0 <= k < it.seq().len() ==> *(#[trigger] it.seq()[k]) == p@[k],
            b@.len() == p@.len(), p@.len() < usize::MAX,
            forall|k: int| 0 <= k < i_ctr ==> #[trigger] p@[k] < p@.len(),
            forall|k: int| 0 <= k < i_ctr ==> #[trigger] b@[p@[k] as int] == k,
            forall|v: int| 0 <= v < b@.len() && #[trigger] b@[v] != usize::MAX ==> b@[v] < i_ctr && p@[b@[v] as int] == v,
//@before "return Err(QDLDLError::InvalidPermutation)"
            proof {
                // witness that p is not a permutation: out of range, or the slot was taken by an earlier index
                if *j < p.len() {
                    let k0 = b@[*j as int] as int;
                    assert(p@[k0] == p@[i as int]);
                    assert(k0 < i);
                }
                assert(!is_perm(p@));
            }
//@before "Ok(b)"
    proof {
        // all slots were filled by distinct indices => p is injective and in range
        assert(i_ctr == p@.len());
        assert(is_perm(p@)) by {
            assert forall|i: int, j: int| 0 <= i < j < p@.len() implies #[trigger] p@[i] != #[trigger] p@[j] by {
                if p@[i] == p@[j] { assert(b@[p@[i] as int] == i); assert(b@[p@[j] as int] == j); }
            }
        }
    }
//@end

} // verus!
fn main() {}
