// unit `csc_build` : construction and canonicalisation of the compressed-column matrix type against the dense meaning (C16)
// float model: F-opaque (prelude/float_opaque.rs): `+` on values is the uninterpreted f_add, so "duplicates are summed" is stated
// as the LEFT FOLD of f_add in storage / input order (gfold, acc) and no algebraic law of + is used anywhere.
//
// Dense meaning used throughout:  dense(A, r, c) : Option<F> = the stored values of column c whose row index is r, folded from
// left to right (None = no stored entry);  tfold(I, J, V, r, c) = the same fold over the triplets (r, c, .) in list order.
// lemma_cell_stored / lemma_triplet_present: Some <=> a stored entry / a triplet with these coordinates exists.
//
// PROVED from the real bodies (src/algebra/csc/core.rs unless noted), all unbounded:
//   deduplicate        dims consistent + rows nondecreasing per column  =>  Ok; m, n kept; dims_ok, colptr_mono, rows STRICTLY
//                      increasing per column; rows_in_range kept both ways; dense(final) == dense(old) for every cell; array level
//                      (dedup_of): slot k moves to slot nheads(k+1)-1, the last slot of each run carries acc = left fold of the run
//   sort_indices       dims consistent => Ok; exists a permutation that stays inside every column, sorts it by row index and is
//                      stable (cols_sorted_by); colptr unchanged; rows nondecreasing; dense(final) == dense(old)
//   canonicalize       Ok <=> dims_ok && colptr_mono of the input (else untouched); on Ok: strictly sorted columns, dense meaning
//                      unchanged, and canonical(final) <=> all input rows < m   (the row range is NOT checked by the code)
//   check_dimensions   Ok <=> dims_ok && colptr_mono, error kinds (as in unit csc_core; re-proved here for the composition)
//   new_from_triplets  STATEMENT SLICE `for &c in J.iter() {` .. `M.colcount_to_colptr();` (column counts, consolidation pass,
//                      resize, prefix sums) as fn triplets_consolidate(M, I, J, V, n):  dims_ok, colptr_mono, rows strictly increasing,
//                      rows_in_range <=> all I < m, and dense(result, r, c) == tfold(I, J, V, r, c) for every cell: each stored
//                      entry is the left-to-right sum of its triplets in INPUT order, every (row, column) of the input is stored
//                      exactly once and nothing else is.  Proved through: permutation-invariance of the column counts
//                      (lemma_cnt_perm), consolidation of a sorted column (lemma_dedup_fold), stable sort keeps the order of the
//                      triplets of one cell (lemma_fold_match)
//   From<rows>         STATEMENT SLICE `colptr.push(0);` .. the `for c in 0..n` nest, as fn from_rows_fill(rows, m, n, colptr,
//                      rowval, nzval): the three vectors form a canonical matrix with dense(A, r, c) == rows[r][c], zeros not stored
//   findnz             I = rowval, V = nzval, J[k] = the column whose pointer range contains k
//   zeros, identity    canonical; every cell None / cell (c, c) = Some(one), others None
//   utils.rs invperm   p in range and without repeats => no assert fires, result[p[i]] == i
//   (from units/inc: new, spalloc, nnz, nrows, ncols, colptr_to_colcount, colcount_to_colptr — callees, proved from their bodies)
//
// DROPPED (statement slice): the prefix of new_from_triplets — the two length assert_eq!, spalloc, the identity fill of the
//   work array, sortperm_by with the capturing comparator J[a].cmp(&J[b]).then(I[a].cmp(&I[b])), the two permute calls — and the
//   final `M`; of From<rows> the collection of the rows into Vec<Vec<T>> (map / collect closures), m, n, the assert! that all rows
//   have length n, the nnz count, the three with_capacity allocations and the final struct literal (its `requires`: rows.len() == m,
//   every row of length n, three empty vectors).  What the prefix of new_from_triplets establishes is the slice's `requires` (sorted_input): M.rowval = I o p, M.nzval = V o p for a permutation
//   p (inverse q) that is a STABLE sort by (column, row); M.colptr = [0, .., 0, len]; lengths equal.  witness_sorted_input shows
//   the statement is satisfiable.  qdldl::permute (x[i] = b[p[i]]) is under contract in unit qdldl_kernels.
//
// ASSUMED:
//   * rule R40: Vec<(usize, T)>::sort_by_key(|&(r, _)| r) is a stable sort by the first component and a permutation
//     (prelude/sort_assumed.rs: sort_pairs_by_key0, pairs_stably_sorted; std documentation of slice::sort_by_key)
//   * rule R41: J.extend(repeat(c).take(n)) appends n copies of c (prelude/sort_assumed.rs: vec_extend_repeat)
//   * the sorting prefix of new_from_triplets (above); all J < n (caller's obligation, see finding 1);
//     2 * len <= usize::MAX (a Vec<usize> of that length exists, so 8 * len <= isize::MAX; Verus does not know the allocation limit.
//     It is needed because colcount_to_colptr also adds colptr[n] == len, left there by spalloc, into its running sum)
//   * float_opaque, std_assumed preludes as in every opaque unit
//
// Observations made while stating the contracts (not failures of the proved properties):
//   1. new_from_triplets does not check the coordinates: a triplet with J[k] == n is counted into colptr[n], never read and
//      silently dropped by the resize (J[k] > n panics on the index); I[k] >= m is stored as is (result not canonical).
//   2. utils::invperm's duplicate test `b[*j] == 0` cannot see a repeat of the value p[0] (slot p[0] legitimately holds 0):
//      invperm(&[1, 1]) returns [0, 1] instead of panicking.
use vstd::prelude::*;
verus! {
//@include prelude/float_opaque.rs
//@include prelude/std_assumed.rs
//@include prelude/sort_assumed.rs
//@struct file=src/algebra/csc/core.rs name=CscMatrix
//@include units/inc/csc_colcount_specs.rs
//@enum file=src/algebra/error_types.rs name=SparseFormatError rules=R12 derive="PartialEq, Eq, Clone, Copy, Structural"


// ---- encoding predicates (same vocabulary as unit csc_core) ----
pub open spec fn in_col(A: CscMatrix<F>, k: int, c: int) -> bool { 0 <= c < A.n && A.colptr@[c] <= k < A.colptr@[c + 1] }
pub open spec fn dims_ok(A: CscMatrix<F>) -> bool {
    A.rowval@.len() == A.nzval@.len() && A.colptr@.len() == A.n + 1 && A.colptr@[A.n as int] == A.rowval@.len()
}
pub open spec fn colptr_mono(A: CscMatrix<F>) -> bool { A.colptr@[0] == 0 && adj_mono(A.colptr@) }
// (opaque only to keep the self-feeding trigger i -> i + 1 away from the solver; lemma_mono_all / lemma_adj_mono open it)
#[verifier::opaque]
pub open spec fn adj_mono(cp: Seq<usize>) -> bool { forall|i: int| 0 <= i < cp.len() - 1 ==> #[trigger] cp[i] <= cp[i + 1] }
pub open spec fn rows_sorted(A: CscMatrix<F>) -> bool {
    forall|c: int, k: int| #[trigger] in_col(A, k, c) && k + 1 < A.colptr@[c + 1] ==> A.rowval@[k] < A.rowval@[k + 1]
}
pub open spec fn rows_in_range(A: CscMatrix<F>) -> bool { forall|k: int| 0 <= k < A.rowval@.len() ==> #[trigger] A.rowval@[k] < A.m }
pub open spec fn canonical(A: CscMatrix<F>) -> bool { dims_ok(A) && colptr_mono(A) && rows_sorted(A) && rows_in_range(A) }
// precondition of deduplicate ("input must already be in column sorted order"): row indices do not decrease inside a column
pub open spec fn rows_nondecr(A: CscMatrix<F>) -> bool {
    forall|c: int, k: int| #[trigger] in_col(A, k, c) && k + 1 < A.colptr@[c + 1] ==> A.rowval@[k] <= A.rowval@[k + 1]
}
#[verifier::opaque]
pub open spec fn mono2(cp: Seq<usize>) -> bool { forall|a: int, b: int| 0 <= a <= b < cp.len() ==> cp[a] <= cp[b] }
pub proof fn lemma_mono_all(cp: Seq<usize>)
    requires adj_mono(cp),
    ensures mono2(cp),
{
    reveal(mono2); reveal(adj_mono);
    assert forall|a: int, b: int| 0 <= a <= b < cp.len() implies cp[a] <= cp[b] by { lemma_mono_ab(cp, a, b); }
}
pub proof fn lemma_mono2(cp: Seq<usize>, a: int, b: int)
    requires mono2(cp), 0 <= a <= b < cp.len(),
    ensures cp[a] <= cp[b],
{ reveal(mono2); }
pub proof fn lemma_adj_mono(cp: Seq<usize>)
    requires mono2(cp),
    ensures adj_mono(cp),
{ reveal(mono2); reveal(adj_mono); }
pub proof fn lemma_mono_ab(cp: Seq<usize>, a: int, b: int)
    requires forall|i: int| 0 <= i < cp.len() - 1 ==> #[trigger] cp[i] <= cp[i + 1], 0 <= a <= b < cp.len(),
    ensures cp[a] <= cp[b],
    decreases b - a,
{ if a < b { lemma_mono_ab(cp, a, b - 1); assert(cp[b - 1] <= cp[b - 1 + 1]); } }

// ---- dense meaning of a column that may hold the same row several times ----
// the value of cell (r, c) = the stored values of column c whose row index is r, added from left to right in storage order
// (None = no stored entry = structural zero).  `+` is the uninterpreted f_add: no associativity or commutativity is used.
pub open spec fn fold_step(s: Option<F>, hit: bool, v: F) -> Option<F> {
    if !hit { s } else { match s { None => Some(v), Some(x) => Some(f_add(x, v)) } }
}
pub open spec fn gfold(hit: Seq<bool>, v: Seq<F>, lo: int, hi: int) -> Option<F> decreases hi - lo {
    if hi <= lo { None } else { fold_step(gfold(hit, v, lo, hi - 1), hit[hi - 1], v[hi - 1]) }
}
pub open spec fn row_hits(rv: Seq<usize>, r: int) -> Seq<bool> { Seq::new(rv.len(), |k: int| rv[k] == r) }
pub open spec fn colfold(rv: Seq<usize>, nz: Seq<F>, r: int, lo: int, hi: int) -> Option<F> { gfold(row_hits(rv, r), nz, lo, hi) }
pub open spec fn dense(A: CscMatrix<F>, r: int, c: int) -> Option<F> {
    colfold(A.rowval@, A.nzval@, r, A.colptr@[c] as int, A.colptr@[c + 1] as int)
}

// ---- runs of equal rows and their left-to-right sums ----
// hd[k]: slot k opens a new cell (the first slot of its column, or a row index different from its predecessor's)
#[verifier::opaque]
pub open spec fn col_start(cp: Seq<usize>, k: int) -> bool { exists|c: int| 0 <= c < cp.len() && #[trigger] cp[c] == k }
pub open spec fn heads_cp(cp: Seq<usize>, rv: Seq<usize>) -> Seq<bool> { Seq::new(rv.len(), |k: int| col_start(cp, k) || rv[k - 1] != rv[k]) }
pub proof fn lemma_col_start(cp: Seq<usize>, c: int)
    requires 0 <= c < cp.len(),
    ensures col_start(cp, cp[c] as int),
{ reveal(col_start); }
// a slot strictly inside column c is not the first slot of any column
pub proof fn lemma_not_col_start(cp: Seq<usize>, c: int, k: int)
    requires mono2(cp), 0 <= c, c + 1 < cp.len(), cp[c] < k < cp[c + 1],
    ensures !col_start(cp, k),
{
    reveal(col_start);
    assert forall|x: int| 0 <= x < cp.len() implies #[trigger] cp[x] != k by {
        if x <= c { lemma_mono2(cp, x, c); } else { lemma_mono2(cp, c + 1, x); }
    }
}
// number of cells opened by the first k slots = the slot the k-th entry's cell moves to, plus one
pub open spec fn nheads(hd: Seq<bool>, k: int) -> int decreases k { if k <= 0 { 0 } else { nheads(hd, k - 1) + (if hd[k - 1] { 1int } else { 0int }) } }
// the left fold of f_add over the run that slot k belongs to, from the head of the run up to and including slot k
pub open spec fn acc(hd: Seq<bool>, nz: Seq<F>, k: int) -> F decreases k { if k <= 0 || hd[k] { nz[k] } else { f_add(acc(hd, nz, k - 1), nz[k]) } }
// destination slot of input slot k
pub open spec fn dst(hd: Seq<bool>, k: int) -> int { nheads(hd, k + 1) - 1 }
pub proof fn lemma_nheads_mono(hd: Seq<bool>, a: int, b: int)
    requires 0 <= a <= b,
    ensures 0 <= nheads(hd, a) <= nheads(hd, b), nheads(hd, a) <= a, nheads(hd, b) - nheads(hd, a) <= b - a,
    decreases b,
{ if a < b { lemma_nheads_mono(hd, a, b - 1); } else if a > 0 { lemma_nheads_mono(hd, a - 1, a - 1); } }
pub proof fn lemma_nheads_pos(hd: Seq<bool>, k: int)
    requires k >= 1, hd[0],
    ensures nheads(hd, k) >= 1,
    decreases k,
{ if k > 1 { lemma_nheads_pos(hd, k - 1); } else { assert(nheads(hd, 0) == 0); } }
// array-level statement of deduplication: B holds one slot per cell of A; slot k of A lands in slot nheads(k+1)-1, the
// last slot of every run carries the left-to-right sum of the run
pub open spec fn dedup_of(A: CscMatrix<F>, B: CscMatrix<F>) -> bool {
    let hd = heads_cp(A.colptr@, A.rowval@);
    let nn = A.rowval@.len() as int;
    &&& B.m == A.m && B.n == A.n && B.colptr@.len() == A.colptr@.len()
    &&& forall|c: int| 0 <= c <= A.n ==> #[trigger] B.colptr@[c] == nheads(hd, A.colptr@[c] as int)
    &&& B.rowval@.len() == nheads(hd, nn) && B.nzval@.len() == nheads(hd, nn)
    &&& forall|k: int| 0 <= k < nn ==> B.rowval@[#[trigger] dst(hd, k)] == A.rowval@[k]
    &&& forall|k: int| 0 <= k < nn && (k + 1 == nn || hd[k + 1]) ==> B.nzval@[#[trigger] dst(hd, k)] == acc(hd, A.nzval@, k)
}

// ---- deduplication preserves the dense meaning ----
pub proof fn lemma_gfold_none(hit: Seq<bool>, v: Seq<F>, lo: int, hi: int)
    requires forall|j: int| lo <= j < hi ==> !#[trigger] hit[j],
    ensures gfold(hit, v, lo, hi) is None,
    decreases hi - lo,
{ if hi > lo { lemma_gfold_none(hit, v, lo, hi - 1); } }
// rows of the segment [lo, hi) do not decrease (two-index form; opaque, used through lemma_seg_le)
#[verifier::opaque]
pub open spec fn seg_sorted(rv: Seq<usize>, lo: int, hi: int) -> bool { forall|a: int, b: int| lo <= a <= b < hi ==> rv[a] <= rv[b] }
pub proof fn lemma_seg_le(rv: Seq<usize>, lo: int, hi: int, a: int, b: int)
    requires seg_sorted(rv, lo, hi), lo <= a <= b < hi,
    ensures rv[a] <= rv[b],
{ reveal(seg_sorted); }
pub open spec fn bnd(hd: Seq<bool>, k: int) -> bool { k >= hd.len() || hd[k] }
// the segment [lo, hi) of (rv0, nz0) is one column with nondecreasing rows, hd marks its runs, and (rv1, nz1) holds the
// deduplicated entries at dst(hd, .)
pub open spec fn dedup_seg(rv0: Seq<usize>, nz0: Seq<F>, hd: Seq<bool>, rv1: Seq<usize>, nz1: Seq<F>, lo: int, hi: int) -> bool {
    &&& 0 <= lo <= hi <= rv0.len() && nz0.len() == rv0.len() && hd.len() == rv0.len() && rv1.len() == nz1.len()
    &&& bnd(hd, lo) && bnd(hd, hi) && seg_sorted(rv0, lo, hi)
    &&& forall|j: int| lo < j < hi ==> (#[trigger] hd[j] <==> rv0[j - 1] != rv0[j])
    &&& forall|j: int| lo <= j < hi ==> 0 <= #[trigger] dst(hd, j) < rv1.len() && rv1[dst(hd, j)] == rv0[j]
    &&& forall|j: int| lo <= j < hi && bnd(hd, j + 1) ==> nz1[#[trigger] dst(hd, j)] == acc(hd, nz0, j)
}
// the induction over the input prefix [lo, k): at a run boundary both folds agree; inside a run of row r the input fold
// holds the partial sum acc(k - 1) while the output slot of that run is not yet counted
pub open spec fn dedup_fold_inv(rv0: Seq<usize>, nz0: Seq<F>, hd: Seq<bool>, rv1: Seq<usize>, nz1: Seq<F>, r: int, lo: int, k: int) -> bool {
    let base = nheads(hd, lo);
    let cfo = colfold(rv0, nz0, r, lo, k);
    if k == lo || bnd(hd, k) { cfo == colfold(rv1, nz1, r, base, nheads(hd, k)) }
    else if rv0[k - 1] == r { cfo == Some(acc(hd, nz0, k - 1)) && colfold(rv1, nz1, r, base, nheads(hd, k) - 1) is None }
    else { cfo == colfold(rv1, nz1, r, base, nheads(hd, k) - 1) }
}
pub proof fn lemma_dedup_fold(rv0: Seq<usize>, nz0: Seq<F>, hd: Seq<bool>, rv1: Seq<usize>, nz1: Seq<F>, r: int, lo: int, hi: int, k: int)
    requires dedup_seg(rv0, nz0, hd, rv1, nz1, lo, hi), lo <= k <= hi,
    ensures dedup_fold_inv(rv0, nz0, hd, rv1, nz1, r, lo, k),
    decreases k - lo,
{
    let base = nheads(hd, lo);
    let h0 = row_hits(rv0, r);
    let h1 = row_hits(rv1, r);
    if k > lo {
        let j = k - 1;
        lemma_dedup_fold(rv0, nz0, hd, rv1, nz1, r, lo, hi, j);
        let d = dst(hd, j);
        assert(hd[lo]);
        assert(nheads(hd, lo + 1) == base + 1);
        lemma_nheads_mono(hd, lo + 1, j + 1);
        assert(d >= base && rv1[d] == rv0[j]);
        assert(h0[j] == (rv0[j] == r));
        assert(h1[d] == (rv1[d] == r));
        // one more input slot
        assert(colfold(rv0, nz0, r, lo, k) == fold_step(colfold(rv0, nz0, r, lo, j), rv0[j] == r, nz0[j]));
        // one more output slot
        assert(colfold(rv1, nz1, r, base, d + 1) == fold_step(colfold(rv1, nz1, r, base, d), rv1[d] == r, nz1[d]));
        if bnd(hd, k) { assert(nz1[d] == acc(hd, nz0, j)); }
        if hd[j] {
            assert(nheads(hd, k) == nheads(hd, j) + 1);
            assert(acc(hd, nz0, j) == nz0[j]);
            if rv0[j] == r {
                // no earlier slot of this column has row r
                assert forall|x: int| lo <= x < j implies !#[trigger] h0[x] by {
                    lemma_seg_le(rv0, lo, hi, x, j - 1); lemma_seg_le(rv0, lo, hi, j - 1, j);
                }
                lemma_gfold_none(h0, nz0, lo, j);
            }
        } else {
            assert(nheads(hd, k) == nheads(hd, j));
            assert(j > lo);
            assert(rv0[j - 1] == rv0[j]);
            assert(acc(hd, nz0, j) == f_add(acc(hd, nz0, j - 1), nz0[j]));
        }
    } else {
        assert(colfold(rv0, nz0, r, lo, lo) is None);
        assert(colfold(rv1, nz1, r, base, base) is None);
    }
}
pub proof fn lemma_rows_seg_sorted(A: CscMatrix<F>, c: int, a: int, b: int)
    requires rows_nondecr(A), 0 <= c < A.n, A.colptr@[c] <= a <= b < A.colptr@[c + 1],
    ensures A.rowval@[a] <= A.rowval@[b],
    decreases b - a,
{ if a < b { lemma_rows_seg_sorted(A, c, a, b - 1); assert(in_col(A, b - 1, c)); } }
// C16 (deduplicate / dense meaning): every cell of the result holds the left-to-right sum of the input entries of that cell
pub proof fn lemma_dedup_dense(A: CscMatrix<F>, B: CscMatrix<F>, r: int, c: int)
    requires dims_ok(A), colptr_mono(A), rows_nondecr(A), dedup_of(A, B), 0 <= c < A.n,
    ensures dense(B, r, c) == dense(A, r, c),
{
    let cp = A.colptr@; let rv0 = A.rowval@; let nz0 = A.nzval@; let nn = rv0.len() as int;
    let hd = heads_cp(cp, rv0);
    let lo = cp[c] as int; let hi = cp[c + 1] as int;
    lemma_mono_all(cp);
    lemma_mono2(cp, c, c + 1); lemma_mono2(cp, c + 1, A.n as int); lemma_mono2(cp, 0, c);
    lemma_col_start(cp, c); lemma_col_start(cp, c + 1); lemma_col_start(cp, 0);
    assert(seg_sorted(rv0, lo, hi)) by {
        reveal(seg_sorted);
        assert forall|a: int, b: int| lo <= a <= b < hi implies rv0[a] <= rv0[b] by { lemma_rows_seg_sorted(A, c, a, b); }
    }
    assert forall|j: int| lo < j < hi implies (#[trigger] hd[j] <==> rv0[j - 1] != rv0[j]) by { lemma_not_col_start(cp, c, j); }
    assert forall|j: int| lo <= j < hi implies 0 <= #[trigger] dst(hd, j) < B.rowval@.len() && B.rowval@[dst(hd, j)] == rv0[j] by {
        lemma_nheads_mono(hd, j + 1, nn); lemma_nheads_pos(hd, j + 1);
    }
    assert(dedup_seg(rv0, nz0, hd, B.rowval@, B.nzval@, lo, hi));
    lemma_dedup_fold(rv0, nz0, hd, B.rowval@, B.nzval@, r, lo, hi, hi);
}

// a cell is stored (Some) exactly when some entry hits it: with rows_sorted (at most one hit per column and row) this turns
// "dense(result) == tfold(triplets)" into "every (row, column) pair of the input is stored exactly once, and nothing else is"
pub proof fn lemma_gfold_some(hit: Seq<bool>, v: Seq<F>, lo: int, hi: int)
    ensures gfold(hit, v, lo, hi) is Some <==> exists|j: int| lo <= j < hi && #[trigger] hit[j],
    decreases hi - lo,
{
    if hi > lo {
        lemma_gfold_some(hit, v, lo, hi - 1);
        if gfold(hit, v, lo, hi) is Some {
            if hit[hi - 1] { } else { let j = choose|j: int| lo <= j < hi - 1 && #[trigger] hit[j]; assert(hit[j]); }
        }
        if exists|j: int| lo <= j < hi && #[trigger] hit[j] {
            let j = choose|j: int| lo <= j < hi && #[trigger] hit[j];
            if j < hi - 1 { assert(hit[j]); }
        }
    }
}
pub proof fn lemma_cell_stored(A: CscMatrix<F>, r: int, c: int)
    requires 0 <= c < A.n, 0 <= A.colptr@[c] <= A.colptr@[c + 1] <= A.rowval@.len(),
    ensures dense(A, r, c) is Some <==> exists|k: int| #[trigger] in_col(A, k, c) && A.rowval@[k] == r,
{
    let h = row_hits(A.rowval@, r); let lo = A.colptr@[c] as int; let hi = A.colptr@[c + 1] as int;
    lemma_gfold_some(h, A.nzval@, lo, hi);
    if dense(A, r, c) is Some { let j = choose|j: int| lo <= j < hi && #[trigger] h[j]; assert(in_col(A, j, c) && A.rowval@[j] == r); }
    if exists|k: int| #[trigger] in_col(A, k, c) && A.rowval@[k] == r { let k = choose|k: int| #[trigger] in_col(A, k, c) && A.rowval@[k] == r; assert(h[k]); }
}
pub proof fn lemma_triplet_present(I: Seq<usize>, J: Seq<usize>, V: Seq<F>, r: int, c: int)
    requires J.len() == I.len(),
    ensures tfold(I, J, V, r, c) is Some <==> exists|k: int| 0 <= k < I.len() && #[trigger] I[k] == r && J[k] == c,
{
    let h = cell_hits(I, J, r, c); let nn = I.len() as int;
    lemma_gfold_some(h, V, 0, nn);
    if tfold(I, J, V, r, c) is Some { let j = choose|j: int| 0 <= j < nn && #[trigger] h[j]; assert(I[j] == r && J[j] == c); }
    if exists|k: int| 0 <= k < I.len() && #[trigger] I[k] == r && J[k] == c { let k = choose|k: int| 0 <= k < I.len() && #[trigger] I[k] == r && J[k] == c; assert(h[k]); }
}

// ---- two lists whose hits correspond one to one, in the same order, with the same values, have the same fold ----
// (p maps the hits of list 1 to the hits of list 0, q back; used for: stable sorting, and a column block inside the whole list)
pub open spec fn fold_match(h1: Seq<bool>, v1: Seq<F>, lo1: int, hi1: int, h0: Seq<bool>, v0: Seq<F>, lo0: int, hi0: int, p: Seq<int>, q: Seq<int>) -> bool {
    &&& forall|k: int| lo1 <= k < hi1 && #[trigger] h1[k] ==> lo0 <= p[k] < hi0 && h0[p[k]] && v1[k] == v0[p[k]] && q[p[k]] == k
    &&& forall|j: int| lo0 <= j < hi0 && #[trigger] h0[j] ==> lo1 <= q[j] < hi1 && h1[q[j]] && p[q[j]] == j
    &&& forall|k1: int, k2: int| lo1 <= k1 < k2 < hi1 && #[trigger] h1[k1] && #[trigger] h1[k2] ==> p[k1] < p[k2]
}
pub proof fn lemma_fold_match(h1: Seq<bool>, v1: Seq<F>, lo1: int, hi1: int, h0: Seq<bool>, v0: Seq<F>, lo0: int, hi0: int, p: Seq<int>, q: Seq<int>)
    requires fold_match(h1, v1, lo1, hi1, h0, v0, lo0, hi0, p, q), lo1 <= hi1, lo0 <= hi0,
    ensures gfold(h1, v1, lo1, hi1) == gfold(h0, v0, lo0, hi0),
    decreases (hi1 - lo1) + (hi0 - lo0),
{
    if hi1 <= lo1 {
        assert forall|j: int| lo0 <= j < hi0 implies !#[trigger] h0[j] by { if h0[j] { assert(lo1 <= q[j] < hi1); } }
        lemma_gfold_none(h0, v0, lo0, hi0);
    } else if !h1[hi1 - 1] {
        lemma_fold_match(h1, v1, lo1, hi1 - 1, h0, v0, lo0, hi0, p, q);
    } else if hi0 <= lo0 {
        assert(lo0 <= p[hi1 - 1] < hi0);
    } else if !h0[hi0 - 1] {
        lemma_fold_match(h1, v1, lo1, hi1, h0, v0, lo0, hi0 - 1, p, q);
    } else {
        let k = hi1 - 1; let j = hi0 - 1;
        let k2 = q[j];
        assert(h1[k2] && p[k2] == j);
        if k2 < k { assert(p[k2] < p[k]); }
        assert(p[k] == j);
        assert forall|x: int| lo0 <= x < hi0 - 1 && #[trigger] h0[x] implies lo1 <= q[x] < hi1 - 1 by { assert(p[q[x]] == x); }
        lemma_fold_match(h1, v1, lo1, hi1 - 1, h0, v0, lo0, hi0 - 1, p, q);
    }
}

// ---- sorting the entries of every column by row index ----
// the same as in_col, under another name so that clauses of the form in_col(k) ==> in_seg(p[k]) do not feed their own trigger
pub open spec fn in_seg(A: CscMatrix<F>, k: int, c: int) -> bool { A.colptr@[c] <= k < A.colptr@[c + 1] }
// entries of one column with equal row index keep their relative order (opaque: three bound variables; read through lemma_col_stable)
#[verifier::opaque]
pub open spec fn col_stable(A: CscMatrix<F>, rv: Seq<usize>, p: Seq<int>, ncol: int) -> bool {
    forall|c: int, k1: int, k2: int| c < ncol && #[trigger] in_col(A, k1, c) && #[trigger] in_col(A, k2, c) && k1 < k2 && rv[k1] == rv[k2] ==> p[k1] < p[k2]
}
pub proof fn lemma_col_stable(A: CscMatrix<F>, rv: Seq<usize>, p: Seq<int>, ncol: int, c: int, k1: int, k2: int)
    requires col_stable(A, rv, p, ncol), c < ncol, in_col(A, k1, c), in_col(A, k2, c), k1 < k2, rv[k1] == rv[k2],
    ensures p[k1] < p[k2],
{ reveal(col_stable); }
// B = A with the entries of every column rearranged by a permutation p (slot k of B holds the old slot p[k]; q = inverse) that
// stays inside the column, sorts the column by row index and is stable
pub open spec fn cols_sorted_by(A: CscMatrix<F>, B: CscMatrix<F>, p: Seq<int>, q: Seq<int>) -> bool {
    let nn = A.rowval@.len() as int;
    &&& B.m == A.m && B.n == A.n && B.colptr@ == A.colptr@ && B.rowval@.len() == nn && B.nzval@.len() == nn
    &&& perm_pair(p, q, nn)
    &&& forall|c: int, k: int| #[trigger] in_col(A, k, c) ==> in_seg(A, p[k], c) && in_seg(A, q[k], c)
    &&& forall|k: int| 0 <= k < nn ==> #[trigger] B.rowval@[k] == A.rowval@[p[k]]
    &&& forall|k: int| 0 <= k < nn ==> #[trigger] B.nzval@[k] == A.nzval@[p[k]]
    &&& rows_nondecr(B) && col_stable(A, B.rowval@, p, A.n as int)
}
// state of sort_indices after the first ncol columns: (rv, nz) = the input arrays rearranged by gp (gq = inverse), which is the
// identity from column ncol on, stays inside the columns, and sorts the first ncol columns stably (opaque for the exec body)
#[verifier::opaque]
pub open spec fn sort_inv(A0: CscMatrix<F>, rv: Seq<usize>, nz: Seq<F>, gp: Seq<int>, gq: Seq<int>, ncol: int) -> bool {
    let cp0 = A0.colptr@;
    let nn = A0.rowval@.len() as int;
    &&& rv.len() == nn && nz.len() == nn && perm_pair(gp, gq, nn) && gp.len() == nn && gq.len() == nn
    &&& forall|k: int| cp0[ncol] <= k < nn ==> #[trigger] gp[k] == k && gq[k] == k
    &&& forall|c: int, k: int| #[trigger] in_col(A0, k, c) && c < ncol ==> in_seg(A0, gp[k], c) && in_seg(A0, gq[k], c)
    &&& forall|k: int| 0 <= k < nn ==> #[trigger] rv[k] == A0.rowval@[gp[k]]
    &&& forall|k: int| 0 <= k < nn ==> #[trigger] nz[k] == A0.nzval@[gp[k]]
    &&& forall|c: int, k: int| #[trigger] in_col(A0, k, c) && c < ncol && k + 1 < cp0[c + 1] ==> rv[k] <= rv[k + 1]
    &&& col_stable(A0, rv, gp, ncol)
}
pub open spec fn splice(g: Seq<int>, lo: int, hi: int, l: Seq<int>) -> Seq<int> { Seq::new(g.len(), |k: int| if lo <= k < hi { lo + l[k - lo] } else { g[k] }) }
pub proof fn lemma_sort_init(A0: CscMatrix<F>)
    requires dims_ok(A0), A0.colptr@[0] == 0,
    ensures sort_inv(A0, A0.rowval@, A0.nzval@, Seq::new(A0.rowval@.len(), |k: int| k), Seq::new(A0.rowval@.len(), |k: int| k), 0),
{
    let id = Seq::new(A0.rowval@.len(), |k: int| k);
    reveal(sort_inv);
    lemma_perm_intro(id, id, A0.rowval@.len() as int);
    assert(col_stable(A0, A0.rowval@, id, 0)) by { reveal(col_stable); }
}
// one column sorted: the local permutation lp (of 0..hi-lo, inverse lq) is spliced into the global one
pub proof fn lemma_sort_step(A0: CscMatrix<F>, gc: int, rvS: Seq<usize>, nzS: Seq<F>, rvN: Seq<usize>, nzN: Seq<F>, gp1: Seq<int>, gq1: Seq<int>, td1: Seq<(usize, F)>, lp: Seq<int>, lq: Seq<int>)
    requires
        dims_ok(A0), mono2(A0.colptr@), A0.colptr@[0] == 0, 0 <= gc < A0.n,
        sort_inv(A0, rvS, nzS, gp1, gq1, gc),
        perm_pair(lp, lq, A0.colptr@[gc + 1] - A0.colptr@[gc]), keys_stable(td1, lp), td1.len() == A0.colptr@[gc + 1] - A0.colptr@[gc],
        rvN.len() == rvS.len(), nzN.len() == nzS.len(),
        forall|t: int| 0 <= t < td1.len() ==> #[trigger] td1[t] == (rvS[A0.colptr@[gc] + lp[t]], nzS[A0.colptr@[gc] + lp[t]]),
        forall|k: int| A0.colptr@[gc] <= k < A0.colptr@[gc + 1] ==> #[trigger] rvN[k] == td1[k - A0.colptr@[gc]].0,
        forall|k: int| A0.colptr@[gc] <= k < A0.colptr@[gc + 1] ==> #[trigger] nzN[k] == td1[k - A0.colptr@[gc]].1,
        forall|k: int| 0 <= k < rvS.len() && !(A0.colptr@[gc] <= k < A0.colptr@[gc + 1]) ==> #[trigger] rvN[k] == rvS[k],
        forall|k: int| 0 <= k < nzS.len() && !(A0.colptr@[gc] <= k < A0.colptr@[gc + 1]) ==> #[trigger] nzN[k] == nzS[k],
    ensures
        sort_inv(A0, rvN, nzN, splice(gp1, A0.colptr@[gc] as int, A0.colptr@[gc + 1] as int, lp), splice(gq1, A0.colptr@[gc] as int, A0.colptr@[gc + 1] as int, lq), gc + 1),
{
    reveal(sort_inv);
    let cp0 = A0.colptr@; let rv0 = A0.rowval@; let nz0 = A0.nzval@; let nn = rv0.len() as int;
    let lo = cp0[gc] as int; let hi = cp0[gc + 1] as int;
    lemma_mono2(cp0, gc, gc + 1); lemma_mono2(cp0, gc + 1, A0.n as int);
    let gp = splice(gp1, lo, hi, lp); let gq = splice(gq1, lo, hi, lq);
    lemma_perm_len(lp, lq, hi - lo);
    // slots outside the column are not mapped into it
    assert forall|k: int| 0 <= k < nn && !(lo <= k < hi) implies !(lo <= #[trigger] gp1[k] < hi) && !(lo <= gq1[k] < hi) by {
        if k < lo {
            lemma_in_some_col(A0, k, gc);
            let x = choose|x: int| 0 <= x < gc && #[trigger] in_col(A0, k, x);
            lemma_mono2(cp0, x + 1, gc);
            assert(in_seg(A0, gp1[k], x) && in_seg(A0, gq1[k], x));
        } else { assert(gp1[k] == k && gq1[k] == k); }
    }
    assert(perm_pair(gp, gq, nn)) by {
        assert forall|k: int| 0 <= k < nn implies 0 <= #[trigger] gp[k] < nn && gq[gp[k]] == k by {
            if lo <= k < hi { lemma_perm(lp, lq, hi - lo, k - lo); } else { lemma_perm(gp1, gq1, nn, k); }
        }
        assert forall|j: int| 0 <= j < nn implies 0 <= #[trigger] gq[j] < nn && gp[gq[j]] == j by {
            if lo <= j < hi { lemma_perm(lp, lq, hi - lo, j - lo); } else { lemma_perm(gp1, gq1, nn, j); }
        }
        lemma_perm_intro(gp, gq, nn);
    }
    assert forall|k: int| hi <= k < nn implies #[trigger] gp[k] == k && gq[k] == k by { assert(gp1[k] == k && gq1[k] == k); }
    assert forall|k: int| 0 <= k < nn implies #[trigger] rvN[k] == rv0[gp[k]] by {
        if lo <= k < hi {
            let t = k - lo;
            lemma_perm(lp, lq, hi - lo, t);
            assert(rvN[k] == td1[t].0);
            assert(td1[t] == (rvS[lo + lp[t]], nzS[lo + lp[t]]));
            assert(gp1[lo + lp[t]] == lo + lp[t]);
            assert(rvS[lo + lp[t]] == rv0[gp1[lo + lp[t]]]);
        } else { assert(rvN[k] == rvS[k]); assert(rvS[k] == rv0[gp1[k]]); }
    }
    assert forall|k: int| 0 <= k < nn implies #[trigger] nzN[k] == nz0[gp[k]] by {
        if lo <= k < hi {
            let t = k - lo;
            lemma_perm(lp, lq, hi - lo, t);
            assert(nzN[k] == td1[t].1);
            assert(td1[t] == (rvS[lo + lp[t]], nzS[lo + lp[t]]));
            assert(gp1[lo + lp[t]] == lo + lp[t]);
            assert(nzS[lo + lp[t]] == nz0[gp1[lo + lp[t]]]);
        } else { assert(nzN[k] == nzS[k]); assert(nzS[k] == nz0[gp1[k]]); }
    }
    assert forall|c: int, k: int| #[trigger] in_col(A0, k, c) && c < gc + 1 implies in_seg(A0, gp[k], c) && in_seg(A0, gq[k], c) by {
        if c < gc { lemma_mono2(cp0, c + 1, gc); assert(in_seg(A0, gp1[k], c) && in_seg(A0, gq1[k], c)); } else { lemma_perm(lp, lq, hi - lo, k - lo); }
    }
    assert forall|c: int, k: int| #[trigger] in_col(A0, k, c) && c < gc + 1 && k + 1 < cp0[c + 1] implies rvN[k] <= rvN[k + 1] by {
        if c < gc { lemma_mono2(cp0, c + 1, gc); assert(rvS[k] <= rvS[k + 1]); assert(rvN[k] == rvS[k]); assert(rvN[k + 1] == rvS[k + 1]); }
        else { lemma_keys_stable(td1, lp, k - lo, k + 1 - lo); assert(rvN[k] == td1[k - lo].0); assert(rvN[k + 1] == td1[k + 1 - lo].0); }
    }
    assert(col_stable(A0, rvN, gp, gc + 1)) by {
        reveal(col_stable);
        assert forall|c: int, k1: int, k2: int| c < gc + 1 && #[trigger] in_col(A0, k1, c) && #[trigger] in_col(A0, k2, c) && k1 < k2 && rvN[k1] == rvN[k2] implies gp[k1] < gp[k2] by {
            if c < gc { lemma_mono2(cp0, c + 1, gc); assert(rvN[k1] == rvS[k1]); assert(rvN[k2] == rvS[k2]); }
            else { lemma_keys_stable(td1, lp, k1 - lo, k2 - lo); assert(rvN[k1] == td1[k1 - lo].0); assert(rvN[k2] == td1[k2 - lo].0); }
        }
    }
}
pub proof fn lemma_sort_final(A0: CscMatrix<F>, B: CscMatrix<F>, gp: Seq<int>, gq: Seq<int>)
    requires dims_ok(A0), sort_inv(A0, B.rowval@, B.nzval@, gp, gq, A0.n as int), B.m == A0.m, B.n == A0.n, B.colptr@ == A0.colptr@,
    ensures cols_sorted_by(A0, B, gp, gq),
{
    reveal(sort_inv);
    assert forall|c: int, k: int| #[trigger] in_col(B, k, c) && k + 1 < B.colptr@[c + 1] implies B.rowval@[k] <= B.rowval@[k + 1] by { assert(in_col(A0, k, c)); }
}

// C16 (sort_indices / dense meaning): a stable sort inside the columns does not change any cell
pub proof fn lemma_sort_dense(A: CscMatrix<F>, B: CscMatrix<F>, p: Seq<int>, q: Seq<int>, r: int, c: int)
    requires dims_ok(A), colptr_mono(A), cols_sorted_by(A, B, p, q), 0 <= c < A.n,
    ensures dense(B, r, c) == dense(A, r, c),
{
    let cp = A.colptr@; let lo = cp[c] as int; let hi = cp[c + 1] as int; let nn = A.rowval@.len() as int;
    lemma_mono_all(cp); lemma_mono2(cp, c, c + 1); lemma_mono2(cp, c + 1, A.n as int);
    let h1 = row_hits(B.rowval@, r); let h0 = row_hits(A.rowval@, r);
    assert(fold_match(h1, B.nzval@, lo, hi, h0, A.nzval@, lo, hi, p, q)) by {
        assert forall|k: int| lo <= k < hi && #[trigger] h1[k] implies lo <= p[k] < hi && h0[p[k]] && B.nzval@[k] == A.nzval@[p[k]] && q[p[k]] == k by { assert(in_col(A, k, c)); lemma_perm(p, q, nn, k); }
        assert forall|j: int| lo <= j < hi && #[trigger] h0[j] implies lo <= q[j] < hi && h1[q[j]] && p[q[j]] == j by { assert(in_col(A, j, c)); lemma_perm(p, q, nn, j); assert(B.rowval@[q[j]] == A.rowval@[p[q[j]]]); }
        assert forall|k1: int, k2: int| lo <= k1 < k2 < hi && #[trigger] h1[k1] && #[trigger] h1[k2] implies p[k1] < p[k2] by {
            assert(in_col(A, k1, c) && in_col(A, k2, c)); lemma_col_stable(A, B.rowval@, p, A.n as int, c, k1, k2);
        }
    }
    lemma_fold_match(h1, B.nzval@, lo, hi, h0, A.nzval@, lo, hi, p, q);
}

// ---- triplets ----
// dense meaning of a triplet list: cell (r, c) = the values of the triplets (r, c, .), added from left to right in list order
pub open spec fn cell_hits(I: Seq<usize>, J: Seq<usize>, r: int, c: int) -> Seq<bool> { Seq::new(I.len(), |k: int| I[k] == r && J[k] == c) }
pub open spec fn tfold(I: Seq<usize>, J: Seq<usize>, V: Seq<F>, r: int, c: int) -> Option<F> { gfold(cell_hits(I, J, r, c), V, 0, I.len() as int) }
// (column, row) keys in lexicographic order
pub open spec fn lex_le(j1: int, i1: int, j2: int, i2: int) -> bool { j1 < j2 || (j1 == j2 && i1 <= i2) }
// p lists the triplet indices in the order of a STABLE sort by (column, row): keys do not decrease, equal keys keep their input order
#[verifier::opaque]
pub open spec fn stable_sorted(I: Seq<usize>, J: Seq<usize>, p: Seq<int>) -> bool {
    forall|k1: int, k2: int| 0 <= k1 < k2 < p.len() ==> {
        &&& lex_le(J[#[trigger] p[k1]] as int, I[p[k1]] as int, J[#[trigger] p[k2]] as int, I[p[k2]] as int)
        &&& (J[p[k1]] == J[p[k2]] && I[p[k1]] == I[p[k2]] ==> p[k1] < p[k2]) }
}
pub proof fn lemma_stable_sorted(I: Seq<usize>, J: Seq<usize>, p: Seq<int>, k1: int, k2: int)
    requires stable_sorted(I, J, p), 0 <= k1 < k2 < p.len(),
    ensures lex_le(J[p[k1]] as int, I[p[k1]] as int, J[p[k2]] as int, I[p[k2]] as int), J[p[k1]] == J[p[k2]] && I[p[k1]] == I[p[k2]] ==> p[k1] < p[k2],
{ reveal(stable_sorted); }
// what the sorting prefix of new_from_triplets (sortperm_by with the comparator J[a].cmp(J[b]).then(I[a].cmp(I[b])), then
// permute) leaves in the work arrays: rv = I o p, nz = V o p for the stable sorting permutation p
pub open spec fn sorted_input(I: Seq<usize>, J: Seq<usize>, V: Seq<F>, p: Seq<int>, q: Seq<int>, rv: Seq<usize>, nz: Seq<F>) -> bool {
    let n = I.len() as int;
    &&& J.len() == n && V.len() == n && rv.len() == n && nz.len() == n && perm_pair(p, q, n) && stable_sorted(I, J, p)
    &&& forall|k: int| 0 <= k < n ==> #[trigger] rv[k] == I[p[k]]
    &&& forall|k: int| 0 <= k < n ==> #[trigger] nz[k] == V[p[k]]
}
pub open spec fn compose(s: Seq<usize>, p: Seq<int>) -> Seq<usize> { Seq::new(p.len(), |k: int| s[p[k]]) }
pub open spec fn heads_cs(cs: Seq<usize>, rv: Seq<usize>) -> Seq<bool> { Seq::new(rv.len(), |k: int| k == 0 || cs[k - 1] != cs[k] || rv[k - 1] != rv[k]) }
// number of the first k elements equal to c / smaller than c
pub open spec fn cnt(s: Seq<usize>, c: int, k: int) -> int decreases k { if k <= 0 { 0 } else { cnt(s, c, k - 1) + (if s[k - 1] == c { 1int } else { 0int }) } }
pub open spec fn cnt_lt(s: Seq<usize>, k: int, r: int) -> int decreases k { if k <= 0 { 0 } else { cnt_lt(s, k - 1, r) + (if s[k - 1] < r { 1int } else { 0int }) } }
// first slot of column c in a column-sorted list
pub open spec fn cstart(cs: Seq<usize>, c: int) -> int { cnt_lt(cs, cs.len() as int, c) }
pub proof fn lemma_cnt_bounds(s: Seq<usize>, c: int, k: int)
    requires 0 <= k,
    ensures 0 <= cnt(s, c, k) <= k,
    decreases k,
{ if k > 0 { lemma_cnt_bounds(s, c, k - 1); } }
pub proof fn lemma_cnt_ext(s1: Seq<usize>, s2: Seq<usize>, c: int, k: int)
    requires 0 <= k <= s1.len(), k <= s2.len(), forall|i: int| 0 <= i < k ==> #[trigger] s1[i] == s2[i],
    ensures cnt(s1, c, k) == cnt(s2, c, k),
    decreases k,
{ if k > 0 { lemma_cnt_ext(s1, s2, c, k - 1); } }
// s2 is s without its element at position j0
pub proof fn lemma_cnt_skip(s: Seq<usize>, s2: Seq<usize>, j0: int, c: int, m: int)
    requires
        0 <= j0 < s.len(), s2.len() == s.len() - 1, 0 <= m <= s.len(),
        forall|x: int| 0 <= x < j0 ==> #[trigger] s2[x] == s[x],
        forall|x: int| j0 <= x < s2.len() ==> #[trigger] s2[x] == s[x + 1],
    ensures cnt(s, c, m) == (if m <= j0 { cnt(s2, c, m) } else { cnt(s2, c, m - 1) + (if s[j0] == c { 1int } else { 0int }) }),
    decreases m,
{
    if m > 0 {
        lemma_cnt_skip(s, s2, j0, c, m - 1);
        if m - 1 > j0 { assert(s2[m - 2] == s[m - 2 + 1]); }
    }
}
// a permutation does not change how often a value occurs
pub proof fn lemma_cnt_perm(s: Seq<usize>, p: Seq<int>, c: int)
    requires
        p.len() == s.len(),
        forall|k: int| 0 <= k < p.len() ==> 0 <= #[trigger] p[k] < p.len(),
        forall|k1: int, k2: int| 0 <= k1 < k2 < p.len() ==> #[trigger] p[k1] != #[trigger] p[k2],
    ensures cnt(compose(s, p), c, s.len() as int) == cnt(s, c, s.len() as int),
    decreases s.len(),
{
    let n = s.len() as int;
    if n > 0 {
        let j0 = p[n - 1];
        let s2 = Seq::new((n - 1) as nat, |x: int| if x < j0 { s[x] } else { s[x + 1] });
        let p2 = Seq::new((n - 1) as nat, |k: int| if p[k] > j0 { p[k] - 1 } else { p[k] });
        assert forall|k: int| 0 <= k < p2.len() implies 0 <= #[trigger] p2[k] < p2.len() by { assert(p[k] != p[n - 1]); }
        assert forall|k1: int, k2: int| 0 <= k1 < k2 < p2.len() implies #[trigger] p2[k1] != #[trigger] p2[k2] by {
            assert(p[k1] != p[k2]); assert(p[k1] != p[n - 1]); assert(p[k2] != p[n - 1]);
        }
        lemma_cnt_perm(s2, p2, c);
        let a = compose(s, p); let a2 = compose(s2, p2);
        assert forall|i: int| 0 <= i < n - 1 implies #[trigger] a[i] == a2[i] by { assert(p[i] != p[n - 1]); }
        lemma_cnt_ext(a, a2, c, n - 1);
        lemma_cnt_skip(s, s2, j0, c, n);
        assert(a[n - 1] == s[j0]);
    }
}
pub proof fn lemma_cnt_lt_sorted(s: Seq<usize>, k: int, r: int)
    requires 0 <= k <= s.len(), nondecreasing(s),
    ensures 0 <= cnt_lt(s, k, r) <= k, forall|i: int| 0 <= i < k ==> (#[trigger] s[i] < r <==> i < cnt_lt(s, k, r)),
    decreases k,
{
    if k > 0 {
        lemma_cnt_lt_sorted(s, k - 1, r);
        if s[k - 1] < r { if k - 1 > 0 { assert(s[k - 2] <= s[k - 1]); assert(s[k - 2] < r <==> k - 2 < cnt_lt(s, k - 1, r)); } }
    }
}
pub proof fn lemma_cnt_lt_step(s: Seq<usize>, k: int, c: int)
    requires 0 <= k,
    ensures cnt_lt(s, k, c + 1) == cnt_lt(s, k, c) + cnt(s, c, k),
    decreases k,
{ if k > 0 { lemma_cnt_lt_step(s, k - 1, c); } }
pub proof fn lemma_cnt_lt_all(s: Seq<usize>, k: int, n: int)
    requires 0 <= k <= s.len(), forall|i: int| 0 <= i < s.len() ==> #[trigger] s[i] < n,
    ensures cnt_lt(s, k, n) == k, cnt_lt(s, k, 0) == 0,
    decreases k,
{ if k > 0 { lemma_cnt_lt_all(s, k - 1, n); } }
// the column-sorted list cs = J o p: opaque wrapper for its two-index ordering
#[verifier::opaque]
pub open spec fn cols_sorted(cs: Seq<usize>) -> bool { nondecreasing(cs) }
pub proof fn lemma_cols_sorted(I: Seq<usize>, J: Seq<usize>, p: Seq<int>)
    requires stable_sorted(I, J, p),
    ensures cols_sorted(compose(J, p)),
{
    reveal(cols_sorted);
    let cs = compose(J, p);
    assert forall|i: int, j: int| 0 <= i <= j < cs.len() implies cs[i] <= cs[j] by { if i < j { lemma_stable_sorted(I, J, p, i, j); } }
}
// column c occupies the slots cstart(c) .. cstart(c + 1) of the sorted list
pub proof fn lemma_block(cs: Seq<usize>, n: int, c: int, k: int)
    requires cols_sorted(cs), forall|i: int| 0 <= i < cs.len() ==> #[trigger] cs[i] < n, 0 <= c < n, 0 <= k < cs.len(),
    ensures
        0 <= cstart(cs, c) <= cstart(cs, c + 1) <= cs.len(), cstart(cs, c + 1) - cstart(cs, c) == cnt(cs, c, cs.len() as int),
        cstart(cs, 0) == 0, cstart(cs, n) == cs.len(),
        (cstart(cs, c) <= k < cstart(cs, c + 1)) <==> cs[k] == c,
        k < cstart(cs, c) <==> cs[k] < c,
{
    reveal(cols_sorted);
    let nn = cs.len() as int;
    lemma_cnt_lt_sorted(cs, nn, c); lemma_cnt_lt_sorted(cs, nn, c + 1); lemma_cnt_lt_step(cs, nn, c); lemma_cnt_bounds(cs, c, nn); lemma_cnt_lt_all(cs, nn, n);
    assert(cs[k] < c <==> k < cnt_lt(cs, nn, c));
    assert(cs[k] < c + 1 <==> k < cnt_lt(cs, nn, c + 1));
}
pub proof fn lemma_block0(cs: Seq<usize>, n: int, c: int)
    requires cols_sorted(cs), forall|i: int| 0 <= i < cs.len() ==> #[trigger] cs[i] < n, 0 <= c < n,
    ensures
        0 <= cstart(cs, c) <= cstart(cs, c + 1) <= cs.len(), cstart(cs, c + 1) - cstart(cs, c) == cnt(cs, c, cs.len() as int),
        cstart(cs, 0) == 0, cstart(cs, n) == cs.len(),
{
    reveal(cols_sorted);
    let nn = cs.len() as int;
    lemma_cnt_lt_sorted(cs, nn, c); lemma_cnt_lt_sorted(cs, nn, c + 1); lemma_cnt_lt_step(cs, nn, c); lemma_cnt_bounds(cs, c, nn); lemma_cnt_lt_all(cs, nn, n);
}

pub proof fn lemma_cnt_sorted(J: Seq<usize>, p: Seq<int>, q: Seq<int>, c: int)
    requires perm_pair(p, q, J.len() as int),
    ensures cnt(compose(J, p), c, J.len() as int) == cnt(J, c, J.len() as int),
{
    let n = J.len() as int;
    lemma_perm_len(p, q, n);
    assert forall|k: int| 0 <= k < p.len() implies 0 <= #[trigger] p[k] < p.len() by { lemma_perm(p, q, n, k); }
    assert forall|k1: int, k2: int| 0 <= k1 < k2 < p.len() implies #[trigger] p[k1] != #[trigger] p[k2] by { lemma_perm(p, q, n, k1); lemma_perm(p, q, n, k2); }
    lemma_cnt_perm(J, p, c);
}
// the consolidated column counts sum up to the number of cells before each column
pub proof fn lemma_sum_heads(cnts: Seq<usize>, hd: Seq<bool>, cs: Seq<usize>, n: int, c: int)
    requires
        0 <= c <= n < cnts.len(), cstart(cs, 0) == 0,
        forall|x: int| 0 <= x < n ==> #[trigger] cnts[x] == nheads(hd, cstart(cs, x + 1)) - nheads(hd, cstart(cs, x)),
    ensures sum_upto(cnts, c) == nheads(hd, cstart(cs, c)),
    decreases c,
{ if c > 0 { lemma_sum_heads(cnts, hd, cs, n, c - 1); } else { assert(nheads(hd, 0) == 0); } }

pub proof fn lemma_cstart_mono(cs: Seq<usize>, n: int, a: int, b: int)
    requires cols_sorted(cs), forall|i: int| 0 <= i < cs.len() ==> #[trigger] cs[i] < n, 0 <= a <= b <= n,
    ensures 0 <= cstart(cs, a) <= cstart(cs, b) <= cs.len(),
    decreases b - a,
{
    if a < b { lemma_cstart_mono(cs, n, a, b - 1); lemma_block0(cs, n, b - 1); }
    else if a < n { lemma_block0(cs, n, a); }
    else { lemma_cnt_lt_all(cs, cs.len() as int, n); }
}
// array-level statement of the consolidation pass of new_from_triplets (cs = the column of every sorted slot)
pub open spec fn consolidated(cs: Seq<usize>, rv0: Seq<usize>, nz0: Seq<F>, n: int, B: CscMatrix<F>) -> bool {
    let hd = heads_cs(cs, rv0);
    let nn = rv0.len() as int;
    &&& B.n == n && B.colptr@.len() == n + 1
    &&& forall|c: int| 0 <= c <= n ==> #[trigger] B.colptr@[c] == nheads(hd, cstart(cs, c))
    &&& B.rowval@.len() == nheads(hd, nn) && B.nzval@.len() == nheads(hd, nn)
    &&& forall|k: int| 0 <= k < nn ==> 0 <= #[trigger] dst(hd, k) < B.rowval@.len() && B.rowval@[dst(hd, k)] == rv0[k]
    &&& forall|k: int| 0 <= k < nn && bnd(hd, k + 1) ==> B.nzval@[#[trigger] dst(hd, k)] == acc(hd, nz0, k)
}
// C16 (new_from_triplets / dense meaning), in three steps: consolidation of a sorted column (lemma_dedup_fold), the column
// block inside the sorted list, and the stable sort (both lemma_fold_match)
pub proof fn lemma_triplets_dense(I: Seq<usize>, J: Seq<usize>, V: Seq<F>, p: Seq<int>, q: Seq<int>, rv0: Seq<usize>, nz0: Seq<F>, n: int, B: CscMatrix<F>, r: int, c: int)
    requires
        sorted_input(I, J, V, p, q, rv0, nz0), forall|k: int| 0 <= k < J.len() ==> #[trigger] J[k] < n,
        consolidated(compose(J, p), rv0, nz0, n, B), 0 <= c < n,
    ensures dense(B, r, c) == tfold(I, J, V, r, c),
{
    let nn = I.len() as int;
    let cs = compose(J, p);
    let hd = heads_cs(cs, rv0);
    lemma_cols_sorted(I, J, p);
    lemma_perm_len(p, q, nn);
    assert forall|i: int| 0 <= i < cs.len() implies #[trigger] cs[i] < n by { lemma_perm(p, q, nn, i); }
    lemma_block0(cs, n, c);
    let lo = cstart(cs, c); let hi = cstart(cs, c + 1);
    // 1. the stored column is the consolidation of the block [lo, hi) of the sorted list
    assert(seg_sorted(rv0, lo, hi)) by {
        reveal(seg_sorted);
        assert forall|a: int, b: int| lo <= a <= b < hi implies rv0[a] <= rv0[b] by {
            if a < b { lemma_block(cs, n, c, a); lemma_block(cs, n, c, b); lemma_stable_sorted(I, J, p, a, b); }
        }
    }
    assert forall|j: int| lo < j < hi implies (#[trigger] hd[j] <==> rv0[j - 1] != rv0[j]) by { lemma_block(cs, n, c, j); lemma_block(cs, n, c, j - 1); }
    if lo < nn { lemma_block(cs, n, c, lo); if lo > 0 { lemma_block(cs, n, c, lo - 1); } }
    if hi < nn { lemma_block(cs, n, c, hi); if hi > 0 { lemma_block(cs, n, c, hi - 1); } }
    assert(bnd(hd, lo));
    assert(bnd(hd, hi));
    assert(dedup_seg(rv0, nz0, hd, B.rowval@, B.nzval@, lo, hi));
    lemma_dedup_fold(rv0, nz0, hd, B.rowval@, B.nzval@, r, lo, hi, hi);
    assert(dense(B, r, c) == colfold(rv0, nz0, r, lo, hi));
    // 2. the block inside the whole sorted list
    let id = Seq::new(nn as nat, |k: int| k);
    let h1 = row_hits(rv0, r);
    let h2 = cell_hits(rv0, cs, r, c);
    assert(fold_match(h1, nz0, lo, hi, h2, nz0, 0, nn, id, id)) by {
        assert forall|k: int| lo <= k < hi && #[trigger] h1[k] implies 0 <= id[k] < nn && h2[id[k]] && nz0[k] == nz0[id[k]] && id[id[k]] == k by { lemma_block(cs, n, c, k); }
        assert forall|j: int| 0 <= j < nn && #[trigger] h2[j] implies lo <= id[j] < hi && h1[id[j]] && id[id[j]] == j by { lemma_block(cs, n, c, j); }
    }
    lemma_fold_match(h1, nz0, lo, hi, h2, nz0, 0, nn, id, id);
    // 3. the stable sort keeps the order of the triplets of one cell
    let h3 = cell_hits(I, J, r, c);
    assert(fold_match(h2, nz0, 0, nn, h3, V, 0, nn, p, q)) by {
        assert forall|k1: int, k2: int| 0 <= k1 < k2 < nn && #[trigger] h2[k1] && #[trigger] h2[k2] implies p[k1] < p[k2] by { lemma_stable_sorted(I, J, p, k1, k2); }
        assert forall|k: int| 0 <= k < nn && #[trigger] h2[k] implies 0 <= p[k] < nn && h3[p[k]] && nz0[k] == V[p[k]] && q[p[k]] == k by { lemma_perm(p, q, nn, k); }
        assert forall|j: int| 0 <= j < nn && #[trigger] h3[j] implies 0 <= q[j] < nn && h2[q[j]] && p[q[j]] == j by { lemma_perm(p, q, nn, j); }
    }
    lemma_fold_match(h2, nz0, 0, nn, h3, V, 0, nn, p, q);
}

// a slot before the first slot of column c lies in an earlier column
pub proof fn lemma_in_some_col(A: CscMatrix<F>, k: int, c: int)
    requires mono2(A.colptr@), A.colptr@[0] == 0, A.colptr@.len() == A.n + 1, 0 <= c <= A.n, 0 <= k < A.colptr@[c],
    ensures exists|x: int| 0 <= x < c && #[trigger] in_col(A, k, x),
    decreases c,
{
    if c > 0 {
        if k >= A.colptr@[c - 1] { assert(in_col(A, k, c - 1)); }
        else { lemma_in_some_col(A, k, c - 1); let x = choose|x: int| 0 <= x < c - 1 && #[trigger] in_col(A, k, x); assert(in_col(A, k, x)); }
    }
}

impl CscMatrix<F> {
//@fn file=src/algebra/csc/core.rs in="impl<T> CscMatrix<T>" name=deduplicate rules=R1 ret=r
//@contract
    requires dims_ok(*old(self)), colptr_mono(*old(self)), rows_nondecr(*old(self)),
    ensures
        r is Ok,
        dedup_of(*old(self), *final(self)),
        dims_ok(*final(self)), colptr_mono(*final(self)), rows_sorted(*final(self)),
        rows_in_range(*final(self)) <==> rows_in_range(*old(self)),
        // C16: the dense meaning is preserved, where a cell stored several times means the left-to-right sum of its entries
        forall|r: int, c: int| 0 <= c < old(self).n ==> #[trigger] dense(*final(self), r, c) == dense(*old(self), r, c),
//@pre
        proof { assert(self.rowval@.len() == self.rowval.len()); assert(self.colptr@.len() == self.colptr.len()); lemma_mono_all(self.colptr@); }
        let ghost A0 = *self;
        let ghost cp0 = self.colptr@;
        let ghost rv0 = self.rowval@;
        let ghost nz0 = self.nzval@;
        let ghost nn = self.rowval@.len() as int;
        let ghost hd = heads_cp(cp0, rv0);
//@iter 1
it0
//@loop 1
        invariant
            it0.seq().len() == self.n, range_from(it0.seq(), 0), self.n == A0.n, self.m == A0.m,
            A0 == *old(self), cp0 == A0.colptr@, rv0 == A0.rowval@, nz0 == A0.nzval@, nn == rv0.len(), nn <= usize::MAX, hd == heads_cp(cp0, rv0),
            dims_ok(A0), mono2(cp0), cp0[0] == 0, rows_nondecr(A0),
            self.colptr@.len() == cp0.len(), self.rowval@.len() == nn, self.nzval@.len() == nn,
            stop == cp0[it0.index@ as int], nnz == nheads(hd, stop as int), nnz <= stop,
            forall|c: int| 0 <= c <= it0.index@ ==> #[trigger] self.colptr@[c] == nheads(hd, cp0[c] as int),
            forall|c: int| it0.index@ < c <= self.n ==> #[trigger] self.colptr@[c] == cp0[c],
            forall|k: int| stop <= k < nn ==> #[trigger] self.rowval@[k] == rv0[k],
            forall|k: int| stop <= k < nn ==> #[trigger] self.nzval@[k] == nz0[k],
            forall|k: int| 0 <= k < stop ==> self.rowval@[#[trigger] dst(hd, k)] == rv0[k],
            forall|k: int| 0 <= k < stop && (k + 1 == nn || hd[k + 1]) ==> self.nzval@[#[trigger] dst(hd, k)] == acc(hd, nz0, k),
            forall|c: int, d: int| #[trigger] cd(c, d) && 0 <= c < it0.index@ && self.colptr@[c] <= d && d + 1 < self.colptr@[c + 1] ==> self.rowval@[d] < self.rowval@[d + 1],
            rows_in_range(A0) ==> forall|d: int| 0 <= d < nnz ==> #[trigger] self.rowval@[d] < self.m,
//@body_start 1
            let ghost gc = $var1 as int;
            proof { lemma_mono2(cp0, gc, gc + 1); lemma_mono2(cp0, gc + 1, self.n as int); lemma_col_start(cp0, gc); }
//@loop 2
                invariant
                    0 <= gc < self.n, self.n == A0.n, self.m == A0.m, $var1 == gc,
                    cp0 == A0.colptr@, rv0 == A0.rowval@, nz0 == A0.nzval@, nn == rv0.len(), nn <= usize::MAX, hd == heads_cp(cp0, rv0),
                    dims_ok(A0), mono2(cp0), cp0[0] == 0, rows_nondecr(A0),
                    self.colptr@.len() == cp0.len(), self.rowval@.len() == nn, self.nzval@.len() == nn,
                    stop == cp0[gc + 1], cp0[gc] <= ptr <= stop, stop <= nn, nnz == nheads(hd, ptr as int), nnz <= ptr,
                    ptr < nn ==> hd[ptr as int],
                    cp0[gc] < ptr < stop ==> rv0[ptr - 1] < rv0[ptr as int],
                    forall|c: int| 0 <= c <= gc ==> #[trigger] self.colptr@[c] == nheads(hd, cp0[c] as int),
                    forall|c: int| gc < c <= self.n ==> #[trigger] self.colptr@[c] == cp0[c],
                    forall|k: int| ptr <= k < nn ==> #[trigger] self.rowval@[k] == rv0[k],
                    forall|k: int| ptr <= k < nn ==> #[trigger] self.nzval@[k] == nz0[k],
                    forall|k: int| 0 <= k < ptr ==> self.rowval@[#[trigger] dst(hd, k)] == rv0[k],
                    forall|k: int| 0 <= k < ptr && (k + 1 == nn || hd[k + 1]) ==> self.nzval@[#[trigger] dst(hd, k)] == acc(hd, nz0, k),
                    forall|c: int, d: int| #[trigger] cd(c, d) && 0 <= c < gc && self.colptr@[c] <= d && d + 1 < self.colptr@[c + 1] ==> self.rowval@[d] < self.rowval@[d + 1],
                    forall|d: int| #[trigger] cd(gc, d) && self.colptr@[gc] <= d && d + 1 < nnz ==> self.rowval@[d] < self.rowval@[d + 1],
                    rows_in_range(A0) ==> forall|d: int| 0 <= d < nnz ==> #[trigger] self.rowval@[d] < self.m,
                decreases stop - ptr
//@body_start 2
                let ghost p0 = ptr as int;
                let ghost w0 = nnz as int;
                let ghost rv1 = self.rowval@;
                let ghost nz1 = self.nzval@;
                proof {
                    assert(nheads(hd, p0 + 1) == nheads(hd, p0) + 1);
                    assert(acc(hd, nz0, p0) == nz0[p0]);
                    assert(in_col(A0, p0, gc));
                }
//@loop 3
                    invariant
                        0 <= gc < self.n, self.n == A0.n, self.m == A0.m,
                        cp0 == A0.colptr@, rv0 == A0.rowval@, nz0 == A0.nzval@, nn == rv0.len(), nn <= usize::MAX, hd == heads_cp(cp0, rv0),
                        mono2(cp0), rows_nondecr(A0), cp0.len() == self.n + 1,
                        self.rowval@ == rv1, self.nzval@ == nz1, self.rowval@.len() == nn, self.nzval@.len() == nn,
                        stop == cp0[gc + 1], cp0[gc] <= p0 < ptr <= stop, stop <= nn,
                        forall|k: int| ptr <= k < nn ==> #[trigger] rv1[k] == rv0[k],
                        forall|k: int| ptr <= k < nn ==> #[trigger] nz1[k] == nz0[k],
                        thisrow == rv0[p0], accum == acc(hd, nz0, ptr - 1),
                        forall|k: int| p0 <= k < ptr ==> #[trigger] rv0[k] == thisrow,
                        forall|k: int| p0 <= k < ptr ==> #[trigger] dst(hd, k) == w0,
                        forall|k: int| p0 < k < ptr ==> !#[trigger] hd[k],
                    decreases stop - ptr
//@body_start 3
                    proof {
                        let q = ptr as int;
                        assert(rv0[q - 1] == thisrow);
                        lemma_not_col_start(cp0, gc, q);
                        assert(!hd[q]);
                        assert(nheads(hd, q + 1) == nheads(hd, q));
                        assert(dst(hd, q - 1) == w0);
                        assert(dst(hd, q) == w0);
                        assert(acc(hd, nz0, q) == f_add(acc(hd, nz0, q - 1), nz0[q]));
                    }
//@after "nnz += 1;"
                proof {
                    let q = ptr as int;
                    assert(dst(hd, q - 1) == w0);
                    assert(nheads(hd, q) == w0 + 1);
                    if q < nn {
                        if q == stop { lemma_col_start(cp0, gc + 1); } else { assert(rv0[q - 1] == thisrow); assert(rv0[q] != rv0[q - 1]); }
                        assert(hd[q]);
                    }
                    if cp0[gc] < q && q < stop { assert(in_col(A0, q - 1, gc)); }
                    assert forall|k: int| 0 <= k < q implies self.rowval@[#[trigger] dst(hd, k)] == rv0[k] by {
                        if k < p0 { lemma_nheads_mono(hd, k + 1, p0); assert(rv1[dst(hd, k)] == rv0[k]); }
                    }
                    assert forall|k: int| 0 <= k < q && (k + 1 == nn || hd[k + 1]) implies self.nzval@[#[trigger] dst(hd, k)] == acc(hd, nz0, k) by {
                        if k < p0 { lemma_nheads_mono(hd, k + 1, p0); assert(nz1[dst(hd, k)] == acc(hd, nz0, k)); }
                        else if k < q - 1 { assert(!hd[k + 1]); }
                    }
                    assert forall|d: int| #[trigger] cd(gc, d) && self.colptr@[gc] <= d && d + 1 < nnz implies self.rowval@[d] < self.rowval@[d + 1] by {
                        if d + 1 == w0 {
                            // the previous cell of this column: slot p0 - 1 of the input, whose row is smaller
                            lemma_nheads_mono(hd, cp0[gc] as int, p0);
                            assert(p0 > cp0[gc]);
                            assert(rv1[dst(hd, p0 - 1)] == rv0[p0 - 1]);
                        } else { assert(cd(gc, d)); assert(rv1[d] < rv1[d + 1]); }
                    }
                    assert forall|c: int, d: int| #[trigger] cd(c, d) && 0 <= c < gc && self.colptr@[c] <= d && d + 1 < self.colptr@[c + 1] implies self.rowval@[d] < self.rowval@[d + 1] by {
                        lemma_mono2(cp0, c + 1, gc); lemma_nheads_mono(hd, cp0[c + 1] as int, p0);
                        assert(rv1[d] < rv1[d + 1]);
                    }
                    if rows_in_range(A0) {
                        assert forall|d: int| 0 <= d < nnz implies #[trigger] self.rowval@[d] < self.m by {
                            if d == w0 { assert(A0.rowval@[p0] < A0.m); } else { assert(rv1[d] < self.m); }
                        }
                    }
                }
//@body_end 1
            proof {
                assert(self.colptr@[gc + 1] == nheads(hd, cp0[gc + 1] as int));
            }
//@before "Ok(())"
        proof {
            assert(stop == nn);
            if nn > 0 { lemma_col_start(cp0, 0); assert(hd[0]); }
            assert forall|k: int| 0 <= k < nn implies self.rowval@[#[trigger] dst(hd, k)] == rv0[k] by { lemma_nheads_mono(hd, k + 1, nn); lemma_nheads_pos(hd, k + 1); }
            assert forall|k: int| 0 <= k < nn && (k + 1 == nn || hd[k + 1]) implies self.nzval@[#[trigger] dst(hd, k)] == acc(hd, nz0, k) by { lemma_nheads_mono(hd, k + 1, nn); lemma_nheads_pos(hd, k + 1); }
            assert(dedup_of(A0, *self));
            assert(adj_mono(self.colptr@)) by {
                reveal(adj_mono);
                assert forall|i: int| 0 <= i < self.colptr@.len() - 1 implies #[trigger] self.colptr@[i] <= self.colptr@[i + 1] by {
                    lemma_mono2(cp0, i, i + 1); lemma_nheads_mono(hd, cp0[i] as int, cp0[i + 1] as int);
                }
            }
            assert forall|r: int, c: int| 0 <= c < A0.n implies #[trigger] dense(*self, r, c) == dense(A0, r, c) by { lemma_dedup_dense(A0, *self, r, c); }
            if rows_in_range(*self) {
                assert forall|k: int| 0 <= k < nn implies #[trigger] A0.rowval@[k] < A0.m by { assert(self.rowval@[dst(hd, k)] == rv0[k]); lemma_nheads_mono(hd, k + 1, nn); lemma_nheads_pos(hd, k + 1); }
            }
            assert forall|c: int, k: int| #[trigger] in_col(*self, k, c) && k + 1 < self.colptr@[c + 1] implies self.rowval@[k] < self.rowval@[k + 1] by {
                assert(cd(c, k));
                lemma_mono2(cp0, c + 1, self.n as int); lemma_nheads_mono(hd, cp0[c + 1] as int, nn);
            }
        }
//@end

//@fn file=src/algebra/csc/core.rs in="impl<T> CscMatrix<T>" name=sort_indices rules=R1,R15:self.nzval|self.rowval,R3,R40,zipidx:2 ret=r
//@contract
    requires dims_ok(*old(self)), colptr_mono(*old(self)),
    ensures
        r is Ok,
        // array level: every column is rearranged by a stable sort on the row index (std sort contract ASSUMED, rule R40)
        exists|p: Seq<int>, q: Seq<int>| cols_sorted_by(*old(self), *final(self), p, q),
        dims_ok(*final(self)), colptr_mono(*final(self)), rows_nondecr(*final(self)),
        rows_in_range(*final(self)) <==> rows_in_range(*old(self)),
        // C16: no cell changes (equal row indices keep their order, so the left-to-right sums are the same)
        forall|i: int, c: int| 0 <= c < old(self).n ==> #[trigger] dense(*final(self), i, c) == dense(*old(self), i, c),
//@pre
        proof { assert(self.rowval@.len() == self.rowval.len()); assert(self.colptr@.len() == self.colptr.len()); lemma_mono_all(self.colptr@); }
        let ghost A0 = *self;
        let ghost cp0 = self.colptr@;
        let ghost nn = self.rowval@.len() as int;
        let ghost mut gp: Seq<int> = Seq::new(nn as nat, |k: int| k);
        let ghost mut gq: Seq<int> = Seq::new(nn as nat, |k: int| k);
        proof { lemma_sort_init(A0); }
//@iter 1
it0
//@loop 1
        invariant
            it0.seq().len() == self.n, range_from(it0.seq(), 0), self.n == A0.n, self.m == A0.m,
            A0 == *old(self), cp0 == A0.colptr@, nn == A0.rowval@.len(), nn <= usize::MAX,
            dims_ok(A0), mono2(cp0), cp0[0] == 0,
            self.colptr@ == cp0, self.rowval@.len() == nn, self.nzval@.len() == nn,
            sort_inv(A0, self.rowval@, self.nzval@, gp, gq, it0.index@ as int),
//@body_start 1
            let ghost gc = $var1 as int;
            let ghost rvS = self.rowval@;
            let ghost nzS = self.nzval@;
            let ghost gp1 = gp;
            let ghost gq1 = gq;
            proof { lemma_mono2(cp0, gc, gc + 1); lemma_mono2(cp0, gc + 1, self.n as int); }
            let ghost lo = cp0[gc] as int;
            let ghost hi = cp0[gc + 1] as int;
//@after "let rowval = &mut self.rowval"
            let ghost rsl = rowval@;
            let ghost nsl = nzval@;
            proof { assert(rsl == rvS.subrange(lo, hi)); assert(nsl == nzS.subrange(lo, hi)); }
//@loop 2
                invariant
                    r14_n1 == hi - lo, rowval@ == rsl, nzval@ == nsl, rsl.len() == hi - lo, nsl.len() == hi - lo, tempdata@.len() == hi - lo,
                    i_ctr == r14_i1, hi - lo <= usize::MAX,
                    forall|t: int| 0 <= t < r14_i1 ==> #[trigger] tempdata@[t] == (rsl[t], nsl[t]),
//@before "sort_pairs_by_key0(&mut tempdata);"
            let ghost td0 = tempdata@;
//@after "sort_pairs_by_key0(&mut tempdata);"
            let ghost td1 = tempdata@;
            let ghost lpq = choose|p: Seq<int>, q: Seq<int>| pairs_stably_sorted(td0, td1, p, q);
            let ghost lp = lpq.0;
            let ghost lq = lpq.1;
            proof {
                assert(pairs_stably_sorted(td0, td1, lp, lq));
                assert forall|t: int| 0 <= t < td1.len() implies #[trigger] td1[t] == (rvS[lo + lp[t]], nzS[lo + lp[t]]) by {
                    lemma_perm(lp, lq, hi - lo, t);
                    assert(td1[t] == td0[lp[t]]);
                    assert(td0[lp[t]] == (rsl[lp[t]], nsl[lp[t]]));
                }
            }
//@iter 3
it3
//@loop 3
                invariant
                    it3.seq().len() == td1.len(), (forall|t: int| 0 <= t < td1.len() ==> *(#[trigger] it3.seq()[t]) == td1[t]), td1 == tempdata@,
                    td1.len() == hi - lo, i_ctr == it3.index@, rowval@.len() == hi - lo, nzval@.len() == hi - lo, hi - lo <= usize::MAX,
                    forall|t: int| 0 <= t < i_ctr ==> #[trigger] rowval@[t] == td1[t].0,
                    forall|t: int| 0 <= t < i_ctr ==> #[trigger] nzval@[t] == td1[t].1,
//@body_end 1
            proof {
                assert forall|k: int| lo <= k < hi implies #[trigger] self.rowval@[k] == td1[k - lo].0 by { }
                assert forall|k: int| lo <= k < hi implies #[trigger] self.nzval@[k] == td1[k - lo].1 by { }
                lemma_sort_step(A0, gc, rvS, nzS, self.rowval@, self.nzval@, gp1, gq1, td1, lp, lq);
                gp = splice(gp1, lo, hi, lp);
                gq = splice(gq1, lo, hi, lq);
            }
//@before "Ok(())"
        proof {
            lemma_sort_final(A0, *self, gp, gq);
            assert forall|i: int, c: int| 0 <= c < A0.n implies #[trigger] dense(*self, i, c) == dense(A0, i, c) by { lemma_sort_dense(A0, *self, gp, gq, i, c); }
            if rows_in_range(A0) { assert forall|k: int| 0 <= k < nn implies #[trigger] self.rowval@[k] < self.m by { lemma_perm(gp, gq, nn, k); assert(A0.rowval@[gp[k]] < A0.m); } }
            if rows_in_range(*self) { assert forall|k: int| 0 <= k < nn implies #[trigger] A0.rowval@[k] < A0.m by { lemma_perm(gp, gq, nn, k); assert(self.rowval@[gq[k]] == A0.rowval@[gp[gq[k]]]); } }
        }
//@end

//@fn file=src/algebra/csc/core.rs in="impl<T> CscMatrix<T>" name=check_dimensions rules=R1,R21 ret=r
//@contract
    ensures
        r is Ok <==> dims_ok(*self) && colptr_mono(*self),
        r matches Err(e) ==> (e == SparseFormatError::IncompatibleDimension <==> !dims_ok(*self)) && (e == SparseFormatError::BadColptr <==> dims_ok(*self)),
//@pre
        proof { reveal(adj_mono); assert(self.rowval@.len() == self.rowval.len()); assert(self.colptr@.len() == self.colptr.len()); }
//@iter 1
it1
//@loop 1
            invariant
                r21_s1@ == self.colptr@, it1.seq().len() == r21_s1@.len() - 1, range_from(it1.seq(), 1), r21_s1@.len() >= 1,
                !r21_k1 ==> forall|i: int| 0 <= i < it1.index@ ==> #[trigger] self.colptr@[i] <= self.colptr@[i + 1],
                r21_k1 ==> exists|i: int| 0 <= i < self.colptr@.len() - 1 && #[trigger] self.colptr@[i] > self.colptr@[i + 1],
//@end

//@fn file=src/algebra/csc/core.rs in="impl<T> CscMatrix<T>" name=canonicalize rules=R1 ret=r
//@contract
    ensures
        // rejected exactly when the dimensions are inconsistent or the column pointers are not monotone from 0; nothing is touched then
        r is Ok <==> dims_ok(*old(self)) && colptr_mono(*old(self)),
        r is Err ==> *final(self) == *old(self),
        // C16 (canonicalisation): on Ok the columns are strictly sorted (no duplicates) and no cell of the dense meaning has
        // changed (duplicates of a cell are added from left to right in storage order; structural zeros stay).
        // The row range is NOT checked: the result passes check_format iff all stored rows of the input were < m.
        r is Ok ==> final(self).m == old(self).m && final(self).n == old(self).n
            && dims_ok(*final(self)) && colptr_mono(*final(self)) && rows_sorted(*final(self))
            && (canonical(*final(self)) <==> rows_in_range(*old(self)))
            && forall|i: int, c: int| 0 <= c < old(self).n ==> #[trigger] dense(*final(self), i, c) == dense(*old(self), i, c),
//@end

//@include units/inc/csc_alloc.rs
//@fn file=src/algebra/csc/core.rs in="ShapedMatrix for CscMatrix<T>" name=ncols rules=R1 ret=r
//@contract
    ensures r == self.n
//@end
//@include units/inc/csc_colcount_fns.rs

//@fn file=src/algebra/csc/core.rs in="impl<T> CscMatrix<T>" name=new_from_triplets as=triplets_consolidate rules=R1,R5 from="for &c in J.iter() {" to="M.colcount_to_colptr();" header="fn new_from_triplets<T>(M: &mut CscMatrix<T>, I: &Vec<usize>, J: &Vec<usize>, V: &Vec<T>, n: usize)"
//@contract
    requires
        // established by the DROPPED prefix of the function:
        //   the two assert_eq! on the lengths; M = spalloc((m, n), V.len());
        I@.len() == J@.len(), I@.len() == V@.len(),
        old(M).n == n, old(M).colptr@.len() == n + 1, old(M).colptr@[n as int] == V@.len(),
        forall|c: int| 0 <= c < n ==> #[trigger] old(M).colptr@[c] == 0,
        //   sortperm_by (stable sort of 0..len by (J, I)) + permute: ASSUMED to leave I o p, V o p in M.rowval, M.nzval
        exists|p: Seq<int>, q: Seq<int>| sorted_input(I@, J@, V@, p, q, old(M).rowval@, old(M).nzval@),
        // obligation of the caller (not checked by the code): column indices in range
        forall|k: int| 0 <= k < J@.len() ==> #[trigger] J@[k] < n,
        // a Vec<usize> of this length exists, so 8 * len <= isize::MAX (allocation limit of Vec, not known to Verus)
        2 * V@.len() <= usize::MAX,
    ensures
        final(M).m == old(M).m, final(M).n == n,
        // C16: the result is canonical (as far as the columns go: check_format would accept it iff all I < m) ...
        dims_ok(*final(M)), colptr_mono(*final(M)), rows_sorted(*final(M)),
        rows_in_range(*final(M)) <==> (forall|k: int| 0 <= k < I@.len() ==> #[trigger] I@[k] < old(M).m),
        // ... and equal to the dense matrix the triplets define: each cell holds the values of its triplets added from
        // left to right in the order of the input lists (a cell without triplet is not stored)
        forall|r: int, c: int| 0 <= c < n ==> #[trigger] dense(*final(M), r, c) == tfold(I@, J@, V@, r, c),
//@pre
        proof { assert(M.colptr@.len() == M.colptr.len()); assert(M.rowval@.len() == M.rowval.len()); assert(J@.len() == J.len()); }
        let ghost M0 = *M;
        let ghost nn = I@.len() as int;
        let ghost pq = choose|p: Seq<int>, q: Seq<int>| sorted_input(I@, J@, V@, p, q, M.rowval@, M.nzval@);
        let ghost gp = pq.0;
        let ghost gq = pq.1;
        let ghost cs = compose(J@, gp);
        let ghost rv0 = M.rowval@;
        let ghost nz0 = M.nzval@;
        let ghost hd = heads_cs(cs, rv0);
        proof {
            assert(sorted_input(I@, J@, V@, gp, gq, rv0, nz0));
            lemma_cols_sorted(I@, J@, gp);
            lemma_perm_len(gp, gq, nn);
            assert forall|i: int| 0 <= i < cs.len() implies #[trigger] cs[i] < n by { lemma_perm(gp, gq, nn, i); }
        }
//@iter 1
it1
//@loop 1
        invariant
            it1.seq().len() == nn, (forall|i: int| 0 <= i < nn ==> *(#[trigger] it1.seq()[i]) == J@[i]), nn == J@.len(), nn <= usize::MAX,
            forall|k: int| 0 <= k < J@.len() ==> #[trigger] J@[k] < n,
            M.n == n, M.m == M0.m, M.colptr@.len() == n + 1, M.rowval@ == rv0, M.nzval@ == nz0, M.colptr@[n as int] == nn,
            forall|c: int| 0 <= c < n ==> #[trigger] M.colptr@[c] == cnt(J@, c, it1.index@ as int),
//@body_start 1
            let ghost gi = it1.index@ as int;
            let ghost cp1 = M.colptr@;
            proof { assert(*$var1 == J@[gi]); lemma_cnt_bounds(J@, J@[gi] as int, gi); }
//@body_end 1
            proof {
                assert forall|x: int| 0 <= x < n implies #[trigger] M.colptr@[x] == cnt(J@, x, gi + 1) by {
                    assert(cp1[x] == cnt(J@, x, gi));
                    assert(cnt(J@, x, gi + 1) == cnt(J@, x, gi) + (if J@[gi] == x { 1int } else { 0int }));
                }
            }
//@before "let mut readidx = 0;"
        proof { lemma_cnt_lt_all(cs, nn, n as int); }
//@iter 2
it2
//@loop 2
        invariant
            it2.seq().len() == n, range_from(it2.seq(), 0),
            M.n == n, M.m == M0.m, M.colptr@.len() == n + 1, M.rowval@.len() == nn, M.nzval@.len() == nn, nn <= usize::MAX,
            nn == I@.len(), nn == J@.len(), rv0.len() == nn, nz0.len() == nn, gp.len() == nn, gq.len() == nn, cs == compose(J@, gp), hd == heads_cs(cs, rv0),
            sorted_input(I@, J@, V@, gp, gq, rv0, nz0), cols_sorted(cs), forall|i: int| 0 <= i < cs.len() ==> #[trigger] cs[i] < n,
            readidx == cstart(cs, it2.index@ as int), writeidx == nheads(hd, readidx as int), writeidx <= readidx, readidx <= nn,
            forall|c: int| 0 <= c < it2.index@ ==> #[trigger] M.colptr@[c] == nheads(hd, cstart(cs, c + 1)) - nheads(hd, cstart(cs, c)),
            forall|c: int| it2.index@ <= c < n ==> #[trigger] M.colptr@[c] == cnt(J@, c, nn),
            M.colptr@[n as int] == nn,
            forall|k: int| writeidx <= k < nn ==> #[trigger] M.rowval@[k] == rv0[k],
            forall|k: int| writeidx <= k < nn ==> #[trigger] M.nzval@[k] == nz0[k],
            forall|k: int| 0 <= k < readidx ==> M.rowval@[#[trigger] dst(hd, k)] == rv0[k],
            forall|k: int| 0 <= k < readidx && bnd(hd, k + 1) ==> M.nzval@[#[trigger] dst(hd, k)] == acc(hd, nz0, k),
            forall|c: int, d: int| #[trigger] cd(c, d) && 0 <= c < it2.index@ && nheads(hd, cstart(cs, c)) <= d && d + 1 < nheads(hd, cstart(cs, c + 1)) ==> M.rowval@[d] < M.rowval@[d + 1],
            (forall|k: int| 0 <= k < nn ==> #[trigger] I@[k] < M0.m) ==> forall|d: int| 0 <= d < writeidx ==> #[trigger] M.rowval@[d] < M0.m,
//@body_start 2
            let ghost gc = $var2 as int;
            let ghost s0 = cstart(cs, gc);
            let ghost s1 = cstart(cs, gc + 1);
            proof {
                lemma_block0(cs, n as int, gc); lemma_cnt_sorted(J@, gp, gq, gc);
                assert(M.colptr@[gc] == s1 - s0);
                if s0 < nn {
                    // the first slot of a column opens a cell
                    lemma_block(cs, n as int, gc, s0);
                    if s0 > 0 { lemma_block(cs, n as int, gc, s0 - 1); }
                    if s0 < s1 { assert(hd[s0]); }
                }
            }
//@iter 3
it3
//@loop 3
                invariant
                    it3.seq().len() == nentries, range_from(it3.seq(), 0),
                    M.n == n, M.m == M0.m, M.colptr@.len() == n + 1, M.rowval@.len() == nn, M.nzval@.len() == nn, nn <= usize::MAX,
                    nn == I@.len(), nn == J@.len(), rv0.len() == nn, nz0.len() == nn, gp.len() == nn, gq.len() == nn, cs == compose(J@, gp), hd == heads_cs(cs, rv0),
                    sorted_input(I@, J@, V@, gp, gq, rv0, nz0), cols_sorted(cs), forall|i: int| 0 <= i < cs.len() ==> #[trigger] cs[i] < n,
                    0 <= gc < n, $var2 == gc, s0 == cstart(cs, gc), s1 == cstart(cs, gc + 1), 0 <= s0 <= s1 <= nn, nentries == s1 - s0,
                    s0 < s1 ==> hd[s0],
                    readidx == s0 + it3.index@, writeidx == nheads(hd, readidx as int), writeidx <= readidx,
                    M.colptr@[gc] + it3.index@ == nentries + nheads(hd, readidx as int) - nheads(hd, s0),
                    forall|c: int| 0 <= c < gc ==> #[trigger] M.colptr@[c] == nheads(hd, cstart(cs, c + 1)) - nheads(hd, cstart(cs, c)),
                    forall|c: int| gc < c < n ==> #[trigger] M.colptr@[c] == cnt(J@, c, nn),
                    M.colptr@[n as int] == nn,
                    forall|k: int| writeidx <= k < nn ==> #[trigger] M.rowval@[k] == rv0[k],
                    forall|k: int| writeidx <= k < nn ==> #[trigger] M.nzval@[k] == nz0[k],
                    forall|k: int| 0 <= k < readidx ==> M.rowval@[#[trigger] dst(hd, k)] == rv0[k],
                    forall|k: int| 0 <= k < readidx && (k + 1 == readidx || hd[k + 1]) ==> M.nzval@[#[trigger] dst(hd, k)] == acc(hd, nz0, k),
                    forall|c: int, d: int| #[trigger] cd(c, d) && 0 <= c < gc && nheads(hd, cstart(cs, c)) <= d && d + 1 < nheads(hd, cstart(cs, c + 1)) ==> M.rowval@[d] < M.rowval@[d + 1],
                    forall|d: int| #[trigger] cd(gc, d) && nheads(hd, s0) <= d && d + 1 < writeidx ==> M.rowval@[d] < M.rowval@[d + 1],
                    (forall|k: int| 0 <= k < nn ==> #[trigger] I@[k] < M0.m) ==> forall|d: int| 0 <= d < writeidx ==> #[trigger] M.rowval@[d] < M0.m,
//@body_start 3
                let ghost gj = $var3 as int;
                let ghost r0 = readidx as int;
                let ghost w0 = writeidx as int;
                let ghost rv1 = M.rowval@;
                let ghost nz1 = M.nzval@;
                let ghost cp1 = M.colptr@;
                proof {
                    lemma_block(cs, n as int, gc, r0);
                    lemma_perm(gp, gq, nn, r0);
                    assert(cs[r0] == gc);
                    assert(rv1[r0] == rv0[r0]);
                    assert(nz1[r0] == nz0[r0]);
                    assert(nheads(hd, r0 + 1) == nheads(hd, r0) + (if hd[r0] { 1int } else { 0int }));
                    if gj > 0 {
                        lemma_block(cs, n as int, gc, r0 - 1);
                        assert(cs[r0 - 1] == gc);
                        assert(hd[r0] == (rv0[r0 - 1] != rv0[r0]));
                        assert(nheads(hd, s0 + 1) == nheads(hd, s0) + 1);
                        lemma_nheads_mono(hd, s0 + 1, r0);
                        lemma_nheads_mono(hd, 0, s0);
                        assert(dst(hd, r0 - 1) == w0 - 1);
                        assert(rv1[dst(hd, r0 - 1)] == rv0[r0 - 1]);
                        if w0 < r0 { assert(rv1[r0 - 1] == rv0[r0 - 1]); }
                        // same column => rows in order
                        lemma_stable_sorted(I@, J@, gp, r0 - 1, r0);
                        assert(rv0[r0 - 1] <= rv0[r0]);
                        assert(nz1[dst(hd, r0 - 1)] == acc(hd, nz0, r0 - 1));
                        if !hd[r0] { assert(acc(hd, nz0, r0) == f_add(acc(hd, nz0, r0 - 1), nz0[r0])); }
                    } else {
                        assert(hd[r0]);
                    }
                    if hd[r0] { assert(acc(hd, nz0, r0) == nz0[r0]); }
                    assert(dst(hd, r0) == (if hd[r0] { w0 } else { w0 - 1 }));
                    assert(I@[gp[r0]] == rv0[r0]);
                }
//@body_end 3
                proof {
                    assert forall|k: int| 0 <= k < r0 + 1 implies M.rowval@[#[trigger] dst(hd, k)] == rv0[k] by {
                        if k < r0 { lemma_nheads_mono(hd, k + 1, r0); assert(rv1[dst(hd, k)] == rv0[k]); }
                    }
                    assert forall|k: int| 0 <= k < r0 + 1 && (k + 1 == r0 + 1 || hd[k + 1]) implies M.nzval@[#[trigger] dst(hd, k)] == acc(hd, nz0, k) by {
                        if k < r0 {
                            lemma_nheads_mono(hd, k + 1, r0);
                            if k + 1 < r0 { assert(nheads(hd, k + 2) == nheads(hd, k + 1) + 1); lemma_nheads_mono(hd, k + 2, r0); }
                            assert(nz1[dst(hd, k)] == acc(hd, nz0, k));
                        }
                    }
                    assert forall|d: int| #[trigger] cd(gc, d) && nheads(hd, s0) <= d && d + 1 < writeidx implies M.rowval@[d] < M.rowval@[d + 1] by {
                        if d + 1 == w0 && hd[r0] {
                            lemma_nheads_mono(hd, s0, r0);
                            assert(gj > 0);
                        } else { assert(cd(gc, d)); assert(rv1[d] < rv1[d + 1]); }
                    }
                    assert forall|c: int, d: int| #[trigger] cd(c, d) && 0 <= c < gc && nheads(hd, cstart(cs, c)) <= d && d + 1 < nheads(hd, cstart(cs, c + 1)) implies M.rowval@[d] < M.rowval@[d + 1] by {
                        lemma_block0(cs, n as int, c); lemma_cstart_mono(cs, n as int, c + 1, gc);
                        lemma_nheads_mono(hd, cstart(cs, c + 1), s0); lemma_nheads_mono(hd, s0, r0);
                        assert(rv1[d] < rv1[d + 1]);
                    }
                    if forall|k: int| 0 <= k < nn ==> #[trigger] I@[k] < M0.m {
                        assert forall|d: int| 0 <= d < writeidx implies #[trigger] M.rowval@[d] < M0.m by {
                            if d == w0 && hd[r0] { assert(I@[gp[r0]] < M0.m); } else { assert(rv1[d] < M0.m); }
                        }
                    }
                }
//@body_end 2
            proof {
                assert(readidx == s1);
                assert(M.colptr@[gc] == nheads(hd, s1) - nheads(hd, s0));
                assert forall|k: int| 0 <= k < readidx && bnd(hd, k + 1) implies M.nzval@[#[trigger] dst(hd, k)] == acc(hd, nz0, k) by { }
                assert forall|c: int, d: int| #[trigger] cd(c, d) && 0 <= c < gc + 1 && nheads(hd, cstart(cs, c)) <= d && d + 1 < nheads(hd, cstart(cs, c + 1)) implies M.rowval@[d] < M.rowval@[d + 1] by {
                    if c == gc { assert(cd(gc, d)); }
                }
            }
//@before "M.rowval.resize("
        let ghost cnts = M.colptr@;
        let ghost rv2 = M.rowval@;
        let ghost nz2 = M.nzval@;
        proof {
            assert(readidx == nn);
            lemma_sum_heads(cnts, hd, cs, n as int, n as int);
            assert(sum_upto(cnts, n as int + 1) == sum_upto(cnts, n as int) + cnts[n as int]);
        }
//@after "M.colcount_to_colptr();"
        proof {
            let nw = writeidx as int;
            assert(M.rowval@ =~= rv2.subrange(0, nw));
            assert(M.nzval@ =~= nz2.subrange(0, nw));
            if nn > 0 { assert(hd[0]); }
            assert forall|c: int| 0 <= c <= n implies #[trigger] M.colptr@[c] == nheads(hd, cstart(cs, c)) by { lemma_sum_heads(cnts, hd, cs, n as int, c); }
            assert forall|k: int| 0 <= k < nn implies 0 <= #[trigger] dst(hd, k) < nw && M.rowval@[dst(hd, k)] == rv0[k] by {
                lemma_nheads_mono(hd, k + 1, nn); lemma_nheads_pos(hd, k + 1); assert(rv2[dst(hd, k)] == rv0[k]);
            }
            assert forall|k: int| 0 <= k < nn && bnd(hd, k + 1) implies M.nzval@[#[trigger] dst(hd, k)] == acc(hd, nz0, k) by {
                lemma_nheads_mono(hd, k + 1, nn); lemma_nheads_pos(hd, k + 1); assert(nz2[dst(hd, k)] == acc(hd, nz0, k));
            }
            assert(consolidated(cs, rv0, nz0, n as int, *M));
            // canonical structure
            assert(adj_mono(M.colptr@)) by {
                reveal(adj_mono);
                assert forall|i: int| 0 <= i < M.colptr@.len() - 1 implies #[trigger] M.colptr@[i] <= M.colptr@[i + 1] by {
                    lemma_block0(cs, n as int, i); lemma_nheads_mono(hd, cstart(cs, i), cstart(cs, i + 1));
                }
            }
            assert(nheads(hd, 0) == 0);
            assert forall|c: int, k: int| #[trigger] in_col(*M, k, c) && k + 1 < M.colptr@[c + 1] implies M.rowval@[k] < M.rowval@[k + 1] by {
                assert(cd(c, k));
                lemma_block0(cs, n as int, c); lemma_nheads_mono(hd, cstart(cs, c + 1), nn);
                assert(rv2[k] < rv2[k + 1]);
            }
            if rows_in_range(*M) {
                assert forall|k: int| 0 <= k < nn implies #[trigger] I@[k] < M0.m by {
                    let x = gq[k];
                    lemma_perm(gp, gq, nn, k);
                    assert(gp[x] == k); assert(rv0[x] == I@[gp[x]]); assert(M.rowval@[dst(hd, x)] == rv0[x]);
                }
            }
            assert forall|r: int, c: int| 0 <= c < n implies #[trigger] dense(*M, r, c) == tfold(I@, J@, V@, r, c) by {
                lemma_triplets_dense(I@, J@, V@, gp, gq, rv0, nz0, n as int, *M, r, c);
            }
        }
//@end

//@fn file=src/algebra/csc/core.rs in="From<I> for CscMatrix<T>" name=from as=from_rows_fill rules=R1 from="colptr.push(0);" to="for c in 0..n {" header="fn from<T>(rows: &Vec<Vec<T>>, m: usize, n: usize, colptr: &mut Vec<usize>, rowval: &mut Vec<usize>, nzval: &mut Vec<T>)"
//@contract
    requires
        // established by the DROPPED prefix: rows collected into Vec<Vec<T>>, m = number of rows, n = length of the first row,
        // assert!(all rows have length n), three empty vectors allocated (with_capacity)
        rows@.len() == m, forall|r: int| 0 <= r < m ==> (#[trigger] rows@[r])@.len() == n,
        old(colptr)@.len() == 0, old(rowval)@.len() == 0, old(nzval)@.len() == 0,
    ensures
        // C16 (construction from rows): the three vectors the dropped struct literal CscMatrix { m, n, colptr, rowval, nzval }
        // is built from form a canonical matrix whose cell (r, c) is rows[r][c], zeros not stored
        ({ let A = CscMatrix { m: m, n: n, colptr: *final(colptr), rowval: *final(rowval), nzval: *final(nzval) };
           canonical(A) && forall|r: int, c: int| 0 <= r < m && 0 <= c < n ==> #[trigger] dense(A, r, c) == row_cell(rows@, r, c) }),
//@after_stmt 1
        proof { assert(rows_filled(rows@, m as int, colptr@, rowval@, nzval@, 0)); }
//@iter 1
it0
//@loop 1
        invariant
            it0.seq().len() == n, range_from(it0.seq(), 0), rows@.len() == m, forall|r: int| 0 <= r < m ==> (#[trigger] rows@[r])@.len() == n,
            rows_filled(rows@, m as int, colptr@, rowval@, nzval@, it0.index@ as int), colptr@[it0.index@ as int] == rowval@.len(),
//@body_start 1
            let ghost gc = $var1 as int;
            let ghost s0 = rowval@.len() as int;
            let ghost cpv = colptr@;
//@iter 2
it1
//@loop 2
                invariant
                    it1.seq().len() == m, range_from(it1.seq(), 0), rows@.len() == m, forall|r: int| 0 <= r < m ==> (#[trigger] rows@[r])@.len() == n,
                    0 <= gc < n, $var1 == gc, colptr@ == cpv, cpv[gc] == s0,
                    rows_filled(rows@, m as int, cpv, rowval@, nzval@, gc), col_partial(rows@, rowval@, nzval@, gc, s0, it1.index@ as int),
//@body_start 2
                let ghost gr = $var2 as int;
                let ghost rv1 = rowval@;
                let ghost nz1 = nzval@;
                proof { assert(rows@[gr]@.len() == n); }
//@body_end 2
                proof { lemma_rows_step(rows@, m as int, cpv, rv1, nz1, gc, gr, rowval@, nzval@); }
//@body_end 1
            proof {
                let cp2 = colptr@;
                assert(cp2 == cpv.push(rowval@.len() as usize));
                assert forall|i: int| #[trigger] cd(0, i) && 0 <= i < gc + 1 implies cp2[i] <= cp2[i + 1] by { if i < gc { assert(cpv[i] <= cpv[i + 1]); } }
                assert forall|x: int, q: int| #[trigger] cd(x, q) && 0 <= x < gc + 1 && 0 <= q < m implies colfold(rowval@, nzval@, q, cp2[x] as int, cp2[x + 1] as int) == row_cell(rows@, q, x) by {
                    if x < gc { assert(cp2[x] == cpv[x] && cp2[x + 1] == cpv[x + 1]); } else { assert(cd(gc, q)); }
                }
                assert forall|x: int, k: int| #[trigger] cd(x, k) && 0 <= x < gc + 1 && cp2[x] <= k && k + 1 < cp2[x + 1] implies rowval@[k] < rowval@[k + 1] by {
                    if x < gc { assert(cp2[x] == cpv[x] && cp2[x + 1] == cpv[x + 1]); } else { assert(cd(gc, k)); }
                }
            }
//@post
        proof {
            let A = CscMatrix { m: m, n: n, colptr: *colptr, rowval: *rowval, nzval: *nzval };
            assert(adj_mono(A.colptr@)) by { reveal(adj_mono); assert forall|i: int| 0 <= i < A.colptr@.len() - 1 implies #[trigger] A.colptr@[i] <= A.colptr@[i + 1] by { assert(cd(0, i)); } }
            assert forall|x: int, k: int| #[trigger] in_col(A, k, x) && k + 1 < A.colptr@[x + 1] implies A.rowval@[k] < A.rowval@[k + 1] by { assert(cd(x, k)); }
            assert forall|r: int, x: int| 0 <= r < m && 0 <= x < n implies #[trigger] dense(A, r, x) == row_cell(rows@, r, x) by { assert(cd(x, r)); }
        }
//@end

//@fn file=src/algebra/csc/core.rs in="impl<T> CscMatrix<T>" name=findnz rules=R1,R41 ret=r
//@contract
    requires dims_ok(*self), colptr_mono(*self),
    ensures
        // C16 (triplet extraction): entry k of the storage becomes the triplet (rowval[k], column of slot k, nzval[k]), in storage order
        r.0@ == self.rowval@, r.2@ == self.nzval@, r.1@.len() == self.rowval@.len(),
        forall|c: int, k: int| #[trigger] in_col(*self, k, c) ==> r.1@[k] == c,
//@pre
        proof { assert(self.colptr@.len() == self.colptr.len()); lemma_mono_all(self.colptr@); }
        let ghost cp = self.colptr@;
//@iter 1
it0
//@loop 1
        invariant
            it0.seq().len() == self.n, range_from(it0.seq(), 0), dims_ok(*self), mono2(cp), cp == self.colptr@, cp[0] == 0,
            J@.len() == cp[it0.index@ as int],
            forall|x: int, k: int| #[trigger] in_col(*self, k, x) && x < it0.index@ ==> J@[k] == x,
//@body_start 1
            let ghost gc = $var1 as int;
            let ghost J1 = J@;
            proof { lemma_mono2(cp, gc, gc + 1); lemma_mono2(cp, gc + 1, self.n as int); }
//@body_end 1
            proof {
                assert forall|x: int, k: int| #[trigger] in_col(*self, k, x) && x < gc + 1 implies J@[k] == x by {
                    if x < gc { lemma_mono2(cp, x + 1, gc); assert(J1[k] == x); }
                }
            }
//@end
//@fn file=src/algebra/csc/core.rs in="impl<T> CscMatrix<T>" name=zeros rules=R1 ret=r
//@contract
    requires size.1 < usize::MAX,
    ensures
        // C16: the m x n matrix without stored entries (canonical; every cell is a structural zero)
        r.m == size.0, r.n == size.1, canonical(r), r.rowval@.len() == 0,
        forall|i: int, c: int| 0 <= c < r.n ==> #[trigger] dense(r, i, c) is None,
//@post
        proof {
            reveal(adj_mono);
            assert forall|i: int, c: int| 0 <= c < r_v.n implies #[trigger] dense(r_v, i, c) is None by { }
        }
//@end
//@fn file=src/algebra/csc/core.rs in="impl<T> CscMatrix<T>" name=identity rules=R1 ret=r
//@contract
    ensures
        // C16: the n x n identity: column c holds the single entry (c, c) with value one
        r.m == n, r.n == n, r.colptr@.len() == n + 1, r.rowval@.len() == n, r.nzval@.len() == n,
        forall|c: int| 0 <= c <= n ==> #[trigger] r.colptr@[c] == c,
        forall|k: int| 0 <= k < n ==> #[trigger] r.rowval@[k] == k,
        forall|k: int| 0 <= k < n ==> #[trigger] r.nzval@[k] == f_one(),
        canonical(r),
        forall|i: int, c: int| 0 <= c < n ==> #[trigger] dense(r, i, c) == (if i == c { Some(f_one()) } else { None }),
//@post
        proof {
            reveal(adj_mono);
            assert forall|c: int, k: int| #[trigger] in_col(r_v, k, c) && k + 1 < r_v.colptr@[c + 1] implies r_v.rowval@[k] < r_v.rowval@[k + 1] by { }
            assert forall|i: int, c: int| 0 <= c < n implies #[trigger] dense(r_v, i, c) == (if i == c { Some(f_one()) } else { None }) by {
                assert(r_v.colptr@[c] == c && r_v.colptr@[c + 1] == c + 1);
                let h = row_hits(r_v.rowval@, i);
                assert(gfold(h, r_v.nzval@, c, c) is None);
                assert(gfold(h, r_v.nzval@, c, c + 1) == fold_step(gfold(h, r_v.nzval@, c, c), h[c], r_v.nzval@[c]));
                assert(h[c] == (r_v.rowval@[c] == i));
            }
        }
//@end
}
// names the pair (column, slot) — a trigger for clauses whose index terms contain arithmetic
pub open spec fn cd(c: int, d: int) -> bool { true }
// sanity of the two ASSUMED statements: each is satisfiable on an input that needs a real rearrangement and has a duplicate
pub proof fn witness_sorted_input(a: F, b: F, c: F)
    ensures sorted_input(seq![2usize, 1, 2], seq![1usize, 0, 1], seq![a, b, c], seq![1int, 0, 2], seq![1int, 0, 2], seq![1usize, 2, 2], seq![b, a, c]),
{
    reveal(stable_sorted);
    lemma_perm_intro(seq![1int, 0, 2], seq![1int, 0, 2], 3);
}
pub proof fn witness_pairs_sorted(x: F, y: F, z: F)
    ensures pairs_stably_sorted(seq![(3usize, x), (1usize, y), (3usize, z)], seq![(1usize, y), (3usize, x), (3usize, z)], seq![1int, 0, 2], seq![1int, 0, 2]),
{
    reveal(keys_stable);
    lemma_perm_intro(seq![1int, 0, 2], seq![1int, 0, 2], 3);
}

// ---- construction from rows ----
// the cell of a dense row-major array: zeros are not stored
pub open spec fn row_cell(rows: Seq<Vec<F>>, r: int, c: int) -> Option<F> { if f_eq(rows[r]@[c], f_zero()) { None } else { Some(rows[r]@[c]) } }
pub proof fn lemma_gfold_ext(h1: Seq<bool>, v1: Seq<F>, h2: Seq<bool>, v2: Seq<F>, lo: int, hi: int)
    requires forall|k: int| lo <= k < hi ==> #[trigger] h1[k] == h2[k] && v1[k] == v2[k],
    ensures gfold(h1, v1, lo, hi) == gfold(h2, v2, lo, hi),
    decreases hi - lo,
{ if hi > lo { lemma_gfold_ext(h1, v1, h2, v2, lo, hi - 1); assert(h1[hi - 1] == h2[hi - 1]); } }
// the fold over a segment does not see what is appended behind it
pub proof fn lemma_colfold_push(rv: Seq<usize>, nz: Seq<F>, x: usize, v: F, r: int, lo: int, hi: int)
    requires 0 <= lo, hi <= rv.len(), rv.len() == nz.len(),
    ensures colfold(rv.push(x), nz.push(v), r, lo, hi) == colfold(rv, nz, r, lo, hi),
{
    let h1 = row_hits(rv.push(x), r); let h2 = row_hits(rv, r);
    assert forall|k: int| lo <= k < hi implies #[trigger] h1[k] == h2[k] && nz.push(v)[k] == nz[k] by { assert(rv.push(x)[k] == rv[k]); }
    lemma_gfold_ext(h1, nz.push(v), h2, nz, lo, hi);
}
// state of the fill loops of From<rows>: columns before c are complete; of column c the rows before r are done
pub open spec fn rows_filled(rows: Seq<Vec<F>>, m: int, cp: Seq<usize>, rv: Seq<usize>, nz: Seq<F>, c: int) -> bool {
    &&& cp.len() == c + 1 && cp[0] == 0 && rv.len() == nz.len() && cp[c] <= rv.len()
    &&& forall|i: int| #[trigger] cd(0, i) && 0 <= i < c ==> cp[i] <= cp[i + 1]
    &&& forall|x: int, r: int| #[trigger] cd(x, r) && 0 <= x < c && 0 <= r < m ==> colfold(rv, nz, r, cp[x] as int, cp[x + 1] as int) == row_cell(rows, r, x)
    &&& forall|x: int, k: int| #[trigger] cd(x, k) && 0 <= x < c && cp[x] <= k && k + 1 < cp[x + 1] ==> rv[k] < rv[k + 1]
    &&& forall|k: int| 0 <= k < rv.len() ==> #[trigger] rv[k] < m
}
pub open spec fn col_partial(rows: Seq<Vec<F>>, rv: Seq<usize>, nz: Seq<F>, c: int, s0: int, r: int) -> bool {
    &&& forall|k: int| s0 <= k < rv.len() ==> #[trigger] rv[k] < r
    &&& forall|x: int| #[trigger] cd(c, x) && 0 <= x < r ==> colfold(rv, nz, x, s0, rv.len() as int) == row_cell(rows, x, c)
    &&& forall|k: int| #[trigger] cd(c, k) && s0 <= k && k + 1 < rv.len() ==> rv[k] < rv[k + 1]
}
pub proof fn lemma_rows_mono(cp: Seq<usize>, c: int, a: int, b: int)
    requires forall|i: int| #[trigger] cd(0, i) && 0 <= i < c ==> cp[i] <= cp[i + 1], 0 <= a <= b <= c,
    ensures cp[a] <= cp[b],
    decreases b - a,
{ if a < b { lemma_rows_mono(cp, c, a, b - 1); assert(cd(0, b - 1)); } }
// one row of column c handled (value pushed or, being zero, skipped)
pub proof fn lemma_rows_step(rows: Seq<Vec<F>>, m: int, cp: Seq<usize>, rv: Seq<usize>, nz: Seq<F>, c: int, r: int, rv2: Seq<usize>, nz2: Seq<F>)
    requires
        rows_filled(rows, m, cp, rv, nz, c), col_partial(rows, rv, nz, c, cp[c] as int, r), 0 <= r < m <= usize::MAX,
        (row_cell(rows, r, c) is None && rv2 == rv && nz2 == nz) || (row_cell(rows, r, c) == Some(rows[r]@[c]) && rv2 == rv.push(r as usize) && nz2 == nz.push(rows[r]@[c])),
    ensures rows_filled(rows, m, cp, rv2, nz2, c), col_partial(rows, rv2, nz2, c, cp[c] as int, r + 1),
{
    let s0 = cp[c] as int; let len = rv.len() as int;
    assert forall|k: int| s0 <= k < len implies !#[trigger] row_hits(rv, r)[k] by { assert(rv[k] < r); }
    lemma_gfold_none(row_hits(rv, r), nz, s0, len);
    if row_cell(rows, r, c) is None {
        assert(cd(c, r));
    } else {
        let v = rows[r]@[c];
        assert forall|x: int, q: int| #[trigger] cd(x, q) && 0 <= x < c && 0 <= q < m implies colfold(rv2, nz2, q, cp[x] as int, cp[x + 1] as int) == row_cell(rows, q, x) by {
            lemma_rows_mono(cp, c, x + 1, c); lemma_rows_mono(cp, c, 0, x);
            lemma_colfold_push(rv, nz, r as usize, v, q, cp[x] as int, cp[x + 1] as int);
        }
        assert forall|x: int, k: int| #[trigger] cd(x, k) && 0 <= x < c && cp[x] <= k && k + 1 < cp[x + 1] implies rv2[k] < rv2[k + 1] by {
            lemma_rows_mono(cp, c, x + 1, c); assert(rv[k] < rv[k + 1]);
        }
        assert forall|x: int| #[trigger] cd(c, x) && 0 <= x < r + 1 implies colfold(rv2, nz2, x, s0, rv2.len() as int) == row_cell(rows, x, c) by {
            lemma_colfold_push(rv, nz, r as usize, v, x, s0, len);
            let h = row_hits(rv2, x);
            assert(colfold(rv2, nz2, x, s0, len + 1) == fold_step(colfold(rv2, nz2, x, s0, len), h[len], nz2[len]));
            assert(h[len] == (rv2[len] == x));
            if x < r { assert(cd(c, x)); }
        }
        assert forall|k: int| #[trigger] cd(c, k) && s0 <= k && k + 1 < rv2.len() implies rv2[k] < rv2[k + 1] by {
            if k + 1 < len { assert(rv[k] < rv[k + 1]); } else { assert(rv[k] < r); }
        }
    }
}

// ---- src/algebra/utils.rs ----
#[verifier::opaque]
pub open spec fn injective(p: Seq<usize>) -> bool { forall|i: int, j: int| 0 <= i < j < p.len() ==> #[trigger] p[i] != #[trigger] p[j] }
pub proof fn lemma_injective(p: Seq<usize>, i: int, j: int)
    requires injective(p), 0 <= i < p.len(), 0 <= j < p.len(), i != j,
    ensures p[i] != p[j],
{ reveal(injective); }
//@fn file=src/algebra/utils.rs name=invperm rules=R3 ret=r
//@contract
    requires forall|i: int| 0 <= i < p@.len() ==> #[trigger] p@[i] < p@.len(), injective(p@),
    ensures
        // for a permutation p (entries in range, no repeats) neither assert fires and the result is its inverse
        r@.len() == p@.len(), forall|i: int| 0 <= i < p@.len() ==> #[trigger] r@[p@[i] as int] == i,
//@iter 1
it
//@loop 1
        invariant
            i_ctr == it.index@, it.seq().len() == p@.len(), (forall|k: int| 0 <= k < it.seq().len() ==> *(#[trigger] it.seq()[k]) == p@[k]),
            b@.len() == p@.len(), p@.len() == p.len(), forall|k: int| 0 <= k < p@.len() ==> #[trigger] p@[k] < p@.len(), injective(p@),
            forall|k: int| 0 <= k < i_ctr ==> #[trigger] b@[p@[k] as int] == k,
            forall|v: int| 0 <= v < b@.len() && #[trigger] b@[v] != 0 ==> b@[v] < i_ctr && p@[b@[v] as int] == v,
//@body_start 1
            let ghost gi = it.index@ as int;
            let ghost b1 = b@;
            proof {
                assert(*$var1 == p@[gi]);
                if b1[*$var1 as int] != 0 { lemma_injective(p@, b1[*$var1 as int] as int, gi); }
            }
//@body_end 1
            proof {
                assert forall|k: int| 0 <= k < gi + 1 implies #[trigger] b@[p@[k] as int] == k by {
                    if k < gi { lemma_injective(p@, k, gi); assert(b1[p@[k] as int] == k); }
                }
            }
//@end

pub open spec fn range_from(sq: Seq<usize>, lo: int) -> bool { forall|k: int| 0 <= k < sq.len() ==> #[trigger] sq[k] == lo + k }
} // verus!
fn main() {}
