// unit `kkt_new` : construction and scaling update of the direct LDL KKT solver (C11 / C12 / C08) -- `DirectLDLKKTSolver::new` and
// `KKTSolver::update for DirectLDLKKTSolver`, extracted from src/solver/core/kktsolvers/direct/quasidef/directldlkktsolver.rs; with them
// `regularize_and_refactor`, `_update_values`, `_scale_values`, `_compute_regularizer` (second extraction, contracts of unit kkt_reg),
// `_update_values_KKT`, `_scale_values_KKT` (units/inc/kkt_values.rs), the pdim / nnz_vec / Dsigns methods of the sparse-expansion maps,
// `SupportedCone::to_sparse_expansion`, `CompositeCone::iter` and the small cone accessors (same text and contracts as in unit kkt_assemble).
// Unbounded (Verus); float model F-opaque (no algebraic statement is made).
//
// PROVED (real text, extracted)
//  DirectLDLKKTSolver::new   for m = A.m, n = P.n (what DefaultKKTSystem::new passes): no overflow in n + m + p; r.m / r.n / r.p = m / n / pdim of the sparse maps;
//                 x, b, work1, work2 have length n + m + p and are zero; dsigns has length n + m + p and carries the _fill_signs pattern (+1 on 0..n, -1 on
//                 n..n+m, the D signs of each sparse expansion at its offset); Hsblocks has the length of map.Hsblocks (one slot per Hs entry);
//                 diagonal_regularizer = 0; (KKT, map) IS the pair assemble_kkt_matrix returned for (P, A, cones, the shape the configured engine
//                 requires); the engine was constructed by the configured constructor ON THAT KKT with THOSE dsigns and the settings, perm = None
//                 (eng_built_on), and starts with a copy of the KKT values.  No refactorisation happens in `new` (the first `update` does it).
//  update         from kkt_upd_pre (lengths, recorded slots inside the matrix, the i-th sparse-expandable cone owns the i-th sparse map):
//                 * Hsblocks := -(what get_Hs produced)   (hs = the NAMED result of cones.get_Hs; final Hsblocks[i] = f_neg(hs[i]));
//                 * KKT: every slot map.Hsblocks[k] (last writer, not a sparse-expansion slot) holds Hsblocks[k]; a slot that is neither in
//                   map.Hsblocks nor a recorded slot of a sparse-expansion map has its old value -- also AFTER the refactor step (KKT carries no
//                   regularisation, text of kkt_reg); pattern, map, dsigns, x, b, m, n, p untouched;
//                 * engine copy: the same two statements off the diagonal slots; on the diagonal slots, with static regularisation on, the
//                   value KKT diag +/- eps by the recorded sign (text of kkt_reg);
//                 * the sparse-cone loop: every sparse-expandable cone gets the next map (the `unwrap()`s cannot fail), in order; what a cone writes
//                   is only NAMED (sx_update_rel) and framed (only its own recorded slots, in KKT and in the engine copy);
//                 * the result is the flag of the engine's refactor on the updated, regularised values (r == ldlsolver.flag).
//  regularize_and_refactor / _update_values / _scale_values / _compute_regularizer: as in unit kkt_reg (same contracts, same annotations), plus
//                 "r is the engine's verdict" and the frame of the struct, which the contract there leaves open.
//
// ASSUMED -- callee contracts PROVED IN ANOTHER UNIT (external_body stand-ins, text copied):
//  _fill_signs (unit kkt_assemble), allocate_kkt_Hsblocks (unit kkt_assemble), VectorMath::negate / norm_inf / copy_from (prelude/vecmath_assumed.rs,
//  proved in unit vecmath), CompositeCone::get_Hs: length kept (unit composite); what it writes is only NAMED (hs_rel), and its precondition
//  `Hsblock.len() == boffs(cones)` is restated as hs_total(cones) = end of the last block range (= what allocate_kkt_Hsblocks allocates; the two agree
//  for the rng_blocks that make_rng_blocks builds: unit composite, not re-proved here).
// ASSUMED -- not proved anywhere:
//  assemble_kkt_matrix as a whole (its pieces are under contract in units csc_utils / kkt_assemble): K is square of order P.n + A.m + pdim, |map.Hsblocks| =
//    hs_total(cones), |map.diag_full| = K.n, |K.nzval| = |K.rowval|, the pdim sum fits usize, every recorded slot inside K and one sparse map per
//    sparse-expandable cone, of its kind (asm_map_ok); WHAT it assembles is only NAMED (kkt_assembled).
//  get_ldlsolver_config: returns (shape, constructor) for the configured method (function-pointer table, closures coerced to fn pointers: not
//    expressible in Verus).  LDLConstructor::call (rule fnptr: `ldl_ctor(..)` -> `ldl_ctor.call(..)`): the common contract of the constructors the
//    table can hold -- for QDLDL it is the contract QDLDLDirectLDLSolver::new is PROVED against in unit kkt_solve (requires a square matrix; the
//    engine starts with copy == KKT.nzval); eng_built_on is an uninterpreted record of the arguments.
//  BoxedDirectLDLSolver (trait object) as in unit kkt_reg: update_values / scale_values act on the ghost copy (discharged for QDLDL in units
//    qdldl_kernels / kkt_solve); refactor leaves the copy alone; ghost `flag` NAMES its verdict.
//  SparseExpansionCone::csc_update_sparsecone (enum_dispatch + function-pointer parameters updateFcn / scaleFcn): pattern and lengths kept, only the
//    recorded slots of the given map change (in KKT and in the engine copy); the values are NAMED (sx_update_rel).  The stand-in is generic in the two
//    function arguments: that `_update_values` / `_scale_values` are the functions passed is visible in the extracted text, not in a postcondition.
//  SupportedCone stand-in (enum_dispatch enum), OtherCone::is_sparse_expandable() == false: as in unit kkt_assemble.
// DROPPED: nothing of the two bodies.  NOT under contract here: linear_solver_info; get_ldlsolver_config's body.
// New rewrite rule (tools/extract.py, additive): fnptr:NAME (`NAME(args)` -> `NAME.call(args)` for a local holding a function pointer).
// History variable: the engine stand-in carries a ghost `log` of the (cone, map) pairs handed to csc_update_sparsecone; `update` is proved to append
//  exactly sx_events(cones, maps): every sparse-expandable cone once, in order, each with the next map.
// `new` also establishes kkt_upd_pre (the precondition of `update`), from the dimension / map facts ASSUMED for assemble_kkt_matrix (asm_map_ok).
// MEASURED (verus --rlimit 50 = 150 M units): 68 obligations, 11 s; heaviest of the new text: regularize_and_refactor 1.2 M (0.8 %), update 0.5 M, new 0.13 M
//  (the shared fragments _update_values_KKT 5.9 M and rscale 2.5 M are those of kkt_reg); seeds 1..5 stable.
// MUTATION ROUND (scratch copy, one wrong edit at a time, 26 edits): all 26 fail a named obligation -- update: negate dropped, get_Hs dropped,
//  map.diag_full / map.P instead of map.Hsblocks, the engine not told (_update_values_KKT only), flag replaced by `true`, regularize_and_refactor dropped,
//  sparse loop dropped / its call dropped / `break` after the first cone / first map skipped / test inverted; new: dsigns of length n+m, work1 n+m, x n+p,
//  p = 0, _fill_signs(n, m) / dropped / called after the engine was built, regulariser 1, constructor called with Some(perm) / on P, Hsblocks one too
//  long; regularize_and_refactor: returns true, sign test inverted, regulariser not recorded.  No survivor.
use vstd::prelude::*;
use core::ops::Range;
use vstd::std_specs::iter::IteratorSpec;
verus! {
//@include prelude/float_opaque.rs
//@include prelude/vecmath_assumed.rs
//@include prelude/std_assumed.rs
//@include units/inc/csc_scalings.rs
//@include units/inc/kkt_values.rs
//@enum file=src/algebra/matrix_types.rs name=MatrixTriangle rules=R12 derive="PartialEq, Eq, Clone, Copy, Structural"
//@struct file=src/solver/implementations/default/settings.rs name=DefaultSettings rules=R1f
//@type file=src/solver/core/settings.rs name=CoreSettings

// =====================================================================================================================
// sparse-expansion maps and cones: same text, stand-ins and contracts as in unit kkt_assemble
// =====================================================================================================================
// ---- the sparse-expansion maps and their (enum_dispatch) trait ----
//@struct file=src/solver/core/kktsolvers/direct/quasidef/datamaps.rs name=SOCExpansionMap
//@struct file=src/solver/core/kktsolvers/direct/quasidef/datamaps.rs name=GenPowExpansionMap
//@enum file=src/solver/core/kktsolvers/direct/quasidef/datamaps.rs name=SparseExpansionMap rules=R12
//@struct file=src/solver/core/kktsolvers/direct/quasidef/datamaps.rs name=LDLDataMap
//@trait file=src/solver/core/kktsolvers/direct/quasidef/datamaps.rs name=SparseExpansionMapTrait header="pub trait SparseExpansionMapTrait"
//@extra
    // abstract reading: number of auxiliary variables, number of off-diagonal entries, expected signs of D; `pdim_ok` / `nnz_ok`:
    // the sums computed do not overflow; `has_dsigns`: Dsigns() is defined (it is `unreachable!()` for the Vec)
    spec fn pdim_s(&self) -> int;
    spec fn nnz_vec_s(&self) -> int;
    spec fn dsigns_s(&self) -> Seq<i8>;
    spec fn pdim_ok(&self) -> bool;
    spec fn nnz_ok(&self) -> bool;
    spec fn has_dsigns(&self) -> bool;
//@sig pdim
ret=r
    requires self.pdim_ok(),
    ensures r == self.pdim_s(),
//@sig nnz_vec
ret=r
    requires self.nnz_ok(),
    ensures r == self.nnz_vec_s(),
//@sig Dsigns
ret=r
    requires self.has_dsigns(),
    ensures r@ == self.dsigns_s(),
//@end

impl SparseExpansionMapTrait for SOCExpansionMap {
    open spec fn pdim_s(&self) -> int { 2 }
    open spec fn nnz_vec_s(&self) -> int { 2 * (self.v@.len() as int) }
    open spec fn dsigns_s(&self) -> Seq<i8> { seq![-1i8, 1i8] }
    open spec fn pdim_ok(&self) -> bool { true }
    open spec fn nnz_ok(&self) -> bool { 2 * self.v@.len() <= usize::MAX }
    open spec fn has_dsigns(&self) -> bool { true }
//@fn file=src/solver/core/kktsolvers/direct/quasidef/datamaps.rs in="SparseExpansionMapTrait for SOCExpansionMap" name=pdim
//@end
//@fn file=src/solver/core/kktsolvers/direct/quasidef/datamaps.rs in="SparseExpansionMapTrait for SOCExpansionMap" name=nnz_vec
//@end
//@fn file=src/solver/core/kktsolvers/direct/quasidef/datamaps.rs in="SparseExpansionMapTrait for SOCExpansionMap" name=Dsigns
//@end
}

impl SparseExpansionMapTrait for GenPowExpansionMap {
    open spec fn pdim_s(&self) -> int { 3 }
    open spec fn nnz_vec_s(&self) -> int { (self.p@.len() + self.q@.len() + self.r@.len()) as int }
    open spec fn dsigns_s(&self) -> Seq<i8> { seq![-1i8, -1i8, 1i8] }
    open spec fn pdim_ok(&self) -> bool { true }
    open spec fn nnz_ok(&self) -> bool { self.p@.len() + self.q@.len() + self.r@.len() <= usize::MAX }
    open spec fn has_dsigns(&self) -> bool { true }
//@fn file=src/solver/core/kktsolvers/direct/quasidef/datamaps.rs in="SparseExpansionMapTrait for GenPowExpansionMap" name=pdim
//@end
//@fn file=src/solver/core/kktsolvers/direct/quasidef/datamaps.rs in="SparseExpansionMapTrait for GenPowExpansionMap" name=nnz_vec
//@end
//@fn file=src/solver/core/kktsolvers/direct/quasidef/datamaps.rs in="SparseExpansionMapTrait for GenPowExpansionMap" name=Dsigns
//@end
}
// HAND-WRITTEN STAND-IN for the code `#[enum_dispatch(SparseExpansionMapTrait)]` generates for the enum: every method
// matches on the variant and forwards to the payload.  The bodies are verified against the trait contract.
impl SparseExpansionMapTrait for SparseExpansionMap {
    open spec fn pdim_s(&self) -> int { match self { SparseExpansionMap::SOCExpansionMap(m) => m.pdim_s(), SparseExpansionMap::GenPowExpansionMap(m) => m.pdim_s() } }
    open spec fn nnz_vec_s(&self) -> int { match self { SparseExpansionMap::SOCExpansionMap(m) => m.nnz_vec_s(), SparseExpansionMap::GenPowExpansionMap(m) => m.nnz_vec_s() } }
    open spec fn dsigns_s(&self) -> Seq<i8> { match self { SparseExpansionMap::SOCExpansionMap(m) => m.dsigns_s(), SparseExpansionMap::GenPowExpansionMap(m) => m.dsigns_s() } }
    open spec fn pdim_ok(&self) -> bool { true }
    open spec fn nnz_ok(&self) -> bool { match self { SparseExpansionMap::SOCExpansionMap(m) => m.nnz_ok(), SparseExpansionMap::GenPowExpansionMap(m) => m.nnz_ok() } }
    open spec fn has_dsigns(&self) -> bool { true }
    fn pdim(&self) -> usize { match self { SparseExpansionMap::SOCExpansionMap(inner) => inner.pdim(), SparseExpansionMap::GenPowExpansionMap(inner) => inner.pdim() } }
    fn nnz_vec(&self) -> usize { match self { SparseExpansionMap::SOCExpansionMap(inner) => inner.nnz_vec(), SparseExpansionMap::GenPowExpansionMap(inner) => inner.nnz_vec() } }
    fn Dsigns(&self) -> &[i8] { match self { SparseExpansionMap::SOCExpansionMap(inner) => inner.Dsigns(), SparseExpansionMap::GenPowExpansionMap(inner) => inner.Dsigns() } }
}
// the ghost sequence of a slice iterator holds references to the elements of the slice
pub open spec fn refs_of<T>(r: Seq<&T>, v: Seq<T>) -> bool { r.len() == v.len() && forall|q: int| 0 <= q < r.len() ==> *(#[trigger] r[q]) == v[q] }
// a slice iterator that has not been advanced yet (what `<[T]>::iter` returns, in the vocabulary of vstd's iterator model)
#[verifier::prophetic]
pub open spec fn fresh_iter<'a, T>(r: core::slice::Iter<'a, T>, v: Seq<T>) -> bool {
    refs_of(r.remaining(), v) && r.obeys_prophetic_iter_laws() && r.decrease() is Some
}
// the list of maps: the sums the real `impl SparseExpansionMapTrait for Vec<SparseExpansionMap>` folds, as left folds
pub open spec fn maps_pdim(s: Seq<SparseExpansionMap>, k: int) -> int decreases k { if k <= 0 { 0 } else { maps_pdim(s, k - 1) + s[k - 1].pdim_s() } }
pub open spec fn maps_nnz(s: Seq<SparseExpansionMap>, k: int) -> int decreases k { if k <= 0 { 0 } else { maps_nnz(s, k - 1) + s[k - 1].nnz_vec_s() } }
pub proof fn lemma_maps_mono(s: Seq<SparseExpansionMap>, a: int, b: int)
    requires 0 <= a <= b <= s.len(),
    ensures 0 <= maps_pdim(s, a) <= maps_pdim(s, b), 0 <= maps_nnz(s, a) <= maps_nnz(s, b), maps_pdim(s, b) <= 3 * b,
    decreases b,
{
    if a < b { lemma_maps_mono(s, a, b - 1); } else if b > 0 { lemma_maps_mono(s, a - 1, b - 1); }
}
impl SparseExpansionMapTrait for Vec<SparseExpansionMap> {
    open spec fn pdim_s(&self) -> int { maps_pdim(self@, self@.len() as int) }
    open spec fn nnz_vec_s(&self) -> int { maps_nnz(self@, self@.len() as int) }
    open spec fn dsigns_s(&self) -> Seq<i8> { Seq::empty() }
    open spec fn pdim_ok(&self) -> bool { maps_pdim(self@, self@.len() as int) <= usize::MAX }
    open spec fn nnz_ok(&self) -> bool {
        maps_nnz(self@, self@.len() as int) <= usize::MAX && forall|k: int| 0 <= k < self@.len() ==> (#[trigger] self@[k]).nnz_ok()
    }
    open spec fn has_dsigns(&self) -> bool { false }
//@fn file=src/solver/core/kktsolvers/direct/quasidef/datamaps.rs in="SparseExpansionMapTrait for Vec<SparseExpansionMap>" name=pdim rules=R24
//@iter 1
it
//@loop 1
            invariant refs_of(it.seq(), self@), self.pdim_ok(), pdim == maps_pdim(self@, it.index@ as int),
//@body_start 1
            proof { lemma_maps_mono(self@, it.index@ + 1, self@.len() as int); }
//@end
//@fn file=src/solver/core/kktsolvers/direct/quasidef/datamaps.rs in="SparseExpansionMapTrait for Vec<SparseExpansionMap>" name=nnz_vec rules=R24
//@iter 1
it
//@loop 1
            invariant refs_of(it.seq(), self@), self.nnz_ok(), nnz == maps_nnz(self@, it.index@ as int),
//@body_start 1
            proof { lemma_maps_mono(self@, it.index@ + 1, self@.len() as int); }
//@end
//@fn file=src/solver/core/kktsolvers/direct/quasidef/datamaps.rs in="SparseExpansionMapTrait for Vec<SparseExpansionMap>" name=Dsigns
//@end
}
// ---- cones: the two sparse-expandable cone types are the real structs; the rest of the enum_dispatch enum is a stand-in ----
//@struct file=src/solver/core/cones/socone.rs name=SecondOrderConeSparseData keep=d
//@struct file=src/solver/core/cones/socone.rs name=SecondOrderCone keep=dim,sparse_data
//@struct file=src/solver/core/cones/genpowcone.rs name=GenPowerCone keep=α,dim2 rules=R2
//@enum file=src/solver/core/kktsolvers/direct/quasidef/datamaps.rs name=SparseExpansionCone rules=R12
impl SecondOrderCone<F> {
//@fn file=src/solver/core/cones/socone.rs in="Cone<T> for SecondOrderCone<T>" name=numel rules=R1 ret=r
//@contract
    ensures r == self.dim
//@end
//@fn file=src/solver/core/cones/socone.rs in="Cone<T> for SecondOrderCone<T>" name=is_sparse_expandable rules=R1 ret=r
//@contract
    ensures r == (self.sparse_data is Some)
//@end
//@fn file=src/solver/core/cones/socone.rs in="Cone<T> for SecondOrderCone<T>" name=Hs_is_diagonal rules=R1 ret=r
//@contract
    ensures r == (self.sparse_data is Some)
//@end
}
impl GenPowerCone<F> {
//@fn file=src/solver/core/cones/genpowcone.rs in="impl<T> GenPowerCone<T>" name=dim1 rules=R1,R2 ret=r
//@contract
    ensures r == self.alpha@.len()
//@end
//@fn file=src/solver/core/cones/genpowcone.rs in="impl<T> GenPowerCone<T>" name=dim2 rules=R1,R2 ret=r
//@contract
    ensures r == self.dim2
//@end
//@fn file=src/solver/core/cones/genpowcone.rs in="impl<T> GenPowerCone<T>" name=dim rules=R1,R2 ret=r
//@contract
    requires self.alpha@.len() + self.dim2 <= usize::MAX,
    ensures r == self.alpha@.len() + self.dim2
//@end
//@fn file=src/solver/core/cones/genpowcone.rs in="Cone<T> for GenPowerCone<T>" name=numel rules=R1,R2 ret=r
//@contract
    requires self.alpha@.len() + self.dim2 <= usize::MAX,
    ensures r == self.alpha@.len() + self.dim2
//@end
//@fn file=src/solver/core/cones/genpowcone.rs in="Cone<T> for GenPowerCone<T>" name=is_sparse_expandable rules=R1,R2 ret=r
//@contract
    ensures r
//@end
//@fn file=src/solver/core/cones/genpowcone.rs in="Cone<T> for GenPowerCone<T>" name=Hs_is_diagonal rules=R1,R2 ret=r
//@contract
    ensures r
//@end
}
// HAND-WRITTEN STAND-IN for the four cone types without a sparse expansion (ZeroCone, NonnegativeCone, ExponentialCone,
// PowerCone; PSDTriangleCone is cfg'd off): only their size and whether their Hs block is diagonal matter to the assembly.
// ASSUMED (by inspection of the four `impl Cone<T>`): `is_sparse_expandable()` is `false` for each of them.
pub struct OtherCone { pub numel: usize, pub hs_diag: bool }
impl OtherCone {
    pub fn numel(&self) -> (r: usize) ensures r == self.numel { self.numel }
    pub fn is_sparse_expandable(&self) -> (r: bool) ensures !r { false }
    pub fn Hs_is_diagonal(&self) -> (r: bool) ensures r == self.hs_diag { self.hs_diag }
}
// HAND-WRITTEN STAND-IN for `#[enum_dispatch(Cone<T>)] pub enum SupportedCone<T>`: the real variants SecondOrderCone and
// GenPowerCone, the others collapsed into OtherCone; the three `Cone<T>` methods the assembly calls are the forwarding
// `match` enum_dispatch generates (bodies verified against the real per-variant methods above).
pub enum SupportedCone<T> { SecondOrderCone(SecondOrderCone<T>), GenPowerCone(GenPowerCone<T>), OtherCone(OtherCone) }
impl SupportedCone<F> {
    pub open spec fn wf(&self) -> bool { match self { SupportedCone::GenPowerCone(g) => g.alpha@.len() + g.dim2 <= usize::MAX, _ => true } }
    pub open spec fn numel_s(&self) -> int {
        match self { SupportedCone::SecondOrderCone(c) => c.dim as int, SupportedCone::GenPowerCone(g) => g.alpha@.len() + g.dim2, SupportedCone::OtherCone(o) => o.numel as int }
    }
    pub open spec fn hs_diag_s(&self) -> bool {
        match self { SupportedCone::SecondOrderCone(c) => c.sparse_data is Some, SupportedCone::GenPowerCone(g) => true, SupportedCone::OtherCone(o) => o.hs_diag }
    }
    pub open spec fn sparse_s(&self) -> bool {
        match self { SupportedCone::SecondOrderCone(c) => c.sparse_data is Some, SupportedCone::GenPowerCone(g) => true, SupportedCone::OtherCone(o) => false }
    }
    // auxiliary variables the cone's sparse expansion adds (0 if it has none)
    pub open spec fn pdim_s(&self) -> int {
        if !self.sparse_s() { 0 } else { match self { SupportedCone::SecondOrderCone(c) => 2, SupportedCone::GenPowerCone(g) => 3, SupportedCone::OtherCone(o) => 0 } }
    }
    pub fn numel(&self) -> (r: usize) requires self.wf(), ensures r == self.numel_s(),
    { match self { SupportedCone::SecondOrderCone(inner) => inner.numel(), SupportedCone::GenPowerCone(inner) => inner.numel(), SupportedCone::OtherCone(inner) => inner.numel() } }
    pub fn is_sparse_expandable(&self) -> (r: bool) ensures r == self.sparse_s(),
    { match self { SupportedCone::SecondOrderCone(inner) => inner.is_sparse_expandable(), SupportedCone::GenPowerCone(inner) => inner.is_sparse_expandable(), SupportedCone::OtherCone(inner) => inner.is_sparse_expandable() } }
    pub fn Hs_is_diagonal(&self) -> (r: bool) ensures r == self.hs_diag_s(),
    { match self { SupportedCone::SecondOrderCone(inner) => inner.Hs_is_diagonal(), SupportedCone::GenPowerCone(inner) => inner.Hs_is_diagonal(), SupportedCone::OtherCone(inner) => inner.Hs_is_diagonal() } }
//@fn file=src/solver/core/kktsolvers/direct/quasidef/datamaps.rs in="impl<T> SupportedCone<T>" name=to_sparse_expansion rules=R1 ret=r
//@contract
    ensures
        // exactly the second-order and generalized power cones have an expansion object (so `unwrap()` cannot fail on a sparse-expandable cone)
        match *self {
            SupportedCone::SecondOrderCone(c) => r matches Some(SparseExpansionCone::SecondOrderCone(x)) && *x == c,
            SupportedCone::GenPowerCone(g) => r matches Some(SparseExpansionCone::GenPowerCone(x)) && *x == g,
            SupportedCone::OtherCone(o) => r is None,
        },
//@end
}
//@struct file=src/solver/core/cones/compositecone.rs name=CompositeCone keep=cones,rng_cones,rng_blocks
impl CompositeCone<F> {
//@fn file=src/solver/core/cones/compositecone.rs in="impl<T> CompositeCone<T>" name=iter rules=R1 ret=r
//@contract
    ensures fresh_iter(r, self.cones@),
//@end
}


#[verifier::prophetic]
pub open spec fn refs_from<T>(r: Seq<&T>, v: Seq<T>, off: int) -> bool { r.len() == v.len() - off && forall|q: int| 0 <= q < r.len() ==> *(#[trigger] r[q]) == v[off + q] }
pub open spec fn sparse_before(cs: Seq<SupportedCone<F>>, k: int) -> int decreases k { if k <= 0 { 0 } else { sparse_before(cs, k - 1) + (if cs[k - 1].sparse_s() { 1int } else { 0int }) } }
pub proof fn lemma_sparse_before_mono(cs: Seq<SupportedCone<F>>, a: int, b: int)
    requires 0 <= a <= b,
    ensures 0 <= sparse_before(cs, a) <= sparse_before(cs, b), sparse_before(cs, b) <= b,
    decreases b,
{
    if a < b { lemma_sparse_before_mono(cs, a, b - 1); } else if b > 0 { lemma_sparse_before_mono(cs, a - 1, b - 1); }
}
// the i-th sparse-expandable cone owns the i-th sparse map, of its own kind (what LDLDataMap::new builds: PROVED in unit kkt_assemble; same text)
pub open spec fn map_matches(cone: SupportedCone<F>, map: SparseExpansionMap) -> bool {
    match cone {
        SupportedCone::SecondOrderCone(c) => map matches SparseExpansionMap::SOCExpansionMap(mm) && mm.u@.len() == c.dim && mm.v@.len() == c.dim,
        SupportedCone::GenPowerCone(g) => map matches SparseExpansionMap::GenPowExpansionMap(mm)
            && mm.p@.len() == g.alpha@.len() + g.dim2 && mm.q@.len() == g.alpha@.len() && mm.r@.len() == g.dim2,
        SupportedCone::OtherCone(o) => false,
    }
}
pub open spec fn maps_match(cs: Seq<SupportedCone<F>>, maps: Seq<SparseExpansionMap>) -> bool {
    &&& maps.len() == sparse_before(cs, cs.len() as int)
    &&& forall|i: int| 0 <= i < cs.len() && (#[trigger] cs[i]).sparse_s() ==> map_matches(cs[i], maps[sparse_before(cs, i)])
}

// =====================================================================================================================
// the LDL engine behind the KKT solver: stand-in and vocabulary of unit kkt_reg (same text), plus a ghost NAME for refactor's verdict
// =====================================================================================================================
// stand-in for Box<dyn DirectLDLSolver<T> + Send + Sync> (trait object): the engine keeps its own copy of the values.
// Ghost view `copy`: that copy, indexed like KKT.nzval; ghost `flag`: the verdict of the last refactor (a name for its return value);
// ghost `log`: history variable -- the (cone, map) pairs of the csc_update_sparsecone calls this engine was handed to, in order.
pub struct BoxedDirectLDLSolver<T> { pub _p: Option<T>, pub copy: Ghost<Seq<T>>, pub flag: Ghost<bool>, pub log: Ghost<Seq<(SupportedCone<T>, SparseExpansionMap)>> }
pub open spec fn upd_n(index: Seq<usize>, values: Seq<F>) -> int { if index.len() < values.len() { index.len() as int } else { values.len() as int } }
// `after` is `before` with values[k] written to slot index[k], k = 0..n, in order
pub open spec fn is_update(before: Seq<F>, after: Seq<F>, index: Seq<usize>, values: Seq<F>) -> bool {
    let n = upd_n(index, values);
    &&& after.len() == before.len()
    &&& forall|k: int| last_writer(index, n, k) ==> after[#[trigger] index[k] as int] == values[k]
    &&& forall|s: int| 0 <= s < before.len() && (forall|k: int| 0 <= k < n ==> index[k] != s) ==> #[trigger] after[s] == before[s]
}
pub open spec fn is_scaling(before: Seq<F>, after: Seq<F>, index: Seq<usize>, scale: F) -> bool {
    &&& after.len() == before.len()
    &&& forall|k: int| 0 <= k < index.len() ==> after[#[trigger] index[k] as int] == f_mul(before[index[k] as int], scale)
    &&& forall|s: int| 0 <= s < before.len() && (forall|k: int| 0 <= k < index.len() ==> index[k] != s) ==> #[trigger] after[s] == before[s]
}
pub open spec fn in_idx(index: Seq<usize>, s: int) -> bool { exists|k: int| 0 <= k < index.len() && index[k] == s }
impl BoxedDirectLDLSolver<F> {
    #[verifier::external_body] pub fn update_values(&mut self, index: &[usize], values: &[F])
        requires forall|k: int| 0 <= k < index@.len() ==> index@[k] < old(self).copy@.len(),
        ensures is_update(old(self).copy@, final(self).copy@, index@, values@), final(self).flag == old(self).flag, final(self).log == old(self).log,
    { unimplemented!() }
    #[verifier::external_body] pub fn scale_values(&mut self, index: &[usize], scale: F)
        requires forall|k: int| 0 <= k < index@.len() ==> index@[k] < old(self).copy@.len(),
            forall|a: int, b: int| 0 <= a < b < index@.len() ==> index@[a] != index@[b],
        ensures is_scaling(old(self).copy@, final(self).copy@, index@, scale), final(self).flag == old(self).flag, final(self).log == old(self).log,
    { unimplemented!() }
    #[verifier::external_body] pub fn refactor(&mut self, kkt: &CscMatrix<F>) -> (r: bool)
        ensures final(self).copy@ == old(self).copy@, r == final(self).flag@, final(self).log == old(self).log,
    { unimplemented!() }
}
// every slot that is written at all has a last writer
pub proof fn lemma_last_writer_exists(index: Seq<usize>, n: int, k: int)
    requires 0 <= k < n <= index.len(),
    ensures exists|k2: int| last_writer(index, n, k2) && index[k2] == index[k],
    decreases n - k,
{
    if forall|k2: int| k < k2 < n ==> index[k2] != index[k] {
        assert(last_writer(index, n, k));
    } else {
        let k3 = choose|k3: int| k < k3 < n && index[k3] == index[k];
        lemma_last_writer_exists(index, n, k3);
    }
}
pub open spec fn reg_shift(v: F, eps: F, sign: i8) -> F { if sign == 1 { f_add(v, eps) } else { f_sub(v, eps) } }

//@struct file=src/solver/core/kktsolvers/direct/quasidef/directldlkktsolver.rs name=DirectLDLKKTSolver

//@fn file=src/solver/core/kktsolvers/direct/quasidef/directldlkktsolver.rs name=_compute_regularizer rules=R1 ret=r
//@contract
    ensures r == f_add(settings.static_regularization_constant, f_mul(settings.static_regularization_proportional, vm_norm_inf(diag_kkt@))),
//@end
//@fn file=src/solver/core/kktsolvers/direct/quasidef/directldlkktsolver.rs name=_update_values rules=R1
//@contract
    requires forall|k: int| 0 <= k < index@.len() ==> index@[k] < old(KKT).nzval@.len(), old(ldlsolver).copy@.len() == old(KKT).nzval@.len(),
    ensures
        final(KKT).same_pattern(old(KKT)), final(ldlsolver).flag == old(ldlsolver).flag, final(ldlsolver).log == old(ldlsolver).log,
        // C08: the same update reaches the LDL engine's own copy
        is_update(old(ldlsolver).copy@, final(ldlsolver).copy@, index@, values@), is_update(old(KKT).nzval@, final(KKT).nzval@, index@, values@),
        ({ let n = if index@.len() < values@.len() { index@.len() as int } else { values@.len() as int };
           &&& forall|k: int| last_writer(index@, n, k) ==> final(KKT).nzval@[#[trigger] index@[k] as int] == values@[k]
           &&& forall|s: int| 0 <= s < old(KKT).nzval@.len() && (forall|k: int| 0 <= k < n ==> index@[k] != s) ==> #[trigger] final(KKT).nzval@[s] == old(KKT).nzval@[s] }),
//@end
//@fn file=src/solver/core/kktsolvers/direct/quasidef/directldlkktsolver.rs name=_scale_values rules=R1
//@contract
    requires forall|k: int| 0 <= k < index@.len() ==> index@[k] < old(KKT).nzval@.len(), old(ldlsolver).copy@.len() == old(KKT).nzval@.len(),
        forall|a: int, b: int| 0 <= a < b < index@.len() ==> index@[a] != index@[b],
    ensures
        final(KKT).same_pattern(old(KKT)),
        is_scaling(old(ldlsolver).copy@, final(ldlsolver).copy@, index@, scale), is_scaling(old(KKT).nzval@, final(KKT).nzval@, index@, scale),
        final(ldlsolver).log == old(ldlsolver).log,
//@end

// =====================================================================================================================
// stand-ins for what `new` and `update` call outside this file (see header: ASSUMED)
// =====================================================================================================================
// one slot per Hs entry: the block ranges are consecutive, so the total is where the last one ends (text of allocate_kkt_Hsblocks' contract)
pub open spec fn hs_total(cones: CompositeCone<F>) -> int {
    if cones.rng_blocks@.len() == 0 { 0 } else { cones.rng_blocks@[cones.rng_blocks@.len() - 1].end as int }
}
// ASSUMED here, PROVED in unit kkt_assemble
#[verifier::external_body]
pub fn allocate_kkt_Hsblocks<T, Z>(cones: &CompositeCone<T>) -> (r: Vec<Z>)
    ensures
        r@.len() == (if cones.rng_blocks@.len() == 0 { 0 } else { cones.rng_blocks@[cones.rng_blocks@.len() - 1].end as int }),
{ unimplemented!() }
// named trigger: sign slot j of sparse map k
pub open spec fn sgslot(k: int, j: int) -> bool { true }
// the text of _fill_signs' postcondition (unit kkt_assemble), as a predicate over the result
pub open spec fn signs_pattern(sg: Seq<i8>, m: usize, n: usize, map: LDLDataMap) -> bool {
    // +1 for the n primal variables, -1 for the m constraint rows
    &&& forall|i: int| 0 <= i < n ==> #[trigger] sg[i] == 1i8
    &&& forall|i: int| n <= i < n + m ==> #[trigger] sg[i] == -1i8
    // then the D signs of every sparse expansion, in the order of the maps, at the running offset
    &&& forall|k: int, j: int| 0 <= k < map.sparse_maps@.len() && 0 <= j < map.sparse_maps@[k].pdim_s() && #[trigger] sgslot(k, j)
            ==> sg[m + n + maps_pdim(map.sparse_maps@, k) + j] == map.sparse_maps@[k].dsigns_s()[j]
    // nothing else: what lies behind the last expansion keeps the +1 of the initial fill
    &&& forall|i: int| m + n + maps_pdim(map.sparse_maps@, map.sparse_maps@.len() as int) <= i < sg.len() ==> #[trigger] sg[i] == 1i8
}
// ASSUMED here, PROVED in unit kkt_assemble (its four `ensures` clauses are the four conjuncts of signs_pattern, verbatim)
#[verifier::external_body]
fn _fill_signs(signs: &mut [i8], m: usize, n: usize, map: &LDLDataMap)
    requires
        m + n <= usize::MAX,
        old(signs)@.len() >= m + n + maps_pdim(map.sparse_maps@, map.sparse_maps@.len() as int),
    ensures
        final(signs)@.len() == old(signs)@.len(),
        signs_pattern(final(signs)@, m, n, *map),
{ unimplemented!() }
pub open spec fn asm_map_ok(K: CscMatrix<F>, map: LDLDataMap, cones: CompositeCone<F>) -> bool {
    let nz = K.nzval@.len() as int;
    &&& idx_below(map.Hsblocks@, nz) && idx_below(map.diag_full@, nz)
    &&& maps_match(cones.cones@, map.sparse_maps@)
    &&& forall|i: int| 0 <= i < map.sparse_maps@.len() ==> slots_below(#[trigger] map.sparse_maps@[i], nz)
}
// ASSUMED, not proved anywhere as a whole: WHAT is assembled is only named; the dimension facts are what the slices proved in kkt_assemble give
pub uninterp spec fn kkt_assembled(P: CscMatrix<F>, A: CscMatrix<F>, cones: CompositeCone<F>, shape: MatrixTriangle, K: CscMatrix<F>, map: LDLDataMap) -> bool;
#[verifier::external_body]
pub fn assemble_kkt_matrix(P: &CscMatrix<F>, A: &CscMatrix<F>, cones: &CompositeCone<F>, shape: MatrixTriangle) -> (r: (CscMatrix<F>, LDLDataMap))
    ensures
        kkt_assembled(*P, *A, *cones, shape, r.0, r.1),
        r.0.m == r.0.n, r.0.n == P.n + A.m + maps_pdim(r.1.sparse_maps@, r.1.sparse_maps@.len() as int), r.0.nzval@.len() == r.0.rowval@.len(),
        r.1.Hsblocks@.len() == hs_total(*cones), r.1.diag_full@.len() == r.0.n,
        // every recorded slot lies inside K, and the i-th sparse-expandable cone owns the i-th sparse map (LDLDataMap::new and the fill passes:
        // PROVED piecewise in units kkt_assemble / csc_utils)
        asm_map_ok(r.0, r.1, *cones),
{ unimplemented!() }
// ASSUMED: the function-pointer table.  LDLConstructor stands for `fn(&CscMatrix<T>, &[i8], &CoreSettings<T>, Option<Vec<usize>>) -> BoxedDirectLDLSolver<T>`
pub struct LDLConstructor { pub id: u8 }
pub uninterp spec fn cfg_shape(settings: CoreSettings<F>) -> MatrixTriangle;
pub uninterp spec fn cfg_ctor(settings: CoreSettings<F>) -> LDLConstructor;
#[verifier::external_body]
fn get_ldlsolver_config(settings: &CoreSettings<F>) -> (r: (MatrixTriangle, LDLConstructor))
    ensures r.0 == cfg_shape(*settings), r.1 == cfg_ctor(*settings),
{ unimplemented!() }
// the engine was constructed by `ctor` on matrix K with signs ds, these settings and this ordering (uninterpreted record of the arguments)
pub uninterp spec fn eng_built_on(e: BoxedDirectLDLSolver<F>, ctor: LDLConstructor, K: CscMatrix<F>, ds: Seq<i8>, settings: CoreSettings<F>, perm: Option<Seq<usize>>) -> bool;
impl LDLConstructor {
    // rule fnptr: `ldl_ctor(..)` is emitted as `ldl_ctor.call(..)`.  Contract: that of QDLDLDirectLDLSolver::new (PROVED in unit kkt_solve), in the
    // vocabulary of the trait object's ghost view
    #[verifier::external_body]
    pub fn call(&self, KKT: &CscMatrix<F>, Dsigns: &[i8], settings: &CoreSettings<F>, perm: Option<Vec<usize>>) -> (r: BoxedDirectLDLSolver<F>)
        requires
            // documented panic otherwise ("KKT matrix is not square")
            KKT.m == KKT.n,
        ensures
            eng_built_on(r, *self, *KKT, Dsigns@, *settings, match perm { Some(p) => Some(p@), None => None }),
            // the engine starts with a copy of the KKT values
            r.copy@ == KKT.nzval@,
    { unimplemented!() }
}
impl CompositeCone<F> {
    // what get_Hs writes is only NAMED here (its block structure is PROVED in unit composite: each cone writes its own rng_blocks range)
    pub uninterp spec fn hs_rel(&self, h0: Seq<F>, h1: Seq<F>) -> bool;
    #[verifier::external_body]
    pub fn get_Hs(&self, Hsblock: &mut [F])
        requires old(Hsblock)@.len() == hs_total(*self),
        ensures final(Hsblock)@.len() == old(Hsblock)@.len(), self.hs_rel(old(Hsblock)@, final(Hsblock)@),
    { unimplemented!() }
}
// the recorded slots of one sparse-expansion map
pub open spec fn map_slots(m: SparseExpansionMap) -> Seq<usize> {
    match m {
        SparseExpansionMap::SOCExpansionMap(mm) => mm.u@ + mm.v@ + mm.D@,
        SparseExpansionMap::GenPowExpansionMap(mm) => mm.p@ + mm.q@ + mm.r@ + mm.D@,
    }
}
pub open spec fn map_slot(m: SparseExpansionMap, s: int) -> bool { in_idx(map_slots(m), s) }
pub open spec fn sparse_slot(maps: Seq<SparseExpansionMap>, s: int) -> bool { exists|i: int| 0 <= i < maps.len() && #[trigger] map_slot(maps[i], s) }
pub open spec fn slots_below(m: SparseExpansionMap, n: int) -> bool { forall|k: int| 0 <= k < map_slots(m).len() ==> #[trigger] map_slots(m)[k] < n }
// ASSUMED (enum_dispatch forwarding + function-pointer parameters): csc_update_sparsecone of the two sparse-expandable cone types writes, through
// updateFcn / scaleFcn, only the slots its map records -- in KKT and in the engine's copy; what it writes there is only NAMED
impl<'a> SparseExpansionCone<'a, F> {
    pub open spec fn kind_ok(&self, map: SparseExpansionMap) -> bool {
        match self {
            // (the real code unwraps sparse_data and panics on a map of the other kind: recover_map)
            SparseExpansionCone::SecondOrderCone(s) => s.sparse_data is Some && map is SOCExpansionMap,
            SparseExpansionCone::GenPowerCone(g) => map is GenPowExpansionMap,
        }
    }
    pub uninterp spec fn sx_update_rel(&self, map: SparseExpansionMap, nz0: Seq<F>, nz1: Seq<F>, c0: Seq<F>, c1: Seq<F>) -> bool;
    // the cone this expansion object borrows
    pub open spec fn cone(&self) -> SupportedCone<F> {
        match self { SparseExpansionCone::SecondOrderCone(s) => SupportedCone::SecondOrderCone(**s), SparseExpansionCone::GenPowerCone(g) => SupportedCone::GenPowerCone(**g) }
    }
    #[verifier::external_body]
    pub fn csc_update_sparsecone<U, S>(&self, map: &SparseExpansionMap, ldl: &mut BoxedDirectLDLSolver<F>, K: &mut CscMatrix<F>, updateFcn: U, scaleFcn: S)
        requires self.kind_ok(*map), slots_below(*map, old(K).nzval@.len() as int), old(ldl).copy@.len() == old(K).nzval@.len(),
        ensures
            final(K).same_pattern(old(K)), final(ldl).copy@.len() == old(ldl).copy@.len(),
            forall|s: int| 0 <= s < old(K).nzval@.len() && !map_slot(*map, s) ==> #[trigger] final(K).nzval@[s] == old(K).nzval@[s],
            forall|s: int| 0 <= s < old(K).nzval@.len() && !map_slot(*map, s) ==> #[trigger] final(ldl).copy@[s] == old(ldl).copy@[s],
            self.sx_update_rel(*map, old(K).nzval@, final(K).nzval@, old(ldl).copy@, final(ldl).copy@),
            // history variable: this call is recorded
            final(ldl).log@ == old(ldl).log@.push((self.cone(), *map)), final(ldl).flag == old(ldl).flag,
    { unimplemented!() }
}

// =====================================================================================================================
// the KKT solver object
// =====================================================================================================================
// the sparse-cone updates `update` has to perform: every sparse-expandable cone, in the order of the cone list, each with the next sparse map
pub open spec fn sx_events(cs: Seq<SupportedCone<F>>, maps: Seq<SparseExpansionMap>, k: int) -> Seq<(SupportedCone<F>, SparseExpansionMap)>
    decreases k
{
    if k <= 0 { Seq::empty() } else if cs[k - 1].sparse_s() { sx_events(cs, maps, k - 1).push((cs[k - 1], maps[sparse_before(cs, k - 1)])) } else { sx_events(cs, maps, k - 1) }
}
pub open spec fn idx_below(index: Seq<usize>, n: int) -> bool { forall|k: int| 0 <= k < index.len() ==> #[trigger] index[k] < n }
pub open spec fn all_zero(v: Seq<F>, n: int) -> bool { v.len() == n && forall|i: int| 0 <= i < n ==> #[trigger] v[i] == f_zero() }
pub open spec fn negated(hs: Seq<F>) -> Seq<F> { Seq::new(hs.len(), |i: int| f_neg(hs[i])) }
// what `update` needs of the object `new` built (lengths, recorded slots inside the matrix, one sparse map per sparse-expandable cone)
pub open spec fn kkt_upd_pre(s: DirectLDLKKTSolver<F>, cones: CompositeCone<F>) -> bool {
    let nz = s.KKT.nzval@.len() as int;
    &&& s.Hsblocks@.len() == hs_total(cones) && s.map.Hsblocks@.len() == s.Hsblocks@.len()
    &&& idx_below(s.map.Hsblocks@, nz) && idx_below(s.map.diag_full@, nz) && s.ldlsolver.copy@.len() == nz
    &&& s.work1@.len() == s.map.diag_full@.len() && s.work2@.len() == s.map.diag_full@.len()
    &&& maps_match(cones.cones@, s.map.sparse_maps@)
    &&& forall|i: int| 0 <= i < s.map.sparse_maps@.len() ==> slots_below(#[trigger] s.map.sparse_maps@[i], nz)
}

impl DirectLDLKKTSolver<F> {
//@fn file=src/solver/core/kktsolvers/direct/quasidef/directldlkktsolver.rs in="impl<T> DirectLDLKKTSolver<T>" name=new rules=R1,fnptr:ldl_ctor ret=r
//@contract
    requires
        // what DefaultKKTSystem::new passes: the dimensions of the data
        m == A.m, n == P.n,
    ensures
        r.m == m, r.n == n, r.p == maps_pdim(r.map.sparse_maps@, r.map.sparse_maps@.len() as int),
        // C11: every work vector has the dimension n + m + p of the KKT system, and starts at zero
        all_zero(r.x@, n + m + r.p), all_zero(r.b@, n + m + r.p), all_zero(r.work1@, n + m + r.p), all_zero(r.work2@, n + m + r.p),
        // C11: "a recorded sign pattern": one sign per pivot, +1 on the variables, -1 on the constraint rows, the D signs of each expansion
        r.dsigns@.len() == n + m + r.p, signs_pattern(r.dsigns@, m, n, r.map),
        // one slot per Hs entry, as recorded in the map
        r.Hsblocks@.len() == hs_total(*cones), r.map.Hsblocks@.len() == r.Hsblocks@.len(),
        r.diagonal_regularizer == f_zero(),
        // C11 / C12: KKT is the matrix assembled for the shape the configured engine requires, and the engine was constructed ON THAT matrix
        // with THOSE signs (and no ordering); it starts with a copy of the KKT values
        r.KKT.m == n + m + r.p, r.KKT.n == n + m + r.p,
        kkt_assembled(*P, *A, *cones, cfg_shape(*settings), r.KKT, r.map),
        eng_built_on(r.ldlsolver, cfg_ctor(*settings), r.KKT, r.dsigns@, *settings, None),
        r.ldlsolver.copy@ == r.KKT.nzval@,
        // the object is fit for `update`
        kkt_upd_pre(r, *cones),
//@after "let (KKT, map) = assemble_kkt_matrix(P, A, cones, kktshape);"
        proof { lemma_maps_mono(map.sparse_maps@, 0, map.sparse_maps@.len() as int); }
//@end

//@fn file=src/solver/core/kktsolvers/direct/quasidef/directldlkktsolver.rs in="impl<T> DirectLDLKKTSolver<T>" name=regularize_and_refactor rules=R1,R17,zipidx:1=mi;2=mi ret=r
//@contract
    requires
        // the recorded diagonal map points into the KKT matrix and the work vectors cover it
        forall|k: int| 0 <= k < old(self).map.diag_full@.len() ==> old(self).map.diag_full@[k] < old(self).KKT.nzval@.len(),
        old(self).work1@.len() == old(self).map.diag_full@.len(), old(self).work2@.len() == old(self).map.diag_full@.len(),
        old(self).ldlsolver.copy@.len() == old(self).KKT.nzval@.len(),
    ensures
        // the engine's copy is only ever touched on the diagonal slots (where it receives the regularised values)
        final(self).ldlsolver.copy@.len() == old(self).ldlsolver.copy@.len(),
        forall|s: int| 0 <= s < old(self).ldlsolver.copy@.len() && !in_idx(old(self).map.diag_full@, s) ==> #[trigger] final(self).ldlsolver.copy@[s] == old(self).ldlsolver.copy@[s],
        // C11: whatever the outcome of the factorisation, the KKT matrix kept for iterative refinement is exactly what it was:
        // the statically regularised diagonal lives only inside the LDL engine's copy
        final(self).KKT.same_pattern(&old(self).KKT), final(self).KKT.nzval@ == old(self).KKT.nzval@,
        final(self).map == old(self).map, final(self).dsigns@ == old(self).dsigns@,
        // C11 ("a recorded sign pattern that matches the pivot signs of the regularised matrix"): with static regularisation on, the
        // engine receives diag + eps where the recorded sign is +1 and diag - eps elsewhere, eps = the regulariser computed from the true diagonal
        settings.static_regularization_enable && old(self).dsigns@.len() == old(self).map.diag_full@.len() ==>
            forall|k: int| last_writer(old(self).map.diag_full@, old(self).map.diag_full@.len() as int, k) ==>
                final(self).ldlsolver.copy@[#[trigger] old(self).map.diag_full@[k] as int]
                    == reg_shift(old(self).KKT.nzval@[old(self).map.diag_full@[k] as int], final(self).diagonal_regularizer, old(self).dsigns@[k]),
        !settings.static_regularization_enable ==> final(self).ldlsolver.copy@ == old(self).ldlsolver.copy@,
        // (added to the contract of unit kkt_reg) the verdict returned is the verdict of the engine's refactor; nothing but KKT values, work vectors,
        // engine and regulariser is touched
        r == final(self).ldlsolver.flag@, final(self).ldlsolver.log == old(self).ldlsolver.log,
        *final(self) == (DirectLDLKKTSolver::<F> { KKT: final(self).KKT, work1: final(self).work1, work2: final(self).work2, ldlsolver: final(self).ldlsolver, diagonal_regularizer: final(self).diagonal_regularizer, ..*old(self) }),
        final(self).work1@.len() == old(self).work1@.len(), final(self).work2@.len() == old(self).work2@.len(),
//@pre
        let ghost nz0 = self.KKT.nzval@;
        let ghost idx = self.map.diag_full@;
        let ghost copy0 = self.ldlsolver.copy@;
//@loop 1
                invariant
                    r14_n1 == idx.len(), diag_kkt@.len() == idx.len(), map.diag_full@ == idx, KKT.nzval@ == nz0,
                    forall|k: int| 0 <= k < idx.len() ==> idx[k] < nz0.len(),
                    forall|k: int| 0 <= k < r14_i1 ==> #[trigger] diag_kkt@[k] == nz0[idx[k] as int],
//@loop 2
                invariant diag_shifted@.len() == idx.len(), diag_kkt@.len() == idx.len(), r14_n2 <= diag_shifted@.len(), r14_n2 <= dsigns@.len(),
                    KKT.nzval@ == nz0, map.diag_full@ == idx, dsigns@ == old(self).dsigns@,
                    (dsigns@.len() == idx.len() ==> r14_n2 == idx.len()),
                    forall|k: int| 0 <= k < idx.len() ==> #[trigger] diag_kkt@[k] == nz0[idx[k] as int],
                    forall|k: int| 0 <= k < r14_i2 ==> #[trigger] diag_shifted@[k] == reg_shift(nz0[idx[k] as int], eps, dsigns@[k]),
                    forall|k: int| r14_i2 <= k < idx.len() ==> #[trigger] diag_shifted@[k] == nz0[idx[k] as int],
//@after "_update_values_KKT(KKT, &map.diag_full, diag_kkt)"
            proof {
                assert forall|s: int| 0 <= s < nz0.len() implies KKT.nzval@[s] == nz0[s] by {
                    if exists|k: int| 0 <= k < idx.len() && idx[k] == s {
                        let k = choose|k: int| 0 <= k < idx.len() && idx[k] == s;
                        lemma_last_writer_exists(idx, idx.len() as int, k);
                        let k2 = choose|k2: int| last_writer(idx, idx.len() as int, k2) && idx[k2] == idx[k];
                        assert(KKT.nzval@[idx[k2] as int] == diag_kkt@[k2]);
                    }
                }
                assert(KKT.nzval@ =~= nz0);
            }
//@before "let is_success = self.ldlsolver.refactor(KKT)"
        proof {
            assert forall|s: int| 0 <= s < copy0.len() && !in_idx(idx, s) implies #[trigger] self.ldlsolver.copy@[s] == copy0[s] by {
                if settings.static_regularization_enable {
                    assert forall|k: int| 0 <= k < upd_n(idx, self.work2@) implies idx[k] != s by { assert(!(0 <= k < idx.len() && idx[k] == s)); }
                }
            }
            // the saved diagonal is the original one (or regularisation is off and nothing was touched)
            assert(settings.static_regularization_enable ==> forall|k: int| 0 <= k < idx.len() ==> #[trigger] diag_kkt@[k] == nz0[idx[k] as int]);
        }
//@end

//@fn file=src/solver/core/kktsolvers/direct/quasidef/directldlkktsolver.rs in="KKTSolver<T> for DirectLDLKKTSolver<T>" name=update rules=R1 ret=r
//@contract
    requires kkt_upd_pre(*old(self), *cones),
    ensures
        // only the Hs values, the KKT values, the engine, the two work vectors and the regulariser change; the object stays fit for the next update
        *final(self) == (DirectLDLKKTSolver::<F> { Hsblocks: final(self).Hsblocks, KKT: final(self).KKT, ldlsolver: final(self).ldlsolver,
            work1: final(self).work1, work2: final(self).work2, diagonal_regularizer: final(self).diagonal_regularizer, ..*old(self) }),
        final(self).KKT.same_pattern(&old(self).KKT), kkt_upd_pre(*final(self), *cones),
        // C11: the values handed on are the NEGATED Hs blocks the cones produced
        exists|hs: Seq<F>| #[trigger] cones.hs_rel(old(self).Hsblocks@, hs) && final(self).Hsblocks@ == negated(hs),
        // ... and they reach the KKT matrix through map.Hsblocks: every recorded Hs slot (that is not also a slot of a sparse expansion) holds its
        // value, and a slot that is neither an Hs slot nor a recorded slot of a sparse expansion is what it was -- also after the refactor step
        forall|k: int| last_writer(old(self).map.Hsblocks@, old(self).map.Hsblocks@.len() as int, k) && !sparse_slot(old(self).map.sparse_maps@, old(self).map.Hsblocks@[k] as int)
            ==> final(self).KKT.nzval@[#[trigger] old(self).map.Hsblocks@[k] as int] == final(self).Hsblocks@[k],
        forall|s: int| 0 <= s < old(self).KKT.nzval@.len() && !in_idx(old(self).map.Hsblocks@, s) && !sparse_slot(old(self).map.sparse_maps@, s)
            ==> #[trigger] final(self).KKT.nzval@[s] == old(self).KKT.nzval@[s],
        // the engine's copy: the same, off the diagonal slots
        forall|k: int| last_writer(old(self).map.Hsblocks@, old(self).map.Hsblocks@.len() as int, k) && !sparse_slot(old(self).map.sparse_maps@, old(self).map.Hsblocks@[k] as int)
            && !in_idx(old(self).map.diag_full@, old(self).map.Hsblocks@[k] as int)
            ==> final(self).ldlsolver.copy@[#[trigger] old(self).map.Hsblocks@[k] as int] == final(self).Hsblocks@[k],
        forall|s: int| 0 <= s < old(self).KKT.nzval@.len() && !in_idx(old(self).map.Hsblocks@, s) && !sparse_slot(old(self).map.sparse_maps@, s) && !in_idx(old(self).map.diag_full@, s)
            ==> #[trigger] final(self).ldlsolver.copy@[s] == old(self).ldlsolver.copy@[s],
        // on the diagonal slots, with static regularisation on: the (new) KKT diagonal shifted by eps in the direction of the recorded sign
        settings.static_regularization_enable && old(self).dsigns@.len() == old(self).map.diag_full@.len() ==>
            forall|k: int| last_writer(old(self).map.diag_full@, old(self).map.diag_full@.len() as int, k) ==>
                final(self).ldlsolver.copy@[#[trigger] old(self).map.diag_full@[k] as int]
                    == reg_shift(final(self).KKT.nzval@[old(self).map.diag_full@[k] as int], final(self).diagonal_regularizer, old(self).dsigns@[k]),
        // every sparse-expandable cone has been handed to csc_update_sparsecone exactly once, in order, each with the next sparse map
        final(self).ldlsolver.log@ == old(self).ldlsolver.log@ + sx_events(cones.cones@, old(self).map.sparse_maps@, cones.cones@.len() as int),
        // C12: the result is the verdict of the engine's refactorisation
        r == final(self).ldlsolver.flag@,
//@pre
        let ghost cs = cones.cones@;
        let ghost maps = self.map.sparse_maps@;
        let ghost nz = self.KKT.nzval@.len() as int;
        let ghost hidx = self.map.Hsblocks@;
        let ghost didx = self.map.diag_full@;
        // (ghost snapshots are declared here and assigned where they are taken: the //@post block sits outside the body's scope)
        let ghost mut hs: Seq<F> = self.Hsblocks@;
        let ghost mut vals: Seq<F> = self.Hsblocks@;
        let ghost mut K1 = self.KKT;
        let ghost mut C1: Seq<F> = self.ldlsolver.copy@;
        let ghost mut K2 = self.KKT;
        let ghost mut C2: Seq<F> = self.ldlsolver.copy@;
//@before "let (values, index) ="
        proof { hs = self.Hsblocks@; }
//@before "let mut sparse_map_iter ="
        proof {
            K1 = self.KKT; C1 = self.ldlsolver.copy@; vals = self.Hsblocks@; K2 = K1; C2 = C1;
            assert(vals =~= negated(hs));
            lemma_sparse_before_mono(cs, 0, cs.len() as int);
            assert(cones.cones@.len() == cones.cones.len());
        }
//@iter 1
it
//@loop 1
        invariant
            refs_of(it.seq(), cs), cs == cones.cones@, maps == map.sparse_maps@, maps_match(cs, maps), cs.len() <= usize::MAX,
            forall|i: int| 0 <= i < maps.len() ==> slots_below(#[trigger] maps[i], nz),
            sparse_map_iter.obeys_prophetic_iter_laws(), refs_from(sparse_map_iter.remaining(), maps, sparse_before(cs, it.index@ as int)),
            KKT.same_pattern(&K1), KKT.nzval@.len() == nz, ldl.copy@.len() == nz, C1.len() == nz, K1.nzval@.len() == nz,
            forall|s: int| 0 <= s < nz && !sparse_slot(maps, s) ==> #[trigger] KKT.nzval@[s] == K1.nzval@[s],
            forall|s: int| 0 <= s < nz && !sparse_slot(maps, s) ==> #[trigger] ldl.copy@[s] == C1[s],
            ldl.log@ == old(self).ldlsolver.log@ + sx_events(cs, maps, it.index@ as int),
            // (K2 / C2: the state the refactor step starts from, tracked here so that no annotation has to anchor on that statement)
            K2 == *KKT, C2 == ldl.copy@,
//@body_start 1
            let ghost gi = it.index@ as int;
            let ghost Ka = KKT.nzval@;
            let ghost Ca = ldl.copy@;
            let ghost La = ldl.log@;
            proof {
                assert(*cone == cs[gi]);
                lemma_sparse_before_mono(cs, gi + 1, cs.len() as int); lemma_sparse_before_mono(cs, 0, gi);
                assert(sparse_before(cs, gi + 1) == sparse_before(cs, gi) + (if cs[gi].sparse_s() { 1int } else { 0int }));
                if cs[gi].sparse_s() { assert(map_matches(cs[gi], maps[sparse_before(cs, gi)])); }
            }
//@body_end 1
            proof {
                K2 = *KKT; C2 = ldl.copy@;
                if cs[gi].sparse_s() {
                    let j = sparse_before(cs, gi);
                    assert forall|s: int| 0 <= s < nz && !sparse_slot(maps, s) implies #[trigger] KKT.nzval@[s] == K1.nzval@[s] by { assert(!map_slot(maps[j], s)); assert(Ka[s] == K1.nzval@[s]); }
                    assert forall|s: int| 0 <= s < nz && !sparse_slot(maps, s) implies #[trigger] ldl.copy@[s] == C1[s] by { assert(!map_slot(maps[j], s)); assert(Ca[s] == C1[s]); }
                    assert(ldl.log@ == La.push((cs[gi], maps[j])));
                    assert(ldl.log@ =~= old(self).ldlsolver.log@ + sx_events(cs, maps, gi + 1));
                }
            }
//@post
        proof {
            assert(cones.hs_rel(old(self).Hsblocks@, hs) && self.Hsblocks@ == negated(hs));
            assert forall|k: int| last_writer(hidx, hidx.len() as int, k) && !sparse_slot(maps, hidx[k] as int) implies self.KKT.nzval@[#[trigger] hidx[k] as int] == self.Hsblocks@[k] by {
                assert(K2.nzval@[hidx[k] as int] == K1.nzval@[hidx[k] as int]);
            }
            assert forall|s: int| 0 <= s < nz && !in_idx(hidx, s) && !sparse_slot(maps, s) implies #[trigger] self.KKT.nzval@[s] == old(self).KKT.nzval@[s] by {
                assert(K2.nzval@[s] == K1.nzval@[s]);
                assert forall|k: int| 0 <= k < upd_n(hidx, vals) implies hidx[k] != s by { assert(!(0 <= k < hidx.len() && hidx[k] == s)); }
            }
            assert forall|k: int| last_writer(hidx, hidx.len() as int, k) && !sparse_slot(maps, hidx[k] as int) && !in_idx(didx, hidx[k] as int)
                implies self.ldlsolver.copy@[#[trigger] hidx[k] as int] == self.Hsblocks@[k] by {
                assert(C2[hidx[k] as int] == C1[hidx[k] as int]);
            }
            assert forall|s: int| 0 <= s < nz && !in_idx(hidx, s) && !sparse_slot(maps, s) && !in_idx(didx, s) implies #[trigger] self.ldlsolver.copy@[s] == old(self).ldlsolver.copy@[s] by {
                assert(C2[s] == C1[s]);
                assert forall|k: int| 0 <= k < upd_n(hidx, vals) implies hidx[k] != s by { assert(!(0 <= k < hidx.len() && hidx[k] == s)); }
            }
        }
//@end
}

} // verus!
fn main() {}
