// unit `kkt_reg` : static regularisation around the LDL refactorisation (C11: "the copy used for iterative refinement
// carries no regularisation")
use vstd::prelude::*;
verus! {
//@include prelude/float_opaque.rs
//@include prelude/vecmath_assumed.rs
//@include prelude/std_assumed.rs
//@include units/inc/csc_scalings.rs
//@include units/inc/kkt_values.rs
//@struct file=src/solver/core/kktsolvers/direct/quasidef/datamaps.rs name=LDLDataMap keep=P,A,diagP,diag_full
//@struct file=src/solver/implementations/default/settings.rs name=DefaultSettings rules=R1f
//@type file=src/solver/core/settings.rs name=CoreSettings
// stand-in for Box<dyn DirectLDLSolver<T> + Send + Sync> (trait object): the engine keeps its own copy of the values.
// Ghost view `copy`: that copy, indexed like KKT.nzval.  The contracts of update_values / scale_values on the trait object
// are ASSUMED here; for the QDLDL engine they are discharged in unit qdldl_kernels (QDLDLFactorisation::update_values /
// scale_values write slot AtoPAPt[idx] of the permuted copy).  refactor is assumed to return and to leave the copy alone.
pub struct BoxedDirectLDLSolver<T> { pub _p: Option<T>, pub copy: Ghost<Seq<T>> }
pub open spec fn upd_n(index: Seq<usize>, values: Seq<F>) -> int { if index.len() < values.len() { index.len() as int } else { values.len() as int } }
// `after` is `before` with values[k] written to slot index[k], k = 0..n, in order
pub open spec fn is_update(before: Seq<F>, after: Seq<F>, index: Seq<usize>, values: Seq<F>) -> bool {
    let n = upd_n(index, values);
    &&& after.len() == before.len()
    &&& forall|k: int| last_writer(index, n, k) ==> after[#[trigger] index[k] as int] == values[k]
    &&& forall|s: int| 0 <= s < before.len() && (forall|k: int| 0 <= k < n ==> index[k] != s) ==> #[trigger] after[s] == before[s]
}
pub open spec fn is_scaling(before: Seq<F>, after: Seq<F>, index: Seq<usize>, scale: F) -> bool {
    &&& after.len() == before.len()
    &&& forall|k: int| 0 <= k < index.len() ==> after[#[trigger] index[k] as int] == f_mul(before[index[k] as int], scale)
    &&& forall|s: int| 0 <= s < before.len() && (forall|k: int| 0 <= k < index.len() ==> index[k] != s) ==> #[trigger] after[s] == before[s]
}
pub open spec fn in_idx(index: Seq<usize>, s: int) -> bool { exists|k: int| 0 <= k < index.len() && index[k] == s }
// C08 / C11 invariant between the two copies: they agree everywhere except (possibly) on the diagonal slots, where the
// engine's copy carries the static regularisation
pub open spec fn synced_off(copy: Seq<F>, nz: Seq<F>, diag: Seq<usize>) -> bool {
    copy.len() == nz.len() && forall|s: int| 0 <= s < nz.len() && !in_idx(diag, s) ==> #[trigger] copy[s] == nz[s]
}
impl BoxedDirectLDLSolver<F> {
    #[verifier::external_body] pub fn update_values(&mut self, index: &[usize], values: &[F])
        requires forall|k: int| 0 <= k < index@.len() ==> index@[k] < old(self).copy@.len(),
        ensures is_update(old(self).copy@, final(self).copy@, index@, values@),
    { unimplemented!() }
    #[verifier::external_body] pub fn scale_values(&mut self, index: &[usize], scale: F)
        requires forall|k: int| 0 <= k < index@.len() ==> index@[k] < old(self).copy@.len(),
            forall|a: int, b: int| 0 <= a < b < index@.len() ==> index@[a] != index@[b],
        ensures is_scaling(old(self).copy@, final(self).copy@, index@, scale),
    { unimplemented!() }
    #[verifier::external_body] pub fn refactor(&mut self, kkt: &CscMatrix<F>) -> bool
        ensures final(self).copy@ == old(self).copy@,
    { unimplemented!() }
}
// two sequences that agree on a slot still agree on it after the same update has been applied to both
pub proof fn lemma_same_update(c0: Seq<F>, c1: Seq<F>, z0: Seq<F>, z1: Seq<F>, index: Seq<usize>, values: Seq<F>, s: int)
    requires is_update(c0, c1, index, values), is_update(z0, z1, index, values), c0.len() == z0.len(), 0 <= s < z0.len(),
        forall|k: int| 0 <= k < index.len() ==> index[k] < z0.len(),
    ensures (c0[s] == z0[s] || in_idx(index.take(upd_n(index, values)), s)) ==> c1[s] == z1[s],
{
    let n = upd_n(index, values);
    if exists|k: int| 0 <= k < n && index[k] == s {
        let k = choose|k: int| 0 <= k < n && index[k] == s;
        lemma_last_writer_exists(index, n, k);
        let k2 = choose|k2: int| last_writer(index, n, k2) && index[k2] == index[k];
        assert(c1[index[k2] as int] == values[k2]);
        assert(z1[index[k2] as int] == values[k2]);
    } else {
        assert(!in_idx(index.take(n), s)) by {
            if in_idx(index.take(n), s) { let k = choose|k: int| 0 <= k < index.take(n).len() && index.take(n)[k] == s; assert(index[k] == s); }
        }
    }
}
//@struct file=src/solver/core/kktsolvers/direct/quasidef/directldlkktsolver.rs name=DirectLDLKKTSolver keep=m,n,p,work1,work2,map,dsigns,KKT,ldlsolver,diagonal_regularizer

//@fn file=src/solver/core/kktsolvers/direct/quasidef/directldlkktsolver.rs name=_compute_regularizer rules=R1 ret=r
//@contract
    ensures r == f_add(settings.static_regularization_constant, f_mul(settings.static_regularization_proportional, vm_norm_inf(diag_kkt@))),
//@end
//@fn file=src/solver/core/kktsolvers/direct/quasidef/directldlkktsolver.rs name=_update_values rules=R1
//@contract
    requires forall|k: int| 0 <= k < index@.len() ==> index@[k] < old(KKT).nzval@.len(), old(ldlsolver).copy@.len() == old(KKT).nzval@.len(),
    ensures
        final(KKT).same_pattern(old(KKT)),
        // C08: the same update reaches the LDL engine's own copy
        is_update(old(ldlsolver).copy@, final(ldlsolver).copy@, index@, values@), is_update(old(KKT).nzval@, final(KKT).nzval@, index@, values@),
        ({ let n = if index@.len() < values@.len() { index@.len() as int } else { values@.len() as int };
           &&& forall|k: int| last_writer(index@, n, k) ==> final(KKT).nzval@[#[trigger] index@[k] as int] == values@[k]
           &&& forall|s: int| 0 <= s < old(KKT).nzval@.len() && (forall|k: int| 0 <= k < n ==> index@[k] != s) ==> #[trigger] final(KKT).nzval@[s] == old(KKT).nzval@[s] }),
//@end

//@fn file=src/solver/core/kktsolvers/direct/quasidef/directldlkktsolver.rs name=_scale_values rules=R1
//@contract
    requires forall|k: int| 0 <= k < index@.len() ==> index@[k] < old(KKT).nzval@.len(), old(ldlsolver).copy@.len() == old(KKT).nzval@.len(),
        forall|a: int, b: int| 0 <= a < b < index@.len() ==> index@[a] != index@[b],
    ensures
        final(KKT).same_pattern(old(KKT)),
        is_scaling(old(ldlsolver).copy@, final(ldlsolver).copy@, index@, scale), is_scaling(old(KKT).nzval@, final(KKT).nzval@, index@, scale),
//@end

// every slot that is written at all has a last writer
pub proof fn lemma_last_writer_exists(index: Seq<usize>, n: int, k: int)
    requires 0 <= k < n <= index.len(),
    ensures exists|k2: int| last_writer(index, n, k2) && index[k2] == index[k],
    decreases n - k,
{
    if forall|k2: int| k < k2 < n ==> index[k2] != index[k] {
        assert(last_writer(index, n, k));
    } else {
        let k3 = choose|k3: int| k < k3 < n && index[k3] == index[k];
        lemma_last_writer_exists(index, n, k3);
    }
}

pub open spec fn reg_shift(v: F, eps: F, sign: i8) -> F { if sign == 1 { f_add(v, eps) } else { f_sub(v, eps) } }
impl DirectLDLKKTSolver<F> {
//@fn file=src/solver/core/kktsolvers/direct/quasidef/directldlkktsolver.rs in="KKTSolver<T> for DirectLDLKKTSolver<T>" name=update_P rules=R1
//@contract
    requires
        forall|k: int| 0 <= k < old(self).map.P@.len() ==> old(self).map.P@[k] < old(self).KKT.nzval@.len(),
        old(self).ldlsolver.copy@.len() == old(self).KKT.nzval@.len(),
    ensures
        final(self).map == old(self).map, final(self).KKT.same_pattern(&old(self).KKT),
        // C08 / C11: the new values of P reach their recorded KKT slots, in the KKT matrix and in the engine's copy alike
        is_update(old(self).KKT.nzval@, final(self).KKT.nzval@, old(self).map.P@, P.nzval@),
        is_update(old(self).ldlsolver.copy@, final(self).ldlsolver.copy@, old(self).map.P@, P.nzval@),
        synced_off(old(self).ldlsolver.copy@, old(self).KKT.nzval@, old(self).map.diag_full@)
            ==> synced_off(final(self).ldlsolver.copy@, final(self).KKT.nzval@, old(self).map.diag_full@),
//@post
        proof {
            if synced_off(old(self).ldlsolver.copy@, old(self).KKT.nzval@, old(self).map.diag_full@) {
                assert forall|s: int| 0 <= s < self.KKT.nzval@.len() && !in_idx(old(self).map.diag_full@, s) implies #[trigger] self.ldlsolver.copy@[s] == self.KKT.nzval@[s] by {
                    lemma_same_update(old(self).ldlsolver.copy@, self.ldlsolver.copy@, old(self).KKT.nzval@, self.KKT.nzval@, old(self).map.P@, P.nzval@, s);
                }
            }
        }
//@end
//@fn file=src/solver/core/kktsolvers/direct/quasidef/directldlkktsolver.rs in="KKTSolver<T> for DirectLDLKKTSolver<T>" name=update_A rules=R1
//@contract
    requires
        forall|k: int| 0 <= k < old(self).map.A@.len() ==> old(self).map.A@[k] < old(self).KKT.nzval@.len(),
        old(self).ldlsolver.copy@.len() == old(self).KKT.nzval@.len(),
    ensures
        final(self).map == old(self).map, final(self).KKT.same_pattern(&old(self).KKT),
        is_update(old(self).KKT.nzval@, final(self).KKT.nzval@, old(self).map.A@, A.nzval@),
        is_update(old(self).ldlsolver.copy@, final(self).ldlsolver.copy@, old(self).map.A@, A.nzval@),
        synced_off(old(self).ldlsolver.copy@, old(self).KKT.nzval@, old(self).map.diag_full@)
            ==> synced_off(final(self).ldlsolver.copy@, final(self).KKT.nzval@, old(self).map.diag_full@),
//@post
        proof {
            if synced_off(old(self).ldlsolver.copy@, old(self).KKT.nzval@, old(self).map.diag_full@) {
                assert forall|s: int| 0 <= s < self.KKT.nzval@.len() && !in_idx(old(self).map.diag_full@, s) implies #[trigger] self.ldlsolver.copy@[s] == self.KKT.nzval@[s] by {
                    lemma_same_update(old(self).ldlsolver.copy@, self.ldlsolver.copy@, old(self).KKT.nzval@, self.KKT.nzval@, old(self).map.A@, A.nzval@, s);
                }
            }
        }
//@end
//@fn file=src/solver/core/kktsolvers/direct/quasidef/directldlkktsolver.rs in="impl<T> DirectLDLKKTSolver<T>" name=regularize_and_refactor rules=R1,R17,zipidx:1=mi;2=mi ret=r
//@contract
    requires
        // the recorded diagonal map points into the KKT matrix and the work vectors cover it
        forall|k: int| 0 <= k < old(self).map.diag_full@.len() ==> old(self).map.diag_full@[k] < old(self).KKT.nzval@.len(),
        old(self).work1@.len() == old(self).map.diag_full@.len(), old(self).work2@.len() == old(self).map.diag_full@.len(),
        old(self).ldlsolver.copy@.len() == old(self).KKT.nzval@.len(),
    ensures
        // the engine's copy is only ever touched on the diagonal slots (where it receives the regularised values)
        final(self).ldlsolver.copy@.len() == old(self).ldlsolver.copy@.len(),
        forall|s: int| 0 <= s < old(self).ldlsolver.copy@.len() && !in_idx(old(self).map.diag_full@, s) ==> #[trigger] final(self).ldlsolver.copy@[s] == old(self).ldlsolver.copy@[s],
        // C11: whatever the outcome of the factorisation, the KKT matrix kept for iterative refinement is exactly what it was:
        // the statically regularised diagonal lives only inside the LDL engine's copy
        final(self).KKT.same_pattern(&old(self).KKT), final(self).KKT.nzval@ == old(self).KKT.nzval@,
        final(self).map == old(self).map, final(self).dsigns@ == old(self).dsigns@,
        // C11 ("a recorded sign pattern that matches the pivot signs of the regularised matrix"): with static regularisation on, the
        // engine receives diag + eps where the recorded sign is +1 and diag - eps elsewhere, eps = the regulariser computed from the true diagonal
        settings.static_regularization_enable && old(self).dsigns@.len() == old(self).map.diag_full@.len() ==>
            forall|k: int| last_writer(old(self).map.diag_full@, old(self).map.diag_full@.len() as int, k) ==>
                final(self).ldlsolver.copy@[#[trigger] old(self).map.diag_full@[k] as int]
                    == reg_shift(old(self).KKT.nzval@[old(self).map.diag_full@[k] as int], final(self).diagonal_regularizer, old(self).dsigns@[k]),
        !settings.static_regularization_enable ==> final(self).ldlsolver.copy@ == old(self).ldlsolver.copy@,
//@pre
        let ghost nz0 = self.KKT.nzval@;
        let ghost idx = self.map.diag_full@;
        let ghost copy0 = self.ldlsolver.copy@;
//@loop 1
                invariant
                    r14_n1 == idx.len(), diag_kkt@.len() == idx.len(), map.diag_full@ == idx, KKT.nzval@ == nz0,
                    forall|k: int| 0 <= k < idx.len() ==> idx[k] < nz0.len(),
                    forall|k: int| 0 <= k < r14_i1 ==> #[trigger] diag_kkt@[k] == nz0[idx[k] as int],
//@loop 2
                invariant diag_shifted@.len() == idx.len(), diag_kkt@.len() == idx.len(), r14_n2 <= diag_shifted@.len(), r14_n2 <= dsigns@.len(),
                    KKT.nzval@ == nz0, map.diag_full@ == idx, dsigns@ == old(self).dsigns@,
                    (dsigns@.len() == idx.len() ==> r14_n2 == idx.len()),
                    forall|k: int| 0 <= k < idx.len() ==> #[trigger] diag_kkt@[k] == nz0[idx[k] as int],
                    forall|k: int| 0 <= k < r14_i2 ==> #[trigger] diag_shifted@[k] == reg_shift(nz0[idx[k] as int], eps, dsigns@[k]),
                    forall|k: int| r14_i2 <= k < idx.len() ==> #[trigger] diag_shifted@[k] == nz0[idx[k] as int],
//@after "_update_values_KKT(KKT, &map.diag_full, diag_kkt)"
            proof {
                assert forall|s: int| 0 <= s < nz0.len() implies KKT.nzval@[s] == nz0[s] by {
                    if exists|k: int| 0 <= k < idx.len() && idx[k] == s {
                        let k = choose|k: int| 0 <= k < idx.len() && idx[k] == s;
                        lemma_last_writer_exists(idx, idx.len() as int, k);
                        let k2 = choose|k2: int| last_writer(idx, idx.len() as int, k2) && idx[k2] == idx[k];
                        assert(KKT.nzval@[idx[k2] as int] == diag_kkt@[k2]);
                    }
                }
                assert(KKT.nzval@ =~= nz0);
            }
//@before "let is_success = self.ldlsolver.refactor(KKT)"
        proof {
            assert forall|s: int| 0 <= s < copy0.len() && !in_idx(idx, s) implies #[trigger] self.ldlsolver.copy@[s] == copy0[s] by {
                if settings.static_regularization_enable {
                    assert forall|k: int| 0 <= k < upd_n(idx, self.work2@) implies idx[k] != s by { assert(!(0 <= k < idx.len() && idx[k] == s)); }
                }
            }
            // the saved diagonal is the original one (or regularisation is off and nothing was touched)
            assert(settings.static_regularization_enable ==> forall|k: int| 0 <= k < idx.len() ==> #[trigger] diag_kkt@[k] == nz0[idx[k] as int]);
        }
//@end
}

} // verus!
fn main() {}
