// unit `kkt_reg` : static regularisation around the LDL refactorisation (C11: "the copy used for iterative refinement
// carries no regularisation")
use vstd::prelude::*;
verus! {
//@include prelude/float_opaque.rs
//@include prelude/vecmath_assumed.rs
//@include prelude/std_assumed.rs
//@include units/inc/csc_scalings.rs
//@include units/inc/kkt_values.rs
//@struct file=src/solver/core/kktsolvers/direct/quasidef/datamaps.rs name=LDLDataMap keep=P,A,diagP,diag_full
//@struct file=src/solver/implementations/default/settings.rs name=DefaultSettings rules=R1f
//@type file=src/solver/core/settings.rs name=CoreSettings
// stand-in for Box<dyn DirectLDLSolver<T> + Send + Sync> (trait object): the engine keeps its own copy of the values;
// nothing is assumed about it beyond returning
pub struct BoxedDirectLDLSolver<T> { pub _p: Option<T> }
impl BoxedDirectLDLSolver<F> {
    #[verifier::external_body] pub fn update_values(&mut self, index: &[usize], values: &[F]) { unimplemented!() }
    #[verifier::external_body] pub fn refactor(&mut self, kkt: &CscMatrix<F>) -> bool { unimplemented!() }
}
//@struct file=src/solver/core/kktsolvers/direct/quasidef/directldlkktsolver.rs name=DirectLDLKKTSolver keep=m,n,p,work1,work2,map,dsigns,KKT,ldlsolver,diagonal_regularizer

//@fn file=src/solver/core/kktsolvers/direct/quasidef/directldlkktsolver.rs name=_compute_regularizer rules=R1 ret=r
//@contract
    ensures r == f_add(settings.static_regularization_constant, f_mul(settings.static_regularization_proportional, vm_norm_inf(diag_kkt@))),
//@end
//@fn file=src/solver/core/kktsolvers/direct/quasidef/directldlkktsolver.rs name=_update_values rules=R1
//@contract
    requires forall|k: int| 0 <= k < index@.len() ==> index@[k] < old(KKT).nzval@.len(),
    ensures
        final(KKT).same_pattern(old(KKT)),
        ({ let n = if index@.len() < values@.len() { index@.len() as int } else { values@.len() as int };
           &&& forall|k: int| last_writer(index@, n, k) ==> final(KKT).nzval@[#[trigger] index@[k] as int] == values@[k]
           &&& forall|s: int| 0 <= s < old(KKT).nzval@.len() && (forall|k: int| 0 <= k < n ==> index@[k] != s) ==> #[trigger] final(KKT).nzval@[s] == old(KKT).nzval@[s] }),
//@end

// every slot that is written at all has a last writer
pub proof fn lemma_last_writer_exists(index: Seq<usize>, n: int, k: int)
    requires 0 <= k < n <= index.len(),
    ensures exists|k2: int| last_writer(index, n, k2) && index[k2] == index[k],
    decreases n - k,
{
    if forall|k2: int| k < k2 < n ==> index[k2] != index[k] {
        assert(last_writer(index, n, k));
    } else {
        let k3 = choose|k3: int| k < k3 < n && index[k3] == index[k];
        lemma_last_writer_exists(index, n, k3);
    }
}

impl DirectLDLKKTSolver<F> {
//@fn file=src/solver/core/kktsolvers/direct/quasidef/directldlkktsolver.rs in="impl<T> DirectLDLKKTSolver<T>" name=regularize_and_refactor rules=R1,R17,zipidx:1=mi;2=mi ret=r
//@contract
    requires
        // the recorded diagonal map points into the KKT matrix and the work vectors cover it
        forall|k: int| 0 <= k < old(self).map.diag_full@.len() ==> old(self).map.diag_full@[k] < old(self).KKT.nzval@.len(),
        old(self).work1@.len() == old(self).map.diag_full@.len(), old(self).work2@.len() == old(self).map.diag_full@.len(),
    ensures
        // C11: whatever the outcome of the factorisation, the KKT matrix kept for iterative refinement is exactly what it was:
        // the statically regularised diagonal lives only inside the LDL engine's copy
        final(self).KKT.same_pattern(&old(self).KKT), final(self).KKT.nzval@ == old(self).KKT.nzval@,
        final(self).map == old(self).map, final(self).dsigns@ == old(self).dsigns@,
//@pre
        let ghost nz0 = self.KKT.nzval@;
        let ghost idx = self.map.diag_full@;
//@loop 1
                invariant
                    r14_n1 == idx.len(), diag_kkt@.len() == idx.len(), map.diag_full@ == idx, KKT.nzval@ == nz0,
                    forall|k: int| 0 <= k < idx.len() ==> idx[k] < nz0.len(),
                    forall|k: int| 0 <= k < r14_i1 ==> #[trigger] diag_kkt@[k] == nz0[idx[k] as int],
//@loop 2
                invariant diag_shifted@.len() == idx.len(), diag_kkt@.len() == idx.len(), r14_n2 <= diag_shifted@.len(), r14_n2 <= dsigns@.len(),
                    KKT.nzval@ == nz0, map.diag_full@ == idx,
                    forall|k: int| 0 <= k < idx.len() ==> #[trigger] diag_kkt@[k] == nz0[idx[k] as int],
//@after "_update_values_KKT(KKT, &map.diag_full, diag_kkt)"
            proof {
                assert forall|s: int| 0 <= s < nz0.len() implies KKT.nzval@[s] == nz0[s] by {
                    if exists|k: int| 0 <= k < idx.len() && idx[k] == s {
                        let k = choose|k: int| 0 <= k < idx.len() && idx[k] == s;
                        lemma_last_writer_exists(idx, idx.len() as int, k);
                        let k2 = choose|k2: int| last_writer(idx, idx.len() as int, k2) && idx[k2] == idx[k];
                        assert(KKT.nzval@[idx[k2] as int] == diag_kkt@[k2]);
                    }
                }
                assert(KKT.nzval@ =~= nz0);
            }
//@before "let is_success = self.ldlsolver.refactor(KKT)"
        proof {
            // the saved diagonal is the original one (or regularisation is off and nothing was touched)
            assert(settings.static_regularization_enable ==> forall|k: int| 0 <= k < idx.len() ==> #[trigger] diag_kkt@[k] == nz0[idx[k] as int]);
        }
//@end
}

} // verus!
fn main() {}
